#!/bin/sh
# Re-run every kept seeded change against the check that reports it (meta.json detected_by.check, normally the
# check of its own property; quick tier); one line each: <name> <rc> <how the patch applied> [not-detected: kept as a known gap].
cd "$(dirname "$0")/.." || exit 2
for d in seeded/${2:-C}*; do
  n=$(basename $d)
  p=$(python3 -c "import json,sys; m=json.load(open('$d/meta.json')); print((m.get('detected_by') or {}).get('check') or '$n'[:3])")
  nd=$(python3 -c "import json,sys; m=json.load(open('$d/meta.json')); print('not-detected' if m.get('not_detected') else '')")
  out=$(python3 tools/mutant.py run $d $p quick ${1:-0})
  rc=$(printf '%s' "$out" | python3 -c "import sys,json; d=json.loads(sys.stdin.read()); print(d.get('rc'), d.get('applies'))")
  echo "$n $rc $nd"
done
