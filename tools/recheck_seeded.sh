#!/bin/sh
# Re-run every kept seeded change against its property's check (quick tier); one line each.
cd "$(dirname "$0")/.." || exit 2
for d in seeded/${2:-C}*; do
  n=$(basename $d); p=$(echo $n | cut -c1-3)
  out=$(python3 tools/mutant.py run $d $p quick ${1:-0})
  rc=$(printf '%s' "$out" | python3 -c "import sys,json; d=json.loads(sys.stdin.read()); print(d.get('rc'), d.get('applies'))")
  echo "$n $rc"
done
