#!/usr/bin/env python3
"""Re-confirm every kept seeded change on /repo's HEAD: the patch applies, demo.py exits 0 without it and 1 with it.
   usage: tools/recheck_demos.py [prefix]      (one line per change; scratch worktree under /tmp, removed afterwards)"""
import glob, os, subprocess, sys, shutil
VERIF = os.path.dirname(os.path.dirname(os.path.abspath(__file__)))
prefix = sys.argv[1] if len(sys.argv) > 1 else 'C'
wt = '/tmp/vf-demo-wt-%d' % os.getpid()
def sh(cmd, **kw):
    return subprocess.run(cmd, capture_output=True, text=True, **kw)
sh(['git', '-C', '/repo', 'worktree', 'add', '--detach', wt, 'HEAD'])
bad = 0
try:
    env = dict(os.environ, PYTHONPATH=wt + '/lib/python', PYTHONDONTWRITEBYTECODE='1')
    for d in sorted(glob.glob(os.path.join(VERIF, 'seeded', prefix + '*'))):
        name = os.path.basename(d)
        sh(['git', '-C', wt, 'checkout', '-q', '--', '.'])
        sh(['git', '-C', wt, 'clean', '-fdq'])
        try:
            r0 = sh(['/venv/bin/python', d + '/demo.py'], env=env, timeout=600).returncode
        except subprocess.TimeoutExpired:
            r0 = 'timeout'
        a = sh(['git', '-C', wt, 'apply', d + '/patch.diff'])
        if a.returncode != 0:
            print(name, 'PATCH DOES NOT APPLY', flush=True); bad += 1; continue
        try:
            r1 = sh(['/venv/bin/python', d + '/demo.py'], env=env, timeout=600).returncode
        except subprocess.TimeoutExpired:
            r1 = 'timeout'
        ok = (r0 == 0 and r1 == 1)
        bad += 0 if ok else 1
        print(name, 'unchanged', r0, 'changed', r1, 'ok' if ok else 'NOT CONFIRMED', flush=True)
finally:
    sh(['git', '-C', '/repo', 'worktree', 'remove', '--force', wt])
    shutil.rmtree(wt, ignore_errors=True)
    sh(['git', '-C', '/repo', 'worktree', 'prune'])
sys.exit(1 if bad else 0)
