SETUP_CMD = "/venv/bin/python tools/selftest.py"
HOOKS = {
    "guard": "TREADMILL_VERIF",
    "enable": "no repository hooks exist: monitors are installed from the harness by rebinding class attributes and by boundary fakes; the guard name is reserved and no repository line depends on it",
    "baseline_off_cmd": "cd /repo && /venv/bin/python -m pytest -ra -q -p no:cacheprovider --timeout=900 --continue-on-collection-errors",
    "source_commits": [],
    "add_only": True,
}
NOTES = ("Runtime monitoring only (DESIGN.md). ./check <Cxx> --tier quick|thorough [--seed N]; exit 0 held on what was observed, "
         "1 violation (VIOLATION property=.. replay=..), 2 inconclusive (deciding counter zero / watchdog). "
         "Genuine defects found on the pinned tree were repaired by 'fix:' commits in /repo and are listed under 'fixed' in known_findings.json; "
         "defects recorded but not repaired are under 'findings' there and print KNOWN-FINDING lines.")
ENGINES = [
    {"name": "sched-cell", "path": "vf/sched", "serves_properties": ["C01", "C02", "C03", "C04", "C05", "C06", "C07", "C08"],
     "kind_free_text": "generated event histories executed on the real scheduler.Cell under a virtual clock; reference-model oracles after every cycle; forked probe cycles"},
    {"name": "master-zk", "path": "vf/master", "serves_properties": ["C01", "C03", "C04", "C05", "C06", "C07", "C08", "C09", "C10", "C11"],
     "kind_free_text": "real Master/Loader on ZkBackend on an in-memory ZooKeeper (vf/zkfake.py); events produced with masterapi; fork-based crash cuts and restarts"},
    {"name": "node-appcfgmgr", "path": "vf/node", "serves_properties": ["C13"], "kind_free_text": "real AppCfgMgr/configure/monitor/cleanup on a temp root, interleaving explorer, directory invariants"},
    {"name": "node-owndb", "path": "vf/owndb", "serves_properties": ["C14"], "kind_free_text": "symlink ownership databases vs reference model, syscall failpoints, forked contention"},
    {"name": "node-runtime-net", "path": "vf/runtime_net", "serves_properties": ["C16"], "kind_free_text": "real _run._unshare_network / _finish.finish over a kernel-state model, snapshot conservation"},
    {"name": "zk-presence", "path": "vf/zkproto", "serves_properties": ["C17"], "kind_free_text": "two presence services on the ZooKeeper fake under a controlled scheduler"},
    {"name": "node-cache", "path": "vf/checks/c12.py", "serves_properties": ["C12"],
     "kind_free_text": "real EventMgr on a temp root + in-memory ZooKeeper; sys.monitoring LINE failpoints and syscall-boundary hooks"},
    {"name": "trace-archive", "path": "vf/checks/c18.py", "serves_properties": ["C18"],
     "kind_free_text": "real trace archiver on the in-memory ZooKeeper, crash switch at every write, sqlite snapshots opened by the oracle"},
    {"name": "codecs", "path": "vf/checks/c15.py", "serves_properties": ["C15"],
     "kind_free_text": "round-trip / injectivity monitors on the real encoders and decoders over generated domains"},
    {"name": "appmonitor-loop", "path": "vf/checks/c20.py", "serves_properties": ["C20"],
     "kind_free_text": "real sproc.appmonitor._run_sync on the in-memory ZooKeeper with a scripted time.sleep hook and a recording REST fake"},
    {"name": "api-ldapfake", "path": "vf/api", "serves_properties": ["C19", "C15"],
     "kind_free_text": "real API / admin objects over an in-memory LDAP directory (vf/api/ldapfake.py)"},
]
_SCHED_NOTE = ("Trusted base: the harness model of what it asked for (vf/sched/celldrv.py), the virtual clock, the observe-only wrappers; "
               "the Cell is driven with the call sequences scheduler.loader uses. Decides only the executions produced; evidence lists reach counters.")


def _s(text, technique, ref):
    return dict(engine='sched-cell', category='exploration', text=text, design_ref=ref, note=_SCHED_NOTE, technique=technique)


CHECKS = {
    'C01': _s("After every cycle of thousands of generated hostile histories the leaf recount of demand, the asked capacities, the reported free vector and both placement views are compared; held on the executions observed (counts in evidence).",
              "runtime monitoring: reference-model oracle (leaf recount vs asked capacity) after every cycle of generated histories", "DESIGN 2 C01"),
    'C02': _s("Quiescent states reached by generated histories are probed in forked children; an independent leaf scan decides whether the probe fits and the real next cycle must place it (Master level: also probes into existing allocations; directed probes: a pending instance's application under other limit levels, a lease ending less than a second before the reboot). One known finding (tracker shape ignores limit levels) is listed in known_findings.json.",
              "runtime monitoring: forked probe cycles on quiescent cells vs independent leaf-scan oracle", "DESIGN 2 C02"),
    'C03': _s("Every new assignment returned by schedule() and every placed instance after each cycle is checked against the harness record of server state, partition, traits and reboot time; at Master level the reboot-request task runs after every cycle (no request before the reboot time while a lease has not ended) and an acknowledged freeze must stay in force.",
              "runtime monitoring: per-assignment and per-cycle oracle over schedule() tuples vs harness record", "DESIGN 2 C03"),
    'C04': _s("After every cycle the per-node subtree recount of each affinity is compared with the declared limits and with the scheduler's own counters, under eviction/restore pressure.",
              "runtime monitoring: subtree recount invariant after every cycle", "DESIGN 2 C04"),
    'C05': _s("After every cycle uniqueness, range, placed=>identity, unplaced=>none and conservation (available+held=range) are evaluated per identity group under group churn.",
              "runtime monitoring: identity conservation/uniqueness invariant after every cycle", "DESIGN 2 C05"),
    'C06': _s("The queue captured at Cell._find_placements is compared with an independent arithmetic model of the allocation tree (permutation, rank monotonicity, per-allocation order, boost, cap).",
              "runtime monitoring: captured queue vs independent arithmetic reference", "DESIGN 2 C06"),
    'C07': _s("For each cycle the before/after tuples are related to the captured queue: a displaced healthy instance needs a gainer strictly ahead of it.",
              "runtime monitoring: history oracle relating schedule() tuples to the captured queue", "DESIGN 2 C07"),
    'C08': _s("Retention windows, frozen servers and blacklisting are decided on virtual time from the harness' own log of state transitions, with clock steps landing around each deadline.",
              "runtime monitoring: virtual-clock oracle over before/after tuples vs harness fault log", "DESIGN 2 C08"),
}
_M_NOTE = ("Trusted base: the in-memory ZooKeeper fake (vf/zkfake.py, conformance unit in setup_cmd) under the real ZkBackend/zkutils/masterapi; "
           "the driver replaces the four children watches by calling the registered handler for each watched path whose children changed; virtual clock; "
           "fork() gives each crash/restart world a private copy of the stored state.")
CHECKS['C09'] = dict(engine='master-zk', category='exploration', design_ref='DESIGN 3 C09', note=_M_NOTE,
                     text="After init_schedule() and every reschedule()+check_placement_integrity() of generated ZooKeeper-level histories (with master restarts) the full /placement tree is compared with Master.cell: existence, server, identity, expires. Every 5th case runs the real Master.run_loop() on two OS threads (watch callbacks on a callback thread that Master.watch blocks, operator commands at the start-up joints, while the master is busy and at idle, a parked callback, a second master) and evaluates the same oracle plus 'no entry for an unscheduled instance' when the master has nothing left to do.",
                     technique="runtime monitoring: full backend dump vs model after every cycle of generated event histories; two-thread runs of the real service loop with forced switches (sys.monitoring LINE)")
CHECKS['C10'] = dict(engine='master-zk', category='fault_enumeration', design_ref='DESIGN 3 C10', note=_M_NOTE,
                     text="Every mutating ZooKeeper call of every init_schedule()/reschedule() of every generated history is a crash point (fork before it, plus one after the last): no double entry at the cut; a new master starts, republishes a placement equal to its model and passes its own integrity check.",
                     technique="runtime monitoring with fault injection: fork at every storage write, restart oracle in the child")
CHECKS['C11'] = dict(engine='master-zk', category='exploration', design_ref='DESIGN 3 C11', note=_M_NOTE,
                     text="After every completed cycle a forked child rebuilds the model with load_model() and it is compared with a reference computed from the stored state alone (healthy servers: presence ctime <= entry ctime, recorded instances fit); also with the successor's clock behind, a record removed by another writer between listing and read, a fail-over right after a pod left the cell, and a standby started through Master.run().",
                     technique="runtime monitoring: forked restart after every cycle vs reference computed from the stored state")
CHECKS['C19'] = dict(engine='api-ldapfake', category='exploration', design_ref='DESIGN 5 C19',
                     note="Trusted base: in-memory directory under the real treadmill.admin._ldap.Admin (wire operations only are replaced) in one case of three, in the other two real ldap3 connections on ldap3's MOCK_SYNC directory under the unmodified Admin; the harness mirror of stored reservations and its own unit parser; schema-invalid requests are outside the domain.",
                     text="Sequences of create/update/delete reservation requests are issued to the real API (real schema validation, real admin objects) and every accept/reject decision is compared with an independent sum over the stored reservations, per dimension and per limited trait.",
                     technique="runtime monitoring: reference-model oracle (independent capacity sum) on every API decision of generated request sequences")
CHECKS['C20'] = dict(engine='appmonitor-loop', category='exploration', design_ref='DESIGN 5 C20',
                     note="Trusted base: in-memory ZooKeeper fake; restclient.post replaced at the REST boundary (dispatches to masterapi on the same ZooKeeper); virtual clock and time.sleep hook; the independent token bucket is reset when the monitor node's content is rewritten (observed at the node).",
                     text="The real _run_sync loop (watches + reevaluate) runs tens of evaluations per generated history under an advancing virtual clock with instances dying, reconfigurations, deletions and every handled/unhandled REST failure; each recorded call is checked against missing count, an independent token bucket, exact surplus by policy and suspension.",
                     technique="runtime monitoring: recorded REST calls of the real monitor loop vs independent token-bucket / surplus reference under a virtual clock")
CHECKS['C15'] = dict(engine='codecs', category='exploration', design_ref='DESIGN 5 C15',
                     note="Trusted base: the harness' own field-wise comparison and canonical forms; in-memory ZooKeeper and LDAP directory for the storage-backed paths; os.stat patched for gen_uniqueid only. Field alphabets follow etc/schema; the node-name separator ',' is outside every field.",
                     text="Tens of thousands of generated rules, instance/unique names, trace events, ZooKeeper payloads and LDAP objects per run are pushed through the real codec pairs (also through RuleMgr on disk, trace.post_zk -> AppTraceLoop, zkutils, admin create/get/update) and compared field-wise; a run-wide registry and single-field mutation pairs look for collisions.",
                     technique="runtime monitoring: round-trip postconditions on the real codecs + injectivity registry over generated inputs")
CHECKS['C18'] = dict(engine='trace-archive', category='fault_enumeration', design_ref='DESIGN 5 C18',
                     note="Trusted base: in-memory ZooKeeper fake with crash switch and write log; snapshots are decompressed and opened with sqlite by the harness; virtual clock; node mtimes set by the harness.",
                     text="Every ZooKeeper write of a full archiving run (cleanup_trace, cleanup_finished, cleanup_server_trace, cleanup_*_history) over generated populations is a crash point: at each cut every previously live event/record is still live or a row of a snapshot, young/scheduled ones are live, pruning removed only the oldest snapshots.",
                     technique="runtime monitoring with fault injection: crash at every storage write, conservation oracle over live nodes + opened sqlite snapshots")
CHECKS['C12'] = dict(engine='node-cache', category='fault_enumeration', design_ref='DESIGN 4 C12',
                     note="Trusted base: in-memory ZooKeeper fake, real filesystem in a temp dir; sys.monitoring LINE events and wrappers of os.replace/os.fchmod/NamedTemporaryFile as failpoints; the directory is read from inside the hook without flushing the writer's buffers (what another process or a crash at that instant sees).",
                     text="The real EventMgr._synchronize converges arbitrary generated cache states to the placement; every statement and syscall boundary of the real write path is a point where the directory is read as a crash/reader would see it and, in a second pass, where an I/O error is injected (plus disk-full in the middle of the manifest).",
                     technique="runtime monitoring with fault injection: reader/crash view and injected I/O errors at every statement and syscall boundary of the write path")
CHECKS['C13'] = dict(engine='node-appcfgmgr', category='exploration', design_ref='DESIGN 4 C13 / 9',
                     note="Trusted base: real AppCfgMgr + real appcfg.configure + real monitor/cleanup actions on a temp root with a real inotify watcher; faked: runtime lookup, s6 control, subproc.resolve, runtime.finish (removes the container dir). Generations are identified by a marker in the manifest, not by the repository's naming functions.",
                     text="Random interleavings of cache changes (same instance evicted and placed again), readiness flips, one-at-a-time event delivery, containers ending on their own, cleanups completing late, manager restarts and node starts; after every handler the listing of running/, cleanup/, apps/ is checked: one link per container, finished never restarted, unchanged running kept, deleted handed to cleanup, running == configurable cache after a synchronisation.",
                     technique="runtime monitoring: directory-listing invariants after every handler of generated event interleavings (PYTHONHASHSEED varied)")
CHECKS['C14'] = dict(engine='node-owndb', category='exploration', design_ref='DESIGN 4 C14 / 9',
                     note="Trusted base: 40-line reference model entry->owner; os/glob proxies giving failpoints at listdir/stat/readlink/symlink/unlink; kernel (link/bridge/ipset) state model under the real NetworkResourceService; forked processes for contention. Known findings (TOCTOU windows of the lock-free symlink databases) are listed in known_findings.json.",
                     text="The real VipMgr / RuleMgr / EndpointsMgr / NetworkResourceService are replayed against a reference ownership model after every operation, with other actors' operations injected between two system calls, tiny networks driven to exhaustion, service restarts and kills, and real multi-process contention whose merged history is checked for overlapping holds.",
                     technique="runtime monitoring: reference-model replay + syscall-boundary failpoints + multi-process history checker (no double hold)")
CHECKS['C16'] = dict(engine='node-runtime-net', category='exploration', design_ref='DESIGN 4 C16 / 9',
                     note="Trusted base: kernel-state model for ipset/conntrack behind subproc; harness-side network daemon handing out VIPs (lowest free of a small pool); real RuleMgr/EndpointsMgr/ResourceServiceClient, real allocate_network_ports on loopback, real state.json round trip; resolver stable between start and finish.",
                     text="For generated manifests and interleaved starts/finishes (also interrupted and repeated finishes, two containers of one instance) snapshots of rules/, endpoints/ and the IP-set model are compared: after A's finish the state is the state before minus exactly what A's start added; after all finishes it equals the initial snapshot.",
                     technique="runtime monitoring: before/after snapshot conservation oracle over generated manifests and start/finish interleavings with injected kills")
CHECKS['C17'] = dict(engine='zk-presence', category='exploration', design_ref='DESIGN 5 C17 / 9',
                     note="Trusted base: in-memory ZooKeeper fake (sessions, ephemerals, kazoo's DataWatch); controlled scheduler with a yield point at every ZooKeeper operation (greenlet tasks, seeded choices); inotify loop of ResourceService replaced by a per-process FIFO. Known findings are listed in known_findings.json.",
                     text="Two real PresenceResourceService instances (two sessions) plus auxiliary clients run create/delete requests of successive containers under a seeded scheduler that picks the next task at every ZooKeeper operation, with session expiry and crashes at any yield point; the node-table history is checked: only the owner session mutates, creates are ephemeral, foreign nodes untouched + watch, old clean-up keeps newer nodes, bounded progress.",
                     technique="runtime monitoring: controlled-interleaving exploration at ZooKeeper-operation granularity + ownership oracle over the node-table history")
NOT_APPLICABLE = {}
