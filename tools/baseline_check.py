#!/usr/bin/env python3
"""tools/baseline_check.py <tree>: run the pinned test-suite (command of /root/.vp/BASELINE.json) in <tree> and say
   whether every test of its stable_pass list passes.  First output line: 'BASELINE OK: ...' or 'BASELINE FAIL: ...'."""
import json, os, subprocess, sys, tempfile
import xml.etree.ElementTree as ET

def main(tree):
    base = json.load(open('/root/.vp/BASELINE.json'))
    want = set(base['stable_pass'])
    fd, xml = tempfile.mkstemp(suffix='.junit.xml'); os.close(fd)
    env = dict(os.environ, PYTHONDONTWRITEBYTECODE='1')
    env.pop('PYTHONPATH', None)
    subprocess.run(['/venv/bin/python', '-m', 'pytest', '-ra', '-q', '-p', 'no:cacheprovider', '--timeout=900',
                    '--continue-on-collection-errors', '-x' if False else '-q', '--junitxml=' + xml],
                   cwd=tree, env=env, capture_output=True, text=True, timeout=3000)
    passed = set()
    try:
        for tc in ET.parse(xml).getroot().iter('testcase'):
            if not any(ch.tag in ('failure', 'error', 'skipped') for ch in tc):
                passed.add('%s::%s' % (tc.get('classname'), tc.get('name')))
    finally:
        os.unlink(xml)
    missing = sorted(want - passed)
    if missing:
        print('BASELINE FAIL: %d of %d stable tests do not pass: %s' % (len(missing), len(want), ', '.join(missing[:5])))
        return 1
    print('BASELINE OK: all %d stable tests pass' % len(want))
    return 0

if __name__ == '__main__':
    sys.exit(main(sys.argv[1]))
