#!/usr/bin/env python3
"""Regenerate /verif/MANIFEST.json from tools/manifest_table.py (checks that exist)."""
import importlib.util
import json
import os

HERE = os.path.dirname(os.path.abspath(__file__))
VERIF = os.path.dirname(HERE)
spec = importlib.util.spec_from_file_location('manifest_table', os.path.join(HERE, 'manifest_table.py'))
T = importlib.util.module_from_spec(spec)
spec.loader.exec_module(T)

props = [json.loads(l) for l in open(os.path.join(VERIF, 'properties.jsonl'))]
checks = []
na = []
for p in props:
    pid = p['id']
    if pid in T.CHECKS:
        c = T.CHECKS[pid]
        checks.append({
            'property_id': pid,
            'quick_cmd': './check %s --tier quick' % pid,
            'thorough_cmd': './check %s --tier thorough' % pid,
            'evidence_file': 'evidence/%s.json' % pid,
            'replay_cmd_template': './check %s --replay {path}' % pid,
            'engine': c['engine'],
            'level_claimed': {'category': c['category'], 'text': c['text'], 'design_ref': c['design_ref']},
            'level_note': c['note'],
            'technique': c['technique'],
        })
    else:
        na.append({'property_id': pid, 'reason': T.NOT_APPLICABLE.get(pid, 'check not built yet (work in progress; see DESIGN.md)')})
m = {
    'version': 1,
    'setup_cmd': T.SETUP_CMD,
    'hooks': T.HOOKS,
    'engines': T.ENGINES,
    'checks': checks,
    'notes': T.NOTES,
}
m['not_applicable'] = na        # every property is claimed: the list is empty
json.dump(m, open(os.path.join(VERIF, 'MANIFEST.json'), 'w'), indent=1)
print('checks:', [c['property_id'] for c in checks], 'not_applicable:', [n['property_id'] for n in na])
