#!/bin/sh
# tools/sweep.sh <tier> <seed> [checks...]: run checks, print one line each
tier=${1:-quick}; seed=${2:-0}; shift 2 2>/dev/null
checks=${*:-$(python3 -c "import json;print(' '.join(c['property_id'] for c in json.load(open('MANIFEST.json'))['checks']))")}
for p in $checks; do
  out=$(./check $p --tier $tier --seed $seed 2>&1); rc=$?
  echo "== $p tier=$tier seed=$seed rc=$rc $(echo "$out" | head -1 | sed 's/.*evaluations=/evaluations=/')"
  echo "$out" | grep -E "^(VIOLATION|  mechanism|INCONCLUSIVE|KNOWN)" | head -6
done
