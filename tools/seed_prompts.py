#!/usr/bin/env python3
"""tools/seed_prompts.py <outdir> <letter1> <letter2> [worktree-root]: write one prompt per property for the next round of
seeding agents (fresh sub-agents that see only the property text, their scratch worktree and the list of earlier attempts).
The text is tools/seed_prompt_example_C01.txt (round 9) with the property, the paths and the earlier-attempt list replaced;
edit the theme paragraph (between 'Assume a thorough randomized test harness' and 'The two changes must be independent')
for a new round.  Worktrees: git -C /repo worktree add --detach <worktree-root>/<Cxx> HEAD (remove them afterwards).
Copy tools/baseline_check.py to /tmp/mut/baseline_check.py first (the prompt refers to it there, outside /verif)."""
import glob, json, os, sys
V = os.path.dirname(os.path.dirname(os.path.abspath(__file__)))
out, l1, l2 = sys.argv[1], sys.argv[2], sys.argv[3]
wtroot = sys.argv[4] if len(sys.argv) > 4 else '/tmp/mut/wt'
ex = open(os.path.join(V, 'tools', 'seed_prompt_example_C01.txt')).read()
props = {json.loads(l)['id']: json.loads(l) for l in open(os.path.join(V, 'properties.jsonl'))}
p0 = json.dumps({k: props['C01'][k] for k in ('id', 'title', 'statement', 'quantifier', 'why_tests_cant', 'anchors')}, indent=1)
head, _ = ex.split('EARLIER ATTEMPTS FOR THIS PROPERTY', 1)
os.makedirs(out, exist_ok=True)
for pid, p in sorted(props.items()):
    prev = []
    for d in sorted(glob.glob(V + '/seeded/%s?' % pid) + glob.glob(V + '/seeded/_rejected/%s?' % pid)):
        try:
            m = json.load(open(d + '/meta.json'))
        except Exception:
            continue
        prev.append('- ' + str(m.get('summary') or '').replace('\n', ' ')[:200])
    ptxt = json.dumps({k: p[k] for k in ('id', 'title', 'statement', 'quantifier', 'why_tests_cant', 'anchors')}, indent=1)
    h = head.replace(p0, ptxt).replace('/tmp/mut/wt8/C01', '%s/%s' % (wtroot, pid)).replace('"property": "C01"', '"property": "%s"' % pid)
    h = h.replace('/tmp/mut/out9/C01/q/ and /tmp/mut/out9/C01/r/', '%s/%s/%s/ and %s/%s/%s/' % (out, pid, l1, out, pid, l2))
    h = h.replace('(directory q, directory r)', '(directory %s, directory %s)' % (l1, l2))
    open(os.path.join(out, pid + '.prompt'), 'w').write(
        h + 'EARLIER ATTEMPTS FOR THIS PROPERTY (do not repeat these sites or ideas; find different ones):\n' + '\n'.join(prev) +
        '\n\nFinish with a short report: for each change the files/functions touched, the idea, and the exit codes you observed (unpatched / patched / baseline).')
    for l in (l1, l2):
        os.makedirs(os.path.join(out, pid, l), exist_ok=True)
print('wrote %d prompts to %s' % (len(props), out))
