#!/usr/bin/env python3
"""Seeded-change tooling (never touches /repo: everything happens in a scratch worktree of /repo's HEAD).
   tools/mutant.py keep <srcdir> <name> <Cxx> [tier] : verify (baseline OK, demo 0 at HEAD / 1 patched), run ./check <Cxx>
                                                     against the patched worktree, store under /verif/seeded/<name>/
   tools/mutant.py run <dir> <Cxx> [tier] [seed]     : only run the check against the patched worktree"""
import json, os, subprocess, sys, shutil, time, tempfile
VERIF = os.path.dirname(os.path.dirname(os.path.abspath(__file__)))

def sh(cmd, **kw):
    return subprocess.run(cmd, capture_output=True, text=True, **kw)

def make_wt(tag):
    os.makedirs('/tmp/mut', exist_ok=True)
    wt = '/tmp/mut/wt-%s-%d' % (tag, os.getpid())
    sh(['git', '-C', '/repo', 'worktree', 'add', '--detach', wt, 'HEAD'])
    return wt

def drop_wt(wt):
    sh(['git', '-C', '/repo', 'worktree', 'remove', '--force', wt])
    shutil.rmtree(wt, ignore_errors=True)
    sh(['git', '-C', '/repo', 'worktree', 'prune'])

def apply_patch(tree, patch):
    if sh(['git', '-C', tree, 'apply', '--check', patch]).returncode == 0:
        return sh(['git', '-C', tree, 'apply', patch]).returncode == 0, 'clean'
    r = sh(['git', '-C', tree, 'apply', '-3', patch])
    if r.returncode == 0:
        sh(['git', '-C', tree, 'reset', '-q'])
        return True, '3way'
    sh(['git', '-C', tree, 'reset', '-q', '--hard', 'HEAD'])
    return False, r.stderr[-300:]

def run_check(wt, pid, tier='quick', seed='0'):
    tmp = tempfile.mkdtemp(prefix='mutrun-')
    env = dict(os.environ, VERIF_REPO=wt, VERIF_EVIDENCE_DIR=tmp + '/ev', VERIF_REPLAY_DIR=tmp + '/rp')
    t = time.time()
    r = sh(['./check', pid, '--tier', tier, '--seed', seed], cwd=VERIF, env=env, timeout=3600)
    lines = [l[:400] for l in r.stdout.split('\n') if l.startswith(('VIOLATION', '  mechanism', 'INCONCLUSIVE'))]
    lines += [l[:120] for l in r.stdout.split('\n') if l.startswith('KNOWN')]
    shutil.rmtree(tmp, ignore_errors=True)
    return {'check': pid, 'tier': tier, 'seed': int(seed), 'rc': r.returncode, 'wall_s': round(time.time() - t, 1), 'lines': lines[:6]}

def keep(src, name, pid, tier='quick'):
    src = os.path.abspath(src)
    wt = make_wt(name)
    out = {}
    try:
        env = dict(os.environ, PYTHONPATH=wt + '/lib/python', PYTHONDONTWRITEBYTECODE='1')
        r0 = sh(['/venv/bin/python', src + '/demo.py'], env=env, timeout=900)
        out['demo_exit_unchanged'] = r0.returncode
        ok, how = apply_patch(wt, src + '/patch.diff')
        out['patch_applies'] = how
        if not ok:
            print(json.dumps(out)); return
        r1 = sh(['/venv/bin/python', src + '/demo.py'], env=env, timeout=900)
        out['demo_exit_changed'] = r1.returncode
        out['demo_output_changed_tail'] = (r1.stdout + r1.stderr)[-400:]
        b = sh(['python3', VERIF + '/tools/baseline_check.py', wt], timeout=1200)
        out['baseline'] = b.stdout.strip().split('\n')[0][:200]
        # store the patch as it applies to /repo HEAD
        diff = sh(['git', '-C', wt, 'diff']).stdout
        det = run_check(wt, pid, tier)
        out['detection'] = det
    finally:
        drop_wt(wt)
    dst = '/verif/seeded/' + name
    os.makedirs(dst, exist_ok=True)
    open(dst + '/patch.diff', 'w').write(diff)
    shutil.copy(src + '/demo.py', dst + '/demo.py')
    meta = {}
    if os.path.exists(src + '/meta.json'):
        try:
            meta = json.load(open(src + '/meta.json'))
        except Exception:
            meta = {}
    head = sh(['git', '-C', '/repo', 'log', '--format=%h', '-1']).stdout.strip()
    meta.update({'property': pid, 'repo_head_when_confirmed': head,
                 'confirmed': {'baseline_with_change': out.get('baseline'), 'demo_exit_unchanged': out['demo_exit_unchanged'],
                               'demo_exit_changed': out.get('demo_exit_changed'), 'patch_applies': out['patch_applies'],
                               'how': 'scratch worktree of /repo HEAD: demo.py run before and after git apply; pinned test-suite run with the change (tools/mutant.py keep)'},
                 'detected_by': out.get('detection')})
    json.dump(meta, open(dst + '/meta.json', 'w'), indent=1)
    print(name, json.dumps({k: out[k] for k in out if k != 'demo_output_changed_tail'})[:600])

if __name__ == '__main__':
    if sys.argv[1] == 'keep':
        keep(*sys.argv[2:])
    elif sys.argv[1] == 'mark':
        # mark <seeded dir> <check> [tier] [seed]: re-run and, when the check reports it, record the detection in meta.json
        d, pid = sys.argv[2], sys.argv[3]
        wt = make_wt('run')
        try:
            ok, how = apply_patch(wt, os.path.abspath(d) + '/patch.diff')
            det = run_check(wt, pid, *sys.argv[4:]) if ok else {}
        finally:
            drop_wt(wt)
        if det.get('rc') == 1:
            m = json.load(open(d + '/meta.json'))
            if m.pop('not_detected', None):
                m['was_not_detected_when_kept'] = True
            m['detected_by'] = det
            json.dump(m, open(d + '/meta.json', 'w'), indent=1)
        print(d, det.get('rc'), how, det.get('lines', [])[:2])
    else:
        d, pid = sys.argv[2], sys.argv[3]
        wt = make_wt('run')
        try:
            ok, how = apply_patch(wt, os.path.abspath(d) + '/patch.diff')
            print(json.dumps(dict(applies=how, **(run_check(wt, pid, *sys.argv[4:]) if ok else {}))))
        finally:
            drop_wt(wt)
