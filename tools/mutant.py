#!/usr/bin/env python3
"""tools/mutant.py verify <dir>         : confirm a seeded change in a scratch worktree (baseline OK, demo 1/0)
   tools/mutant.py run <dir> <Cxx> [tier]: apply <dir>/patch.diff to /repo, run ./check, undo; prints verdict."""
import json, os, subprocess, sys, shutil, time

def sh(cmd, **kw):
    return subprocess.run(cmd, shell=isinstance(cmd, str), capture_output=True, text=True, **kw)

def apply_patch(tree, patch):
    r = sh(['git', '-C', tree, 'apply', '--check', patch])
    if r.returncode == 0:
        return sh(['git', '-C', tree, 'apply', patch]).returncode == 0, 'clean'
    r = sh(['git', '-C', tree, 'apply', '-3', patch])
    if r.returncode == 0:
        sh(['git', '-C', tree, 'reset', '-q'])
        return True, '3way'
    sh(['git', '-C', tree, 'reset', '-q', '--hard', 'HEAD'])
    return False, r.stderr[-300:]

def verify(d):
    d = os.path.abspath(d)
    wt = '/tmp/mut/verify-%d' % os.getpid()
    sh(['git', '-C', '/repo', 'worktree', 'add', '--detach', wt, 'HEAD'])
    out = {}
    try:
        env = dict(os.environ, PYTHONPATH=wt + '/lib/python', PYTHONDONTWRITEBYTECODE='1')
        r0 = sh(['/venv/bin/python', d + '/demo.py'], env=env, timeout=600)
        out['demo_head'] = r0.returncode
        ok, how = apply_patch(wt, d + '/patch.diff')
        out['applies'] = how
        if ok:
            r1 = sh(['/venv/bin/python', d + '/demo.py'], env=env, timeout=600)
            out['demo_patched'] = r1.returncode
            out['demo_patched_tail'] = (r1.stdout + r1.stderr)[-300:]
            b = sh(['python3', '/tmp/mut/baseline_check.py', wt], timeout=900)
            out['baseline'] = b.stdout.strip().split('\n')[0][:200]
    finally:
        sh(['git', '-C', '/repo', 'worktree', 'remove', '--force', wt])
        shutil.rmtree(wt, ignore_errors=True)
    print(json.dumps(out))
    return out

def run(d, pid, tier='quick', seed='0'):
    d = os.path.abspath(d)
    assert sh(['git', '-C', '/repo', 'status', '--porcelain']).stdout.strip() == '', '/repo not clean'
    ok, how = apply_patch('/repo', d + '/patch.diff')
    if not ok:
        print(json.dumps({'applies': how}))
        return
    try:
        t = time.time()
        r = sh(['./check', pid, '--tier', tier, '--seed', seed], cwd='/verif', timeout=3000)
        lines = [l for l in r.stdout.split('\n') if l.startswith(('VIOLATION', '  mechanism', 'INCONCLUSIVE', 'KNOWN'))]
        print(json.dumps({'applies': how, 'check': pid, 'rc': r.returncode, 'wall': round(time.time() - t, 1), 'lines': lines[:6]}))
    finally:
        sh(['git', '-C', '/repo', 'checkout', '--', '.'])
        sh(['git', '-C', '/repo', 'clean', '-fdq', 'lib'])
        sh(['git', '-C', '/verif', 'checkout', '--', 'evidence'])

if __name__ == '__main__':
    if sys.argv[1] == 'verify':
        verify(sys.argv[2])
    else:
        run(*sys.argv[2:])
