#!/venv/bin/python
"""setup_cmd: offline sanity of the framework (imports treadmill from /repo's
working tree, fake conformance units)."""
import os
import sys
sys.path.insert(0, os.path.dirname(os.path.dirname(os.path.abspath(__file__))))
from vf import env
env.bootstrap()
import treadmill.scheduler  # noqa
from vf import zkfake
assert zkfake.selftest()
print('selftest ok: treadmill from', os.path.dirname(treadmill.__file__))
