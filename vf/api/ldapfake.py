"""In-memory directory under the real treadmill.admin._ldap.Admin (DESIGN 1.4).

Only the wire operations (add / delete / modify / search / paged_search) are
replaced; Admin.get/create/update/replace/set, _diff_entries and every
LdapObject subclass (to_entry / from_entry) are the repository's own code."""
import re

import ldap3
from ldap3.core import exceptions as lx

from treadmill.admin import _ldap, ldapbackend


def _exc(cls, code, desc, dn):
    return cls(result=code, description=desc, dn=dn, message='', response_type='fake')


class FakeLdapAdmin(_ldap.Admin):
    def __init__(self, suffix='dc=vf,dc=test'):
        super().__init__(None, suffix)
        self.store = {}
        self.writes = 0
        self.ldap = self.write_ldap = object()
        for ou in ('allocations', 'cells', 'apps', 'app-groups', 'servers', 'tenants', 'dns-servers'):
            self.store['ou=%s,%s' % (ou, self.root_ou)] = {'objectClass': ['organizationalUnit'], 'ou': [ou]}
        self.store[self.root_ou] = {'objectClass': ['organizationalUnit'], 'ou': ['treadmill']}

    # -- writes ------------------------------------------------------------
    @staticmethod
    def _vals(values):
        if not isinstance(values, (list, tuple)):
            values = [values]
        out = []
        for v in values:
            if isinstance(v, bytes):
                out.append(v)
            elif isinstance(v, bool):
                out.append('TRUE' if v else 'FALSE')
            else:
                out.append(str(v))
        return out

    def add(self, dn, object_class=None, attributes=None):
        self.writes += 1
        if dn in self.store:
            raise _exc(lx.LDAPEntryAlreadyExistsResult, 68, 'entryAlreadyExists', dn)
        entry = {}
        for k, v in (attributes or {}).items():
            vals = self._vals(v)
            if vals:
                entry[k] = vals
        if object_class:
            entry.setdefault('objectClass', self._vals(object_class))
        self.store[dn] = entry

    def delete(self, dn):
        self.writes += 1
        if dn not in self.store:
            raise _exc(lx.LDAPNoSuchObjectResult, 32, 'noSuchObject', dn)
        del self.store[dn]

    def modify(self, dn, changes):
        if not changes:
            return
        self.writes += 1
        if dn not in self.store:
            raise _exc(lx.LDAPNoSuchObjectResult, 32, 'noSuchObject', dn)
        entry = self.store[dn]
        lower = {k.lower(): k for k in entry}
        for attr, ops in changes.items():
            key = lower.get(attr.lower(), attr)
            for op, values in ops:
                values = self._vals(values)
                if op == ldap3.MODIFY_REPLACE:
                    if values:
                        entry[key] = list(values)
                    else:
                        entry.pop(key, None)
                elif op == ldap3.MODIFY_ADD:
                    cur = entry.setdefault(key, [])
                    for v in values:
                        if v not in cur:
                            cur.append(v)
                elif op == ldap3.MODIFY_DELETE:
                    if not values:
                        entry.pop(key, None)
                    else:
                        entry[key] = [v for v in entry.get(key, []) if v not in values]
                        if not entry[key]:
                            del entry[key]
                lower[key.lower()] = key

    # -- reads ---------------------------------------------------------------
    def _match(self, entry, flt):
        for attr, val in re.findall(r'\(([^=()&|!]+)=([^()]*)\)', flt or ''):
            have = None
            for k, v in entry.items():
                if k.lower() == attr.lower():
                    have = v
            if have is None:
                return False
            if val == '*':
                continue
            if attr.lower() == 'objectclass':
                if val.lower() not in [str(x).lower() for x in have]:
                    return False
            elif val not in [x if isinstance(x, str) else x.decode() for x in have]:
                return False
        return True

    def _search(self, search_base, search_filter, search_scope, attributes):
        if search_base is None:
            search_base = self.root_ou
        if search_base not in self.store:
            raise _exc(lx.LDAPNoSuchObjectResult, 32, 'noSuchObject', search_base)
        want = None
        if attributes is not None and '*' not in attributes:
            want = {a.lower() for a in attributes}
        out = []
        for dn in sorted(self.store):
            if search_scope in (ldap3.BASE, 'BASE'):
                if dn != search_base:
                    continue
            elif not (dn == search_base or dn.endswith(',' + search_base)):
                continue
            entry = self.store[dn]
            if not self._match(entry, search_filter):
                continue
            attrs = {k: list(v) for k, v in entry.items()
                     if want is None or k.split(';')[0].lower() in want or k.lower() in want}
            out.append({'dn': dn, 'attributes': attrs,
                        'raw_attributes': {k: [x.encode() if isinstance(x, str) else x for x in v]
                                           for k, v in attrs.items()},
                        'type': 'searchResEntry'})
        return out

    def search(self, search_base=None, search_filter=None, search_scope=ldap3.SUBTREE,
               attributes=None, dirty=False):
        return iter(self._search(search_base, search_filter, search_scope, attributes))

    def paged_search(self, search_base=None, search_filter=None, search_scope=ldap3.SUBTREE,
                     attributes=None, dirty=False):
        return iter(self._search(search_base, search_filter, search_scope, attributes))


def make_backend():
    """A real AdminLdapBackend whose wire connection is the in-memory directory."""
    be = ldapbackend.AdminLdapBackend(None, 'dc=vf,dc=test')
    be._ldap_conn = FakeLdapAdmin()       # pylint: disable=protected-access
    return be


# ---------------------------------------------------------------------------------------------------------
# A second stand-in, one layer lower: the REAL treadmill.admin._ldap.Admin over REAL ldap3 connections whose
# strategy is ldap3's own in-memory mock directory (MOCK_SYNC).  Everything of Admin (add / delete / modify /
# search / paged_search with the lazy generator, the result bookkeeping of the connection objects,
# _test_raise_exceptions) is the repository's and the library's code; like _connect_to_uri the connections do
# not raise on a refused operation (raise_exceptions is left off).  With `separate_write` the write server has
# its own connection object (write_uri deployments); both see the same directory.
class MockDirectoryAdmin(_ldap.Admin):
    def __init__(self, suffix='dc=vf,dc=test', separate_write=False):
        super().__init__(None, suffix)
        self.server = ldap3.Server('vf-mock')

        def conn():
            c = ldap3.Connection(self.server, client_strategy=ldap3.MOCK_SYNC, auto_encode=True, auto_escape=True,
                                 return_empty_attributes=False)
            c.bind()
            # ldap3's mock returns an attribute only when its full description was asked for; a directory returns
            # the subtypes too (RFC 4511 4.5.1.8: 'trait' selects 'trait;tm-limit-3' as well), which the product's
            # option-tagged attributes (partition limits, ...) rely on
            inner = c.strategy._execute_search          # pylint: disable=protected-access

            def execute_search(request, inner=inner, c=c):
                asked = {a.lower() for a in request['attributes']}
                extra = set()
                for entry in c.server.dit.values():
                    for name in entry:
                        if ';' in name and name.split(';')[0].lower() in asked and name.lower() not in asked:
                            extra.add(name)
                request['attributes'] = list(request['attributes']) + sorted(extra)
                return inner(request)
            c.strategy._execute_search = execute_search          # pylint: disable=protected-access
            return c
        self.ldap = conn()
        self.write_ldap = conn() if separate_write else self.ldap
        self.init()

    def connect(self):
        pass

    @property
    def store(self):
        """Snapshot of the directory (for before/after comparisons)."""
        return {dn: {k: [bytes(x) if isinstance(x, (bytes, bytearray)) else x for x in v] for k, v in entry.items()}
                for dn, entry in self.server.dit.items()}


def make_mock_backend(separate_write=False):
    be = ldapbackend.AdminLdapBackend(None, 'dc=vf,dc=test')
    be._ldap_conn = MockDirectoryAdmin(separate_write=separate_write)       # pylint: disable=protected-access
    return be
