"""In-memory ZooKeeper with a kazoo-compatible client (DESIGN 1.2).

Trusted base for C09-C12, C15, C17, C18, C20.  Exposes exactly the kazoo
surface the repository uses; stats are real kazoo ZnodeStat tuples, errors the
real kazoo.exceptions classes, DataWatch / ChildrenWatch are kazoo's own
recipes running on top of this client's one-shot watches.

Extras: write log, deep snapshots, crash switch, before-write hook (used to
fork at every mutation), explicit watch delivery, yield hook per operation,
session expiry."""
import copy
import threading
import time

import kazoo.exceptions as kx
from kazoo.protocol.states import (EventType, KazooState, KeeperState,
                                   WatchedEvent, ZnodeStat)
from kazoo.recipe import watchers as _watchers
from kazoo.retry import KazooRetry


class Crash(BaseException):
    """The process owning this client died (not an Exception on purpose)."""


class _Node:
    __slots__ = ('data', 'acl', 'owner', 'czxid', 'mzxid', 'pzxid', 'ctime',
                 'mtime', 'version', 'cversion', 'aversion', 'children', 'seq')

    def __init__(self, data, acl, owner, zxid, now):
        self.data = data
        self.acl = acl
        self.owner = owner
        self.czxid = self.mzxid = self.pzxid = zxid
        self.ctime = self.mtime = now
        self.version = self.cversion = self.aversion = 0
        self.children = set()
        self.seq = 0

    def stat(self):
        return ZnodeStat(self.czxid, self.mzxid, self.ctime, self.mtime,
                         self.version, self.cversion, self.aversion, self.owner,
                         len(self.data), len(self.children), self.pzxid)


def _parent(path):
    if path == '/':
        return None
    p = path.rsplit('/', 1)[0]
    return p or '/'


def _norm(path):
    if not path.startswith('/'):
        path = '/' + path
    if len(path) > 1 and path.endswith('/'):
        path = path.rstrip('/') or '/'
    return path


class ZkServer:
    def __init__(self, clock=None):
        self.clock = clock or time.time
        self.zxid = 0
        self.nodes = {'/': _Node(b'', None, 0, 0, self._now())}
        self.sessions = {}          # id -> alive
        self.next_session = 0x1000
        self.data_watches = {}      # path -> [(client, cb)]
        self.child_watches = {}
        self.log = []
        self.sync_delivery = True
        self.lock_cond = threading.Condition()
        self.lock_holders = {}      # election path -> session id
        self.lock_waiters = {}
        self.pending = []           # queued (cb, event)
        self.before_write = None    # hook(client, op, path)
        self.on_op = None           # yield hook(client, op, path)
        self.after_op = None        # hook(client, op, path) run after a delete was applied
        self.lock = threading.RLock()
        self.keep_log = True
        # order in which clients see children: 'sorted', or 'hash' (a real server returns them in no
        # particular order; deterministic pseudo-random order here)
        self.child_order = 'sorted'
        self.order_salt = ''

    def _listing(self, names):
        if self.child_order == 'hash':
            import hashlib
            return sorted(names, key=lambda n: hashlib.md5((self.order_salt + n).encode()).hexdigest())
        return sorted(names)

    def _now(self):
        return int(self.clock() * 1000)

    # -- sessions ---------------------------------------------------------
    def client(self, name=None):
        with self.lock:
            self.next_session += 1
            sid = self.next_session
            self.sessions[sid] = True
        return ZkFakeClient(self, sid, name or ('c%x' % sid))

    def expire(self, sid):
        """Session expiry: ephemerals vanish, watches fire, client is dead."""
        with self.lock:
            if not self.sessions.get(sid):
                return
            self.sessions[sid] = False
            gone = sorted((p for p, n in self.nodes.items() if n.owner == sid),
                          key=len, reverse=True)
            for p in gone:
                self._delete_node(p, None, 'expire')
        self.deliver()

    # -- mutation primitives (lock held) ------------------------------------
    def _fire(self, table, path, etype):
        watchers = table.pop(path, [])
        for client, cb in watchers:
            if not self.sessions.get(client.sid):
                continue
            ev = WatchedEvent(etype, KeeperState.CONNECTED, path)
            self.pending.append((cb, ev))

    def _delete_node(self, path, client, op):
        node = self.nodes.pop(path)
        self.zxid += 1
        par = _parent(path)
        if par is not None and par in self.nodes:
            pn = self.nodes[par]
            pn.children.discard(path.rsplit('/', 1)[1])
            pn.cversion += 1
            pn.seq += 1
            pn.pzxid = self.zxid
        if self.keep_log:
            self.log.append((self.zxid, client.sid if client else 0, op, path, None))
        self._fire(self.data_watches, path, EventType.DELETED)
        self._fire(self.child_watches, path, EventType.DELETED)
        if par is not None:
            self._fire(self.child_watches, par, EventType.CHILD)
        return node

    def deliver(self, limit=None):
        """Deliver queued watch events (synchronously, in order)."""
        n = 0
        while self.pending and (limit is None or n < limit):
            cb, ev = self.pending.pop(0)
            n += 1
            cb(ev)
        return n

    # -- helpers for harnesses ----------------------------------------------
    def snapshot(self):
        with self.lock:
            return (copy.deepcopy(self.nodes), self.zxid)

    def restore(self, snap):
        with self.lock:
            self.nodes = copy.deepcopy(snap[0])
            self.zxid = snap[1]
            self.data_watches.clear()
            self.child_watches.clear()
            self.pending = []

    def dump(self, root='/'):
        """{path: (data, stat)} under root."""
        root = _norm(root)
        pre = root if root.endswith('/') else root + '/'
        with self.lock:
            return {p: (n.data, n.stat()) for p, n in self.nodes.items()
                    if p == root or p.startswith(pre)}

    def children(self, path):
        n = self.nodes.get(_norm(path))
        return sorted(n.children) if n else []

    def set_ctime(self, path, when_ms):
        self.nodes[_norm(path)].ctime = int(when_ms)


class _Handler:
    """What kazoo recipes and treadmill need from client.handler."""
    sleep_func = staticmethod(lambda _t: None)

    def event_object(self):
        return threading.Event()

    def lock_object(self):
        return threading.Lock()

    def rlock_object(self):
        return threading.RLock()

    def spawn(self, func, *a, **kw):
        t = threading.Thread(target=func, args=a, kwargs=kw, daemon=True)
        t.start()
        return t


def _borrow(name):
    from treadmill import zkutils
    return getattr(zkutils.ZkClient, name)


class ZkFakeClient:
    """kazoo-compatible client bound to one session of a ZkServer."""

    def __init__(self, server, sid, name):
        self.server = server
        self.sid = sid
        self.name = name
        self.handler = _Handler()
        self.dead = False
        self.writes = 0
        self.crash_at = None        # k: the k-th mutating call raises Crash
        self.listeners = []
        self.chroot = ''
        self.state = KazooState.CONNECTED
        self.DataWatch = lambda path, func=None, *a, **kw: _watchers.DataWatch(self, path, func, *a, **kw)
        self.ChildrenWatch = lambda path, func=None, *a, **kw: _watchers.ChildrenWatch(self, path, func, *a, **kw)

    # treadmill's ACL helpers (borrowed unbound from zkutils.ZkClient)
    def __getattr__(self, name):
        if name.startswith('make_') and name.endswith('_acl'):
            return _borrow(name).__get__(self, type(self))
        raise AttributeError(name)

    @property
    def client_id(self):
        return (self.sid, b'pw')

    @property
    def connected(self):
        return not self.dead and self.server.sessions.get(self.sid, False)

    def start(self, timeout=None):
        return None

    def stop(self):
        return None

    def close(self):
        return None

    def restart(self):
        return None

    def flap(self):
        """The connection drops and comes back within the session timeout: listeners see
        SUSPENDED, then CONNECTED; the session, its ephemeral nodes and its watches survive.
        Work the listeners spawn (kazoo watch recipes re-read their node) is joined before
        returning, so the caller stays deterministic."""
        spawned = []
        orig = self.handler.spawn

        def spawn(func, *a, **kw):
            t = orig(func, *a, **kw)
            spawned.append(t)
            return t
        self.handler.spawn = spawn
        try:
            for st in (KazooState.SUSPENDED, KazooState.CONNECTED):
                self.state = st
                for listener in list(self.listeners):
                    listener(st)
        finally:
            self.handler.spawn = orig
        for t in spawned:
            t.join()
        self.server.deliver()

    def add_listener(self, listener):
        self.listeners.append(listener)

    def remove_listener(self, listener):
        if listener in self.listeners:
            self.listeners.remove(listener)

    def retry(self, func, *a, **kw):
        return func(*a, **kw)

    # -- gatekeeping ----------------------------------------------------------
    def _enter(self, op, path, write):
        srv = self.server
        if srv.on_op is not None:
            srv.on_op(self, op, path)
        if self.dead:
            raise Crash('client %s is dead' % self.name)
        if not srv.sessions.get(self.sid):
            raise kx.SessionExpiredError()
        if write:
            self.writes += 1
            if self.crash_at is not None and self.writes >= self.crash_at:
                self.dead = True
                raise Crash('client %s crashed at write %d (%s %s)' % (self.name, self.writes, op, path))
            if srv.before_write is not None:
                srv.before_write(self, op, path)

    def _after(self):
        if self.server.sync_delivery:
            self.server.deliver()

    # -- operations -------------------------------------------------------------
    def create(self, path, value=b'', acl=None, ephemeral=False, sequence=False,
               makepath=False, include_data=False):
        path = _norm(path)
        if value is None or value == '':
            value = b''
        if isinstance(value, str):
            value = value.encode()
        self._enter('create', path, True)
        srv = self.server
        with srv.lock:
            par = _parent(path)
            if par is None:
                raise kx.NodeExistsError()
            if par not in srv.nodes:
                if not makepath:
                    raise kx.NoNodeError()
                self._makepath(par, acl)
            pn = srv.nodes[par]
            if pn.owner:
                raise kx.NoChildrenForEphemeralsError()
            if sequence:
                path = '%s%010d' % (path, pn.seq)
            if path in srv.nodes:
                raise kx.NodeExistsError()
            srv.zxid += 1
            node = _Node(value, acl, self.sid if ephemeral else 0, srv.zxid, srv._now())
            srv.nodes[path] = node
            pn.children.add(path.rsplit('/', 1)[1])
            pn.cversion += 1
            pn.seq += 1
            pn.pzxid = srv.zxid
            if srv.keep_log:
                srv.log.append((srv.zxid, self.sid, 'create', path, value))
            srv._fire(srv.data_watches, path, EventType.CREATED)
            srv._fire(srv.child_watches, par, EventType.CHILD)
        self._after()
        if include_data:
            return path, node.stat()
        return path

    def _makepath(self, path, acl):
        srv = self.server
        if path in srv.nodes:
            return
        par = _parent(path)
        self._makepath(par, acl)
        srv.zxid += 1
        srv.nodes[path] = _Node(b'', acl, 0, srv.zxid, srv._now())
        pn = srv.nodes[par]
        pn.children.add(path.rsplit('/', 1)[1])
        pn.cversion += 1
        pn.seq += 1
        pn.pzxid = srv.zxid
        if srv.keep_log:
            srv.log.append((srv.zxid, self.sid, 'create', path, b''))
        srv._fire(srv.data_watches, path, EventType.CREATED)
        srv._fire(srv.child_watches, par, EventType.CHILD)

    def ensure_path(self, path, acl=None):
        path = _norm(path)
        self._enter('ensure_path', path, True)
        with self.server.lock:
            self._makepath(path, acl)
        self._after()
        return True

    def _watch(self, table, path, watch):
        if watch:          # (kazoo registers nothing for a falsy watch, e.g. the {} that zkutils.get_default passes on)
            lst = table.setdefault(path, [])
            if not any(cb is watch for _c, cb in lst):
                lst.append((self, watch))

    def get(self, path, watch=None):
        path = _norm(path)
        self._enter('get', path, False)
        srv = self.server
        with srv.lock:
            node = srv.nodes.get(path)
            if node is None:
                raise kx.NoNodeError()
            self._watch(srv.data_watches, path, watch)
            return node.data, node.stat()

    def exists(self, path, watch=None):
        path = _norm(path)
        self._enter('exists', path, False)
        srv = self.server
        with srv.lock:
            node = srv.nodes.get(path)
            self._watch(srv.data_watches, path, watch)
            return node.stat() if node is not None else None

    def get_children(self, path, watch=None, include_data=False):
        path = _norm(path)
        self._enter('get_children', path, False)
        srv = self.server
        with srv.lock:
            node = srv.nodes.get(path)
            if node is None:
                raise kx.NoNodeError()
            self._watch(srv.child_watches, path, watch)
            kids = srv._listing(node.children)
            if include_data:
                return kids, node.stat()
            return kids

    def set(self, path, value, version=-1):
        path = _norm(path)
        if isinstance(value, str):
            value = value.encode()
        self._enter('set', path, True)
        srv = self.server
        with srv.lock:
            node = srv.nodes.get(path)
            if node is None:
                raise kx.NoNodeError()
            if version != -1 and version != node.version:
                raise kx.BadVersionError()
            srv.zxid += 1
            node.data = value
            node.version += 1
            node.mzxid = srv.zxid
            node.mtime = srv._now()
            if srv.keep_log:
                srv.log.append((srv.zxid, self.sid, 'set', path, value))
            srv._fire(srv.data_watches, path, EventType.CHANGED)
            st = node.stat()
        self._after()
        return st

    def get_acls(self, path):
        path = _norm(path)
        self._enter('get_acls', path, False)
        node = self.server.nodes.get(path)
        if node is None:
            raise kx.NoNodeError()
        return node.acl, node.stat()

    def set_acls(self, path, acls, version=-1):
        path = _norm(path)
        self._enter('set_acls', path, True)
        srv = self.server
        with srv.lock:
            node = srv.nodes.get(path)
            if node is None:
                raise kx.NoNodeError()
            node.acl = acls
            node.aversion += 1
            if srv.keep_log:
                srv.log.append((srv.zxid, self.sid, 'set_acls', path, None))
            return node.stat()

    def delete(self, path, version=-1, recursive=False):
        path = _norm(path)
        self._enter('delete', path, True)
        srv = self.server
        with srv.lock:
            node = srv.nodes.get(path)
            if node is None:
                raise kx.NoNodeError()
            if recursive:
                for ch in sorted(node.children):
                    self._delete_rec(path.rstrip('/') + '/' + ch)
            elif node.children:
                raise kx.NotEmptyError()
            if version != -1 and version != node.version:
                raise kx.BadVersionError()
            srv._delete_node(path, self, 'delete')
        self._after()
        if srv.after_op is not None:
            srv.after_op(self, 'delete', path)      # e.g. the reply is lost: the caller sees a ConnectionLoss
        return True

    def _delete_rec(self, path):
        srv = self.server
        node = srv.nodes.get(path)
        if node is None:
            return
        for ch in sorted(node.children):
            self._delete_rec(path + '/' + ch)
        srv._delete_node(path, self, 'delete')

    def sync(self, path):
        return None

    def Lock(self, path, identifier=None):   # pylint: disable=invalid-name
        return _ElectionLock(self, path)


class _ElectionLock:
    """What treadmill uses kazoo's Lock recipe for (leader election): one holder per path among the
    live sessions; a contender blocks until the holder leaves or its session ends.  Re-entrant for the
    holder's session.  ZkServer.lock_waiting(path) tells a harness that somebody is queued."""

    def __init__(self, client, path):
        self.client, self.path = client, path

    def acquire(self, blocking=True, timeout=None):      # pylint: disable=unused-argument
        srv = self.client.server
        with srv.lock_cond:
            while True:
                holder = srv.lock_holders.get(self.path)
                if holder is None or holder == self.client.sid or not srv.sessions.get(holder):
                    srv.lock_holders[self.path] = self.client.sid
                    return True
                if not blocking:
                    return False
                srv.lock_waiters[self.path] = srv.lock_waiters.get(self.path, 0) + 1
                srv.lock_cond.notify_all()
                try:
                    srv.lock_cond.wait(0.05)
                finally:
                    srv.lock_waiters[self.path] -= 1

    def release(self):
        srv = self.client.server
        with srv.lock_cond:
            if srv.lock_holders.get(self.path) == self.client.sid:
                del srv.lock_holders[self.path]
            srv.lock_cond.notify_all()

    def __enter__(self):
        self.acquire()
        return self

    def __exit__(self, *exc):
        self.release()


def selftest():
    """Conformance unit of the fake (run by setup_cmd)."""
    srv = ZkServer()
    a, b = srv.client('a'), srv.client('b')
    assert a.create('/x', b'1') == '/x'
    try:
        a.create('/x', b'1')
        raise AssertionError('NodeExists expected')
    except kx.NodeExistsError:
        pass
    try:
        a.create('/p/q', b'')
        raise AssertionError('NoNode expected')
    except kx.NoNodeError:
        pass
    a.create('/p/q', b'', makepath=True)
    try:
        a.delete('/p')
        raise AssertionError('NotEmpty expected')
    except kx.NotEmptyError:
        pass
    e = a.create('/e', b'', ephemeral=True)
    assert a.exists(e).owner_session_id == a.sid
    try:
        a.create('/e/c', b'')
        raise AssertionError('NoChildrenForEphemerals expected')
    except kx.NoChildrenForEphemeralsError:
        pass
    s1 = a.create('/p/s-', b'', sequence=True)
    s2 = a.create('/p/s-', b'', sequence=True)
    assert s1 < s2 and len(s1) == len('/p/s-') + 10
    st = a.set('/x', b'2')
    assert st.version == 1
    try:
        a.set('/x', b'3', version=0)
        raise AssertionError('BadVersion expected')
    except kx.BadVersionError:
        pass
    fired = []
    b.get('/x', watch=fired.append)
    a.set('/x', b'4')
    a.set('/x', b'5')
    assert len(fired) == 1 and fired[0].type == EventType.CHANGED   # one-shot
    seen = []
    b.DataWatch('/e', lambda data, stat: seen.append(data))
    kids = []
    b.ChildrenWatch('/p', lambda ch: kids.append(list(ch)))
    a.create('/p/z', b'')
    assert kids[-1][-1] == 'z'
    srv.expire(a.sid)
    assert b.exists('/e') is None and seen[-1] is None
    try:
        a.get('/x')
        raise AssertionError('SessionExpired expected')
    except kx.SessionExpiredError:
        pass
    c = srv.client('c')
    c.crash_at = 2
    c.create('/c1', b'')
    try:
        c.create('/c2', b'')
        raise AssertionError('Crash expected')
    except Crash:
        pass
    assert b.exists('/c2') is None
    try:
        c.exists('/c1')
        raise AssertionError('dead client must not operate')
    except Crash:
        pass
    return True
