"""Reference model of an ownership table, written from the property statement
(not from the repository code), and the harness-side reader of a directory."""
import os


class Ref:
    """entry -> owner.  An entry has at most one owner; only the owner releases
    it; collection removes exactly the entries whose owner is not alive."""

    def __init__(self, tab=None):
        self.tab = dict(tab or {})

    def create(self, entry, owner):
        """Bind a free entry; a held entry stays.  True iff `owner` holds it."""
        return self.tab.setdefault(entry, owner) == owner

    def release(self, entry, owner):
        if self.tab.get(entry) == owner:
            del self.tab[entry]

    def collect(self, alive):
        for entry in [e for e, o in self.tab.items() if o not in alive]:
            del self.tab[entry]

    def free_of(self, universe):
        return [e for e in universe if e not in self.tab]


FILE = '<file>'     # a directory entry that is not a symlink (foreign to the database)


def listing(path):
    """{name: owner} of a database directory, read by the harness with the
    real os: owner = basename of the link target, FILE for non-links."""
    out = {}
    for name in os.listdir(path):
        full = os.path.join(path, name)
        try:
            out[name] = os.path.basename(os.readlink(full))
        except OSError:
            out[name] = FILE
    return out
