"""Minimal stand-alone reproduction (no harness code) of the two C14 findings on the unchanged tree:
   /venv/bin/python /verif/vf/owndb/repro.py
A: garbage_collect() removes the entry of a live owner (stat -> unlink window).
B: a release removes another owner's entry (readlink -> unlink window; the releasing owner's path is gone)."""
import os, sys, tempfile, shutil, types
sys.path.insert(0, os.environ.get('VERIF_REPO', '/repo') + '/lib/python')
from treadmill import rulefile, firewall

class Os:                       # forwards to os; runs a callback at one boundary
    def __init__(self): self.hook = {}
    def __getattr__(self, n): return getattr(os, n)
    def stat(self, p, *a, **k):
        try: return os.stat(p, *a, **k)
        finally:
            h = self.hook.pop('after-stat', None)
            if h: h()
    def listdir(self, p):
        r = os.listdir(p)
        h = self.hook.pop('after-listdir', None)
        if h: h()
        return r
    def readlink(self, p):
        r = os.readlink(p)
        h = self.hook.pop('after-readlink', None)
        if h: h()
        return r
rulefile.os = px = Os()
root = tempfile.mkdtemp()
try:
    for d in ('rules', 'apps/A', 'apps/B'): os.makedirs(os.path.join(root, d))
    me = rulefile.RuleMgr(root + '/rules', root + '/apps')      # "process" under observation
    other = rulefile.RuleMgr(root + '/rules', root + '/apps')   # the other processes
    R = ('TM_PASSTHROUGH', firewall.PassThroughRule('10.1.2.3', '192.168.0.2'))
    # --- A: garbage_collect removes the entry of a live owner
    other.create_rule(*R, owner='A')
    px.hook['after-listdir'] = lambda: other.unlink_rule(*R, owner='A')      # A releases after GC listed the dir
    px.hook['after-stat'] = lambda: other.create_rule(*R, owner='B')         # B creates after GC's stat said ENOENT
    me.garbage_collect()
    print('A: apps/B exists:', os.path.isdir(root + '/apps/B'), '| rules/ after GC:', os.listdir(root + '/rules'),
          '(B created the rule successfully and never released it)')
    # --- B: release removes another owner's entry
    other.create_rule(*R, owner='A')
    def steal():
        os.rmdir(root + '/apps/A'); other.garbage_collect(); other.create_rule(*R, owner='B')
    px.hook['after-readlink'] = steal
    me.unlink_rule(*R, owner='A')
    print('B: rules/ after unlink_rule by A:', os.listdir(root + '/rules'), '(B created it successfully and never released it)')
finally:
    shutil.rmtree(root)
