"""Kernel boundary of the network service, as a small state model.

What is replaced (all harness side, restored after each case):
  treadmill.subproc.check_call / invoke   -> `ip link|addr`, `brctl`, `ipset` interpreted on the model
  treadmill.netdev._SYSFS_NET             -> a temp directory the model keeps in step with its links
                                             (netdev's own readers of mtu / ifalias / operstate / brif run for real)
  treadmill.netdev._proc_sys_write        -> recorded
The model is durable across service restarts (it is the kernel), can refuse
like the tools do (unknown device, device exists: CalledProcessError) and can
kill the calling service at its k-th call (Crash, a BaseException).
"""
import os
import shutil


class Crash(BaseException):
    """The service process dies here."""


class HarnessBug(BaseException):
    """A command the model does not know: fix the harness, never a verdict."""


class Kernel:
    def __init__(self, root):
        self.sysnet = os.path.join(root, 'sys-class-net')
        os.makedirs(self.sysnet)
        self.links = {}
        self.sets = {}
        self.proc = {}
        self.calls = 0
        self.crash_at = None
        self.fail_at = None
        self.errors = 0
        self.mac = 0
        self._saved = None

    # -- installation -----------------------------------------------------
    def install(self):
        from treadmill import subproc, netdev
        self.CalledProcessError = subproc.CalledProcessError
        self._saved = (subproc.check_call, subproc.invoke, netdev._SYSFS_NET, netdev._proc_sys_write)
        subproc.check_call = self.check_call
        subproc.invoke = self.invoke
        netdev._SYSFS_NET = self.sysnet
        netdev._proc_sys_write = self.proc_sys_write

    def uninstall(self):
        from treadmill import subproc, netdev
        if self._saved:
            subproc.check_call, subproc.invoke, netdev._SYSFS_NET, netdev._proc_sys_write = self._saved
            self._saved = None

    # -- sysfs mirror -----------------------------------------------------
    ATTRS = (('mtu', 'mtu'), ('ifalias', 'alias'), ('operstate', 'state'), ('address', 'addr'))

    def _sync(self, name, only=None):
        """Bring the sysfs mirror of one link in step (file creation is the slow part: write what changed)."""
        path = os.path.join(self.sysnet, name)
        link = self.links.get(name)
        if link is None:
            shutil.rmtree(path, ignore_errors=True)
            return
        fresh = not os.path.isdir(path)
        if fresh:
            os.makedirs(path)
            with open(os.path.join(path, 'speed'), 'w') as f:
                f.write('10000\n')
        for attr, key in self.ATTRS:
            if fresh or only is None or key in only:
                with open(os.path.join(path, attr), 'w') as f:
                    f.write('%s\n' % link[key])
        if link['type'] == 'bridge' and (fresh or only is None or 'brif' in only):
            brif = os.path.join(path, 'brif')
            os.makedirs(brif, exist_ok=True)
            have = set(os.listdir(brif))
            want = {n for n, l in self.links.items() if l.get('master') == name}
            for n in have - want:
                os.unlink(os.path.join(brif, n))
            for n in want - have:
                with open(os.path.join(brif, n), 'w'):
                    pass

    def _new_link(self, name, typ, peer=None):
        self.mac += 1
        self.links[name] = dict(type=typ, mtu=1500, alias='', state='down', peer=peer, master=None,
                                addr='02:00:00:00:%02x:%02x' % (self.mac >> 8, self.mac & 255), addrs=[])
        self._sync(name)

    def _del_link(self, name):
        link = self.links.pop(name)
        master = link.get('master')
        for n, l in self.links.items():
            if l.get('master') == name:
                l['master'] = None
        self._sync(name)
        if master in self.links:
            self._sync(master, only=('brif',))

    # -- the boundary -----------------------------------------------------
    def _tick(self, cmd):
        self.calls += 1
        if self.crash_at is not None and self.calls == self.crash_at:
            self.crash_at = None
            raise Crash(' '.join(cmd))
        if self.fail_at is not None and self.calls == self.fail_at and cmd[0] in ('ip', 'brctl'):
            # a transient failure of the command itself (out of memory, netlink busy): nothing was changed
            self.fail_at = None
            self.transient_failures = getattr(self, 'transient_failures', 0) + 1
            self._fail(cmd, 2, 'RTNETLINK answers: Cannot allocate memory (injected)')

    def _fail(self, cmd, rc=1, out=''):
        self.errors += 1
        raise self.CalledProcessError(returncode=rc, cmd=list(cmd), output=out)

    def proc_sys_write(self, path, value):
        self._tick(['sysctl', path])
        self.proc[path] = value

    def check_call(self, cmdline, environ=(), runas=None, **kwargs):
        cmd = [str(c) for c in cmdline]
        self._tick(cmd)
        if cmd[0] == 'ip':
            return self._ip(cmd)
        if cmd[0] == 'brctl':
            return self._brctl(cmd)
        raise HarnessBug('unknown command %r' % (cmd,))

    def _ip(self, cmd):
        L = self.links
        if cmd[1:4] == ['link', 'set', 'dev']:
            dev, what = cmd[4], cmd[5]
            if dev not in L:
                self._fail(cmd, 1, 'Cannot find device "%s"' % dev)
            if what in ('up', 'down'):
                L[dev]['state'] = what
                self._sync(dev, only=('state',))
            elif what == 'alias':
                L[dev]['alias'] = cmd[6]
                self._sync(dev, only=('alias',))
            elif what == 'mtu':
                L[dev]['mtu'] = int(cmd[6])
                self._sync(dev, only=('mtu',))
            elif what == 'address':
                L[dev]['addr'] = cmd[6]
                self._sync(dev, only=('addr',))
            elif what == 'netns':
                self._del_link_only(dev)
            else:
                raise HarnessBug(cmd)
            return 0
        if cmd[1:4] == ['link', 'add', 'name']:
            a, b = cmd[4], cmd[9]
            if cmd[5:9] != ['type', 'veth', 'peer', 'name']:
                raise HarnessBug(cmd)
            if a in L or b in L:
                self._fail(cmd, 2, 'RTNETLINK answers: File exists')
            self._new_link(a, 'veth', peer=b)
            self._new_link(b, 'veth', peer=a)
            return 0
        if cmd[1:4] == ['link', 'delete', 'dev']:
            dev = cmd[4]
            if dev not in L:
                self._fail(cmd, 1, 'Cannot find device "%s"' % dev)
            peer = L[dev].get('peer')
            self._del_link(dev)
            if peer in L:
                self._del_link(peer)
            return 0
        if cmd[1:3] == ['addr', 'add']:
            dev = cmd[cmd.index('dev') + 1]
            if dev not in L:
                self._fail(cmd, 1, 'Cannot find device "%s"' % dev)
            if cmd[3] in L[dev]['addrs']:
                self._fail(cmd, 2, 'RTNETLINK answers: File exists')
            L[dev]['addrs'].append(cmd[3])
            return 0
        raise HarnessBug(cmd)

    def _del_link_only(self, dev):
        # moved to another namespace: gone from this one, the peer stays
        link = self.links.pop(dev)
        self._sync(dev)
        if link.get('master') in self.links:
            self._sync(link['master'], only=('brif',))

    def _brctl(self, cmd):
        L = self.links
        act = cmd[1]
        if act == 'addbr':
            if cmd[2] in L:
                self._fail(cmd, 1, 'device %s already exists' % cmd[2])
            self._new_link(cmd[2], 'bridge')
            return 0
        br = L.get(cmd[2])
        if br is None or br['type'] != 'bridge':
            self._fail(cmd, 1, 'bridge %s does not exist' % cmd[2])
        if act == 'delbr':
            if br['state'] == 'up':
                self._fail(cmd, 1, 'bridge %s is still up' % cmd[2])
            self._del_link(cmd[2])
        elif act == 'setfd':
            br['fd'] = cmd[3]
        elif act == 'addif':
            dev = L.get(cmd[3])
            if dev is None:
                self._fail(cmd, 1, 'interface %s does not exist' % cmd[3])
            if dev.get('master'):
                self._fail(cmd, 1, 'device %s is already a member of a bridge' % cmd[3])
            dev['master'] = cmd[2]
            self._sync(cmd[2], only=('brif',))
        elif act == 'delif':
            dev = L.get(cmd[3])
            if dev is None or dev.get('master') != cmd[2]:
                self._fail(cmd, 1, 'device %s is not a slave of %s' % (cmd[3], cmd[2]))
            dev['master'] = None
            self._sync(cmd[2], only=('brif',))
        else:
            raise HarnessBug(cmd)
        return 0

    def invoke(self, cmd, cmd_input=None, use_except=False, **environ):
        cmd = [str(c) for c in cmd]
        self._tick(cmd)
        if cmd[0] != 'ipset':
            raise HarnessBug('unknown command %r' % (cmd,))
        rc, out = self._ipset(cmd[1:], cmd_input)
        if rc != 0 and use_except:
            self._fail(cmd, rc, out)
        return (rc, out)

    def _ipset(self, args, cmd_input):
        S = self.sets
        exist = False
        if args and args[0] == '-exist':
            exist = True
            args = args[1:]
        act = args[0]
        if act == 'create':
            name, typ = args[1], args[2]
            if name in S:
                return (0, '') if exist else (1, 'set with the same name already exists')
            S[name] = dict(type=typ, members=set())
            return 0, ''
        if act == 'restore':
            for line in (cmd_input or '').splitlines():
                line = line.strip()
                if not line:
                    continue
                rc, out = self._ipset((['-exist'] if exist else []) + line.split(), None)
                if rc != 0:
                    return rc, out
            return 0, ''
        if act == 'list':
            return 0, '\n'.join(sorted(S)) + '\n'
        if act == 'swap':
            a, b = args[1], args[2]
            if a not in S or b not in S:
                return 1, 'The set with the given name does not exist'
            if S[a]['type'] != S[b]['type']:
                return 1, 'The sets cannot be swapped: their type does not match'
            S[a], S[b] = S[b], S[a]
            return 0, ''
        name = args[1]
        if name not in S:
            return 1, 'The set with the given name does not exist'
        if act == 'destroy':
            del S[name]
        elif act == 'flush':
            S[name]['members'].clear()
        elif act == 'add':
            if args[2] in S[name]['members'] and not exist:
                return 1, "Element cannot be added to the set: it's already added"
            S[name]['members'].add(args[2])
        elif act == 'del':
            if args[2] not in S[name]['members'] and not exist:
                return 1, "Element cannot be deleted from the set: it's not added"
            S[name]['members'].discard(args[2])
        elif act == 'test':
            if args[2] in S[name]['members']:
                return 0, '%s is in set %s.' % (args[2], name)
            return 1, '%s is NOT in set %s.' % (args[2], name)
        else:
            raise HarnessBug(args)
        return 0, ''
