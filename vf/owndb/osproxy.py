"""A stand-in for the `os` global of a repository module (harness side).

`treadmill.vipfile`, `treadmill.rulefile` and `treadmill.endpoints` reach the
filesystem through the module global `os`.  The harness rebinds that global to
an `OsProxy`: every call is forwarded unchanged to the real `os` (signature
transparent), and the calls that make up the symlink databases (listdir, stat,
lstat, readlink, symlink, unlink, rename, replace) are reported to a sink
*before* and *after* they happen.  The sink is the monitor (it sees each single
link creation / removal, which is atomic in the kernel) and the failpoint
boundary (it may run operations of other actors right there, which is what a
concurrent process could do between two system calls of this one).

listdir() results are returned sorted and then permuted by the sink: POSIX
leaves the order unspecified, so any order is a legal answer of the boundary;
this keeps cases deterministic and makes the order part of the explored space.
"""
import glob as _real_glob
import os as _real_os

WATCHED = ('listdir', 'stat', 'lstat', 'readlink', 'symlink', 'unlink', 'rename', 'replace')


class Sink:
    """Default sink: observes nothing."""

    def before(self, call, args):
        pass

    def after(self, call, args, result, error):
        pass

    def order(self, path, names):
        return names


class OsProxy:
    def __init__(self, sink=None):
        self.__dict__['_sink'] = sink or Sink()

    def set_sink(self, sink):
        self.__dict__['_sink'] = sink or Sink()

    def __getattr__(self, name):            # everything else: the real os
        return getattr(_real_os, name)

    def _call(self, name, args, kwargs):
        sink = self.__dict__['_sink']
        sink.before(name, args)
        try:
            res = getattr(_real_os, name)(*args, **kwargs)
        except OSError as err:
            sink.after(name, args, None, err)
            raise
        sink.after(name, args, res, None)
        return res

    def listdir(self, *args, **kwargs):
        sink = self.__dict__['_sink']
        sink.before('listdir', args)
        try:
            res = sorted(_real_os.listdir(*args, **kwargs))
        except OSError as err:
            sink.after('listdir', args, None, err)
            raise
        res = list(sink.order(args[0] if args else '.', res))
        sink.after('listdir', args, res, None)
        return res

    def stat(self, *args, **kwargs):
        return self._call('stat', args, kwargs)

    def lstat(self, *args, **kwargs):
        return self._call('lstat', args, kwargs)

    def readlink(self, *args, **kwargs):
        return self._call('readlink', args, kwargs)

    def symlink(self, *args, **kwargs):
        return self._call('symlink', args, kwargs)

    def unlink(self, *args, **kwargs):
        return self._call('unlink', args, kwargs)

    def remove(self, *args, **kwargs):
        return self._call('unlink', args, kwargs)

    def rename(self, *args, **kwargs):
        return self._call('rename', args, kwargs)

    def replace(self, *args, **kwargs):
        return self._call('replace', args, kwargs)

    @property
    def path(self):
        return _PathProxy(self)


class _PathProxy:
    """os.path whose existence tests go through the proxied stat / lstat (so the boundary sees them, and an error the
    boundary answers with is swallowed exactly the way os.path.exists swallows it)."""

    def __init__(self, proxy):
        self._proxy = proxy

    def __getattr__(self, name):
        return getattr(_real_os.path, name)

    def exists(self, path):
        try:
            self._proxy.stat(path)
        except (OSError, ValueError):
            return False
        return True

    def lexists(self, path):
        try:
            self._proxy.lstat(path)
        except (OSError, ValueError):
            return False
        return True


class GlobProxy:
    """Stand-in for the `glob` global of treadmill.endpoints: same matches,
    sorted then permuted by the sink (glob order is unspecified as well)."""

    def __init__(self, proxy):
        self._proxy = proxy

    def __getattr__(self, name):
        return getattr(_real_glob, name)

    def glob(self, pattern, *args, **kwargs):
        res = sorted(_real_glob.glob(pattern, *args, **kwargs))
        sink = self._proxy.__dict__['_sink']
        base = _real_os.path.dirname(pattern)
        names = sink.order(base, [_real_os.path.basename(p) for p in res])
        return [_real_os.path.join(base, n) for n in names]


PROXY = OsProxy()
_saved = {}


def install():
    """Rebind the `os` (and `glob`) globals of the three anchored modules."""
    from treadmill import vipfile, rulefile, endpoints
    if _saved:
        return PROXY
    for mod in (vipfile, rulefile, endpoints):
        _saved[mod] = mod.os
        mod.os = PROXY
    _saved['glob'] = endpoints.glob
    endpoints.glob = GlobProxy(PROXY)
    return PROXY


def uninstall():
    from treadmill import endpoints
    PROXY.set_sink(None)
    if not _saved:
        return
    endpoints.glob = _saved.pop('glob')
    for mod, orig in list(_saved.items()):
        mod.os = orig
    _saved.clear()
