"""C14 helpers: ownership databases kept in symlinks (vips/, rules/, endpoints/).

osproxy   - stands in for the `os` global of vipfile / rulefile / endpoints:
            every listdir / stat / readlink / symlink / unlink / rename is an
            observed event and a failpoint boundary
model     - the reference model `entry -> owner` (written from the statement)
seqdb     - sequential + failpoint-interleaved histories on the three managers
kernel    - link / bridge / ipset state model behind subproc + a fake sysfs tree
netsvc    - NetworkResourceService histories (restarts, crashes) on the kernel model
contend   - real multi-process contention, merged (pid, op, entry, t_call, t_ret) history
"""
