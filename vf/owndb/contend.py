"""Real multi-process contention on one vips/ and one rules/ directory.

N forked processes (each a stream of short-lived owners) allocate / free IPs
through the real VipMgr and create / unlink the same few rules through the
real RuleMgr, released together by a pipe barrier; optionally one more process
loops garbage_collect() the whole time.  Every process logs
(op, owner, entry, t_call, t_ret, result) with CLOCK_MONOTONIC (system wide).

Checked on the merged history:
  * definite hold interval of (entry, owner) = [t_ret of the successful create,
    t_call of the owner's own release / of the removal of its owner path / of
    its final check]; two different owners never have overlapping definite
    hold intervals on one entry;
  * immediately before an owner releases an entry (and at its end) the link
    still names it (nobody else removed or took it) - all owners in a run are
    alive while they hold, so neither a foreign release nor the collector may
    touch their entries;
  * every allocated IP is a host address of the network;
  * after the last process is gone and a final collection ran, nothing is left.
"""
import ipaddress
import json
import os
import random
import shutil
import signal
import tempfile
import time

from . import model, osproxy

RULES = [
    ('TM_PREROUTING_DNAT', 'dnat', dict(proto='tcp', dst_ip='172.31.81.67', dst_port='5000', new_ip='192.168.0.2', new_port='80'),
     'TM_PREROUTING_DNAT:dnat:tcp:*:*:172.31.81.67:5000-192.168.0.2:80'),
    ('TM_POSTROUTING_SNAT', 'snat', dict(proto='tcp', src_ip='192.168.0.2', src_port='80', new_ip='172.31.81.67', new_port='5000'),
     'TM_POSTROUTING_SNAT:snat:tcp:192.168.0.2:80:*:*-172.31.81.67:5000'),
    ('TM_PASSTHROUGH', 'pass', dict(src_ip='10.1.2.3', dst_ip='192.168.0.2'),
     'TM_PASSTHROUGH:passthrough:10.1.2.3-192.168.0.2'),
    ('TM_PREROUTING_DNAT', 'dnat', dict(proto='udp', dst_ip='172.31.81.67', dst_port='5001', new_ip='192.168.0.3', new_port='8000'),
     'TM_PREROUTING_DNAT:dnat:udp:*:*:172.31.81.67:5001-192.168.0.3:8000'),
]


def plan(rng, tier):
    if tier == 'thorough':
        nproc, iters = rng.randint(8, 16), rng.randint(120, 320)
    else:
        nproc, iters = rng.randint(4, 7), rng.randint(40, 90)
    prefix = rng.choice([29, 28, 28, 27])
    size = 1 << (32 - prefix)
    base = (10 << 24) | (rng.randrange(256) << 16) | (rng.randrange(256) << 8) | (rng.randrange(256 // size) * size)
    return dict(nproc=nproc, iters=iters, prefix=prefix, base=base, nrules=rng.randint(1, len(RULES)),
                gc=rng.random() < 0.5, abandon=rng.choice([0.0, 0.3]),
                seeds=[rng.randrange(1 << 30) for _ in range(nproc)])


def _rule(firewall, spec):
    chain, typ, f, name = spec
    cls = {'dnat': firewall.DNATRule, 'snat': firewall.SNATRule, 'pass': firewall.PassThroughRule}[typ]
    return chain, cls(**f), name


def _worker(p, pl, root, hosts, cidr):
    from treadmill import vipfile, rulefile, firewall
    rng = random.Random(pl['seeds'][p])
    now = time.monotonic_ns
    vdir, rdir, odir = (os.path.join(root, d) for d in ('vips', 'rules', 'owners'))
    vm = vipfile.VipMgr(cidr, vdir, odir)
    rm = rulefile.RuleMgr(rdir, odir)
    rules = [_rule(firewall, s) for s in RULES[:pl['nrules']]]
    log = []
    gen = 0
    owner = None
    held = {}          # (db, entry) -> True

    def new_owner():
        nonlocal gen, owner
        gen += 1
        owner = 'w%02d-g%03d' % (p, gen)
        os.mkdir(os.path.join(odir, owner))

    def verify(db, entry):
        path = os.path.join(vdir if db == 'vip' else rdir, entry)
        t = now()
        try:
            who = os.path.basename(os.readlink(path))
        except OSError:
            who = None
        log.append(['verify', owner, db, entry, t, now(), who])

    def release(db, entry):
        verify(db, entry)
        t = now()
        if db == 'vip':
            vm.free(owner, entry)
        else:
            chain, rule, _ = next(r for r in rules if r[2] == entry)
            rm.unlink_rule(chain, rule, owner)
        log.append(['release', owner, db, entry, t, now(), None])
        del held[(db, entry)]

    def retire(abandon):
        for (db, entry) in list(held):
            if rng.random() < abandon:
                verify(db, entry)
                del held[(db, entry)]          # left behind for the collector
            else:
                release(db, entry)
        t = now()
        os.rmdir(os.path.join(odir, owner))
        log.append(['die', owner, None, None, t, now(), None])

    new_owner()
    for _ in range(pl['iters']):
        r = rng.random()
        if r < 0.30:
            t = now()
            try:
                ip = vm.alloc(owner)
            except Exception:       # noqa: exhausted
                ip = None
            log.append(['create', owner, 'vip', ip, t, now(), ip is not None])
            if ip is not None:
                held[('vip', ip)] = True
        elif r < 0.36:
            ip = rng.choice(hosts)
            t = now()
            try:
                vm.alloc(owner, picked_ip=ip)
                ok = True
            except Exception:       # noqa: taken
                ok = False
            log.append(['create', owner, 'vip', ip, t, now(), ok])
            if ok:
                held[('vip', ip)] = True
        elif r < 0.52:
            chain, rule, name = rng.choice(rules)
            t = now()
            try:
                rm.create_rule(chain, rule, owner)
                ok = True
            except OSError:
                ok = False
            log.append(['create', owner, 'rule', name, t, now(), ok])
            if ok:
                held[('rule', name)] = True
        elif r < 0.80:
            if held:
                db, entry = rng.choice(sorted(held))
                release(db, entry)
        elif r < 0.90:
            # release of something this owner does not hold
            if rng.random() < 0.6:
                entry = rng.choice(hosts)
                if ('vip', entry) not in held:
                    t = now()
                    vm.free(owner, entry)
                    log.append(['foreign-release', owner, 'vip', entry, t, now(), None])
            else:
                chain, rule, name = rng.choice(rules)
                if ('rule', name) not in held:
                    t = now()
                    rm.unlink_rule(chain, rule, owner)
                    log.append(['foreign-release', owner, 'rule', name, t, now(), None])
        else:
            retire(pl['abandon'])
            new_owner()
    retire(0.0)
    return log


def _collector(pl, root, cidr, stop_path):
    from treadmill import vipfile, rulefile
    vdir, rdir, odir = (os.path.join(root, d) for d in ('vips', 'rules', 'owners'))
    vm = vipfile.VipMgr(cidr, vdir, odir)
    rm = rulefile.RuleMgr(rdir, odir)
    n = 0
    while not os.path.exists(stop_path):
        vm.garbage_collect()
        rm.garbage_collect()
        n += 1
    return [['gc-passes', None, None, None, 0, 0, n]]


def run(ctx, rng, tier):
    pl = plan(rng, tier)
    size = 1 << (32 - pl['prefix'])
    addrs = [str(ipaddress.IPv4Address(pl['base'] + i)) for i in range(size)]
    cidr = '%s/%d' % (addrs[0], pl['prefix'])
    hosts = addrs[1:-1]
    root = tempfile.mkdtemp(prefix='vf-')
    tag = 'contention+gc' if pl['gc'] else 'contention'
    try:
        for d in ('vips', 'rules', 'owners'):
            os.mkdir(os.path.join(root, d))
        stop_path = os.path.join(root, 'stop')
        gate_r, gate_w = os.pipe()
        pids = []
        roles = list(range(pl['nproc'])) + (['gc'] if pl['gc'] else [])
        for role in roles:
            pid = os.fork()
            if pid == 0:
                try:
                    signal.alarm(120)                   # never outlives its budget
                    osproxy.uninstall()                 # the real os; no inherited observers
                    os.close(gate_w)
                    os.read(gate_r, 1)                  # barrier: EOF when the parent lets go
                    if role == 'gc':
                        out = _collector(pl, root, cidr, stop_path)
                    else:
                        out = _worker(role, pl, root, hosts, cidr)
                    with open(os.path.join(root, 'log-%s.json' % role), 'w') as f:
                        json.dump(out, f)
                except BaseException as err:    # noqa
                    with open(os.path.join(root, 'err-%s.txt' % role), 'w') as f:
                        import traceback
                        f.write(traceback.format_exc())
                finally:
                    os._exit(0)
            pids.append((role, pid))
        os.close(gate_r)
        os.close(gate_w)
        for role, pid in pids:
            if role != 'gc':
                os.waitpid(pid, 0)
        with open(stop_path, 'w'):
            pass
        for role, pid in pids:
            if role == 'gc':
                os.waitpid(pid, 0)
        events = []
        for role in roles:
            path = os.path.join(root, 'log-%s.json' % role)
            if not os.path.exists(path):
                err = os.path.join(root, 'err-%s.txt' % role)
                raise RuntimeError('contention child %s left no log: %s' % (
                    role, open(err).read()[-800:] if os.path.exists(err) else 'died'))
            with open(path) as f:
                events.extend(json.load(f))
        # final collection: every owner path is gone by now
        from treadmill import vipfile, rulefile
        vipfile.VipMgr(cidr, os.path.join(root, 'vips'), os.path.join(root, 'owners')).garbage_collect()
        rulefile.RuleMgr(os.path.join(root, 'rules'), os.path.join(root, 'owners')).garbage_collect()
        left = dict(model.listing(os.path.join(root, 'vips')))
        left.update(model.listing(os.path.join(root, 'rules')))
    finally:
        shutil.rmtree(root, ignore_errors=True)
    return evaluate(ctx, pl, tag, hosts, events, left)


def evaluate(ctx, pl, tag, hosts, events, left):
    """The history checker (pure function of the merged log)."""
    desc = {k: v for k, v in pl.items() if k != 'seeds'}
    holds = {}          # (db, entry) -> list of [owner, t_from, t_to]
    open_ = {}          # (owner, db, entry) -> t_from
    by_owner = {}
    stats = dict(creates=0, refused=0, releases=0, foreign=0, verifies=0, gc_passes=0)
    events.sort(key=lambda e: e[4])
    for op, owner, db, entry, t_call, t_ret, res in events:
        if op == 'gc-passes':
            stats['gc_passes'] += res
        elif op == 'create':
            if res:
                stats['creates'] += 1
                if db == 'vip' and entry not in hosts:
                    ctx.violation('allocated-ip-not-a-host-address:%s' % tag, '%s got %s' % (owner, entry), case=desc)
                open_[(owner, db, entry)] = t_ret
                by_owner.setdefault(owner, set()).add((db, entry))
            else:
                stats['refused'] += 1
        elif op == 'verify':
            stats['verifies'] += 1
            t_from = open_.pop((owner, db, entry), None)
            if t_from is not None:
                holds.setdefault((db, entry), []).append([owner, t_from, t_call])
            if res != owner:
                ctx.violation('live-owner-lost-entry:%s:%s' % (tag, db),
                              '%s held %s since its create returned and never released it; the link now names %r' % (
                                  owner, entry, res),
                              witness=dict(owner=owner, entry=entry, found=res), case=desc)
        elif op == 'release':
            stats['releases'] += 1
        elif op == 'foreign-release':
            stats['foreign'] += 1
    overlaps = 0
    contended = 0
    for (db, entry), ivs in holds.items():
        ivs.sort(key=lambda x: x[1])
        if len({o for o, _, _ in ivs}) > 1:
            contended += 1
        for a, b in zip(ivs, ivs[1:]):
            if b[1] < a[2] and a[0] != b[0]:
                overlaps += 1
                ctx.violation('double-hold:%s:%s' % (tag, db),
                              '%s held by %s during [%d, %d] and by %s from %d' % (entry, a[0], a[1], a[2], b[0], b[1]),
                              witness=dict(entry=entry, first=a, second=b), case=desc)
    if open_:
        raise RuntimeError('contention log: holds never closed %r' % sorted(open_)[:3])
    if left:
        ctx.violation('gc-left-dead-owner-entry:%s' % tag, 'after all owners are gone and a collection: %s' % left,
                      case=desc)
    ctx.count('contend_runs')
    ctx.count('contend_processes', pl['nproc'])
    ctx.count('contend_creates_ok', stats['creates'])
    ctx.count('contend_creates_refused', stats['refused'])
    ctx.count('contend_foreign_releases', stats['foreign'])
    ctx.count('contend_hold_intervals', sum(len(v) for v in holds.values()))
    ctx.count('contend_entries_held_by_several_owners', contended)
    if pl['gc']:
        ctx.count('contend_gc_passes', stats['gc_passes'])
    desc['history'] = stats
    return desc, bool(contended and stats['refused'] and stats['foreign'])
