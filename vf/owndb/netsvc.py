"""Histories on the real NetworkResourceService over the kernel model.

The driver plays the part of services.ResourceService (the caller of the
implementation): start-up is initialize(); on_create_request() for every
request that exists; synchronize().  While the service is up, owner events
(resources/<id> appears / disappears / is modified) are queued in order, as
inotify would, and delivered later as on_create_request / on_delete_request.
While it is down they are lost (the next start-up scan sees the directory).
The service may be killed at any call into the kernel model.

Oracle (vips/ is read by the harness after every step):
  * every entry is a host address of the configured network;
  * a step changes vips/ only in the way the statement allows for it
    (a create request may bind ONE free address to its owner and removes
    nothing; a delete request removes only its owner's entry; initialize changes
    nothing; synchronize removes only entries of owners that do not exist (or
    were never answered) and leaves none of a non-existing owner behind);
  * an owner that was answered keeps its address while its request exists,
    across restarts and crashes, and every further answer names the same one;
  * with a free address and a sane kernel a create request succeeds; with none
    it is refused and nothing changes.
"""
import ipaddress
import os
import shutil
import tempfile

from . import kernel as kmod, model

ENVS = ['dev', 'qa', 'uat', 'prod']


class CaseEnd(BaseException):
    pass


class NetSvcCase:
    def __init__(self, ctx, rng, tier):
        from treadmill.services import network_service
        self.ns = network_service
        self.ctx, self.rng = ctx, rng
        self.root = tempfile.mkdtemp(prefix='vf-')
        self.svcdir = os.path.join(self.root, 'svc')
        self.rsrc = os.path.join(self.svcdir, 'resources')
        self.reqs = os.path.join(self.root, 'reqs')
        self.vips = os.path.join(self.svcdir, 'vips')
        os.makedirs(self.rsrc)
        os.makedirs(self.reqs)
        self.k = kmod.Kernel(self.root)
        prefix = rng.choice([30, 29, 29, 28, 28, 27])
        size = 1 << (32 - prefix)
        base = (192 << 24) | (168 << 16) | (rng.randrange(250) << 8) | (rng.randrange(256 // size) * size)
        addrs = [str(ipaddress.IPv4Address(base + i)) for i in range(size)]
        self.cidr = '%s/%d' % (addrs[0], prefix)
        self.hosts = addrs[1:-1]
        n = len(self.hosts) + rng.randint(1, 6)
        self.ids = ['proid.app%d-%010d-%s' % (i % 3, i, 'U%012d' % rng.randrange(10 ** 12)) for i in range(n + 8)]
        self.env = {i: rng.choice(ENVS) for i in self.ids}
        self.unborn = list(self.ids)
        self.alive = set()
        self.told = {}
        self.queue = []
        self.impl = None
        self.phase = 'down'          # down | starting | up
        self.startup = []
        self.log = []
        self.flags = set()
        self.saved_cidr = None
        self.crash_p = rng.choice([0.0, 0.05, 0.15])

    # -- plumbing ---------------------------------------------------------
    def open(self):
        self.k.install()
        cls = self.ns.NetworkResourceService
        self.saved_cidr = cls._TM_CIDR
        cls._TM_CIDR = self.cidr

    def close(self):
        if self.saved_cidr is not None:
            self.ns.NetworkResourceService._TM_CIDR = self.saved_cidr
        self.k.uninstall()
        shutil.rmtree(self.root, ignore_errors=True)

    def desc(self):
        return dict(cidr=self.cidr, crash_p=self.crash_p)

    def violate(self, mech, msg, witness=None):
        self.ctx.violation(mech + ':netsvc', msg, witness=witness,
                           case=dict(net=self.desc(), ops=self.log[-40:]))
        raise CaseEnd()

    def listing(self):
        return model.listing(self.vips) if os.path.isdir(self.vips) else {}

    # -- owners -----------------------------------------------------------
    def appear(self):
        i = self.unborn.pop(0)
        os.mkdir(os.path.join(self.reqs, i))
        os.symlink(os.path.join(self.reqs, i), os.path.join(self.rsrc, i))
        self.alive.add(i)
        if self.phase != 'down':
            self.queue.append(('created', i))
        self.log.append(dict(op='appear', o=i))

    def vanish(self, i, how):
        if how == 'link':
            os.unlink(os.path.join(self.rsrc, i))
        else:
            shutil.rmtree(os.path.join(self.reqs, i))     # the link dangles until the service sweeps it
        self.alive.discard(i)
        self.told.pop(i, None)
        if self.phase != 'down':
            self.queue.append(('deleted', i))
        self.log.append(dict(op='vanish', o=i, how=how))

    def sweep(self, i):
        try:
            os.unlink(os.path.join(self.rsrc, i))
        except FileNotFoundError:
            pass

    # -- one call into the implementation --------------------------------
    def call(self, step, fn, *args):
        """-> (status, value): 'ok' | 'raised' | 'crashed'."""
        self.k.errors = 0
        if self.rng.random() < self.crash_p:
            self.k.crash_at = self.k.calls + self.rng.randint(1, 14)
        elif self.rng.random() < 0.08:
            self.k.fail_at = self.k.calls + self.rng.randint(1, 10)
            self.ctx.count('netsvc_transient_command_failure_armed')
        try:
            try:
                return 'ok', fn(*args)
            except kmod.Crash as err:
                self.impl = None
                self.phase = 'down'
                self.queue = []
                self.startup = []
                self.flags.add('crash')
                self.ctx.count('netsvc_crash_in_' + step)
                return 'crashed', str(err)
            except Exception as err:      # noqa: decided by the caller
                return 'raised', err
        finally:
            self.k.crash_at = None
            self.k.fail_at = None

    def died_after_transient_failure(self, step):
        """An exception out of the start-up path, in a history in which a command failed transiently, is the
        service process dying (its supervisor starts it again); the ownership oracles go on."""
        if not getattr(self.k, 'transient_failures', 0):
            return False
        self.impl = None
        self.phase = 'down'
        self.queue = []
        self.startup = []
        self.flags.add('crash')
        self.ctx.count('netsvc_died_in_%s_after_transient_failure' % step)
        return True

    def common(self, step, post):
        for ip, owner in post.items():
            if ip not in self.hosts:
                self.violate('allocated-ip-not-a-host-address', 'vips/%s -> %s; network %s' % (ip, owner, self.cidr))
        for i, ip in self.told.items():
            if i in self.alive and post.get(ip) != i:
                self.violate('live-owner-lost-ip:' + step,
                             '%s was answered %s and its request exists; vips/%s is %r' % (i, ip, ip, post.get(ip)),
                             witness=dict(owner=i, ip=ip, found=post.get(ip)))

    def diff(self, pre, post):
        added = {n: o for n, o in post.items() if n not in pre}
        removed = {n: o for n, o in pre.items() if n not in post}
        changed = {n: (pre[n], post[n]) for n in pre if n in post and pre[n] != post[n]}
        return added, removed, changed

    # -- steps ------------------------------------------------------------
    def create_request(self, step, i):
        pre = self.listing()
        mine = [ip for ip, o in pre.items() if o == i]
        free = [h for h in self.hosts if h not in pre]
        marks = {n: set(v['members']) for n, v in self.k.sets.items()}
        tf0 = getattr(self.k, 'transient_failures', 0)
        st, val = self.call(step, self.impl.on_create_request, i, {'environment': self.env[i]})
        if not hasattr(self, 'replay_failed'):
            self.replay_failed = {}
        if step == 'startup-create' and st == 'raised' and getattr(self.k, 'transient_failures', 0) > tf0:
            self.replay_failed[i] = True        # the replayed request of a running container got an error reply
        elif st == 'ok':
            self.replay_failed.pop(i, None)
        post = self.listing()
        self.log.append(dict(op=step, o=i, status=st, ret=(val.get('vip') if st == 'ok' else str(val)[:80])))
        self.ctx.count('netsvc_create_requests')
        added, removed, changed = self.diff(pre, post)
        if removed or changed:
            self.violate('create-request-removed-or-rebound-entry',
                         'on_create_request(%s): removed %s, rebound %s' % (i, removed, changed))
        for ip, o in added.items():
            if o != i:
                self.violate('create-request-bound-entry-for-other-owner', '%s -> %s by request of %s' % (ip, o, i))
        if len(added) > (0 if mine else 1):
            self.violate('owner-holds-two-ips', 'on_create_request(%s): had %s, added %s' % (i, mine, sorted(added)))
        if st == 'ok':
            ip = val.get('vip')
            if post.get(ip) != i:
                self.violate('answered-ip-not-held', '%s was answered %r; vips/ has %r there' % (i, ip, post.get(ip)))
            if mine and ip != mine[0]:
                self.violate('repeated-request-different-ip', '%s holds %s, was answered %s' % (i, mine[0], ip))
            if i in self.told and self.told[i] != ip:
                self.violate('repeated-request-different-ip', '%s was answered %s before, %s now' % (
                    i, self.told[i], ip))
            if mine or i in self.told:
                self.ctx.count('netsvc_repeated_request_same_ip')
                self.flags.add('repeat')
            else:
                self.ctx.count('netsvc_new_ip')
                if 'exhausted' in self.flags:
                    self.flags.add('exhausted-and-back')
                    self.ctx.count('netsvc_alloc_after_exhaustion')
            self.told[i] = ip
        elif st == 'raised':
            if not mine and not free:
                self.flags.add('exhausted')
                self.ctx.count('netsvc_exhausted_refused')
                if added:
                    self.violate('refused-request-bound-entry', str(added))
            elif self.k.errors:
                self.ctx.count('netsvc_create_refused_by_kernel_state')
            elif any(ip in m for ip in list(added) + mine for n, m in marks.items()
                     if n != self.ns._SET_BY_ENVIRONMENT[self.env[i]]):
                # not an ownership matter: the address still carries the environment mark (ipset) of a vanished
                # owner whose delete request is queued behind this one; the service answers with an error
                self.ctx.count('netsvc_create_refused_stale_env_mark')
            else:
                self.violate('exception:%s@on_create_request' % type(val).__name__,
                             'on_create_request(%s) raised %r with %d free addresses' % (i, val, len(free)))
        self.common(step, post)

    def delete_request(self, step, i):
        pre = self.listing()
        st, val = self.call(step, self.impl.on_delete_request, i)
        post = self.listing()
        self.log.append(dict(op=step, o=i, status=st))
        self.ctx.count('netsvc_delete_requests')
        added, removed, changed = self.diff(pre, post)
        if added or changed:
            self.violate('delete-request-added-or-rebound-entry', '%s %s' % (added, changed))
        for ip, o in removed.items():
            if o != i:
                self.violate('release-removed-entry-of-other-owner',
                             'on_delete_request(%s) removed %s of %s' % (i, ip, o),
                             witness=dict(entry=ip, holder=o, releaser=i))
        if st == 'ok':
            left = [ip for ip, o in post.items() if o == i]
            if left:
                self.violate('owner-release-left-entry', 'after on_delete_request(%s): %s' % (i, left))
            if removed:
                self.ctx.count('netsvc_ip_released')
        elif st == 'raised' and not self.k.errors:
            self.violate('exception:%s@on_delete_request' % type(val).__name__, repr(val))
        self.common(step, post)

    def step_init(self):
        pre = self.listing()
        self.impl = self.ns.NetworkResourceService(ext_device='eth0', ext_ip='172.31.81.67', ext_mtu=9000,
                                                   ext_speed=10000)
        self.phase = 'starting'
        if pre and self.rng.random() < 0.2:
            # the bridge went away while the service was down (network restart): initialize() has to build
            # it again, the requests of the running containers are still there and are replayed afterwards
            # (with its ports: the host side of every container's veth pair is gone as well)
            for dev in sorted(self.k.links):
                if dev in ('tm0', 'tm1', 'br0') or self.k.links[dev]['type'] == 'veth':
                    if dev in self.k.links:
                        self.k._del_link(dev)       # pylint: disable=protected-access
            self.ctx.count('netsvc_restarts_bridge_gone')
        st, val = self.call('initialize', self.impl.initialize, self.svcdir)
        post = self.listing()
        self.log.append(dict(op='initialize', status=st))
        self.ctx.count('netsvc_starts')
        if pre:
            self.ctx.count('netsvc_restarts_with_entries')
            self.flags.add('restart')
        if pre != post:
            self.violate('initialize-changed-entries', '%s -> %s' % (pre, post))
        if st == 'raised' and self.died_after_transient_failure('initialize'):
            return
        if st == 'raised':
            self.violate('exception:%s@initialize' % type(val).__name__, repr(val))
        if st == 'ok':
            # the start-up scan of ResourceService._check_requests: stale links are swept, the rest is replayed
            live = []
            for i in sorted(os.listdir(self.rsrc)):
                if os.path.exists(os.path.join(self.rsrc, i)):
                    live.append(i)
                else:
                    self.sweep(i)
            self.rng.shuffle(live)
            self.startup = live + ['<sync>']
        self.common('initialize', post)

    def step_startup(self):
        i = self.startup.pop(0)
        if i != '<sync>':
            if i in self.alive:
                self.create_request('startup-create', i)
            return
        pre = self.listing()
        dead = {ip: o for ip, o in pre.items() if o not in self.alive}
        st, val = self.call('synchronize', self.impl.synchronize)
        post = self.listing()
        self.log.append(dict(op='synchronize', status=st))
        self.ctx.count('netsvc_synchronize')
        added, removed, changed = self.diff(pre, post)
        if added or changed:
            self.violate('synchronize-added-or-rebound-entry', '%s %s' % (added, changed))
        for ip, o in removed.items():
            if o in self.alive and o in self.told and getattr(self, 'replay_failed', {}).get(o):
                self.violate('gc-removed-live-owner-entry:replayed-request-failed-on-a-transient-command-failure',
                             'synchronize removed %s of %s (answered before the restart, request exists; its replay '
                             'was answered with an error because a command failed transiently)' % (ip, o))
            if o in self.alive and o in self.told:
                self.violate('gc-removed-live-owner-entry', 'synchronize removed %s of %s (answered, request exists)' % (
                    ip, o), witness=dict(entry=ip, holder=o))
        if st == 'ok':
            self.phase = 'up'
            left = {ip: o for ip, o in dead.items() if ip in post}
            if left:
                self.violate('gc-left-dead-owner-entry', 'after synchronize: %s' % left)
            if dead:
                self.ctx.count('netsvc_synchronize_reclaimed')
                self.flags.add('reclaim')
            if dead and any(o in self.alive for o in pre.values()):
                self.flags.add('gc-mixed')
        elif st == 'raised' and self.died_after_transient_failure('synchronize'):
            pass
        elif st == 'raised':
            self.violate('exception:%s@synchronize' % type(val).__name__, repr(val))
        self.common('synchronize', post)

    def deliver(self):
        what, i = self.queue.pop(0)
        if what == 'created':
            if i in self.alive:
                self.create_request('on_create_request', i)
        else:
            self.sweep(i)
            self.delete_request('on_delete_request', i)

    # -- generation -------------------------------------------------------
    def run(self, n_steps):
        rng = self.rng
        fill = 0.7
        try:
            for s in range(n_steps):
                if s % 15 == 0:
                    fill = rng.choice([0.9, 0.7, 0.4, 0.15])
                r = rng.random()
                # owner events happen at any time, whatever the service is doing
                if r < 0.30:
                    if self.unborn and (rng.random() < fill or not self.alive):
                        self.appear()
                    elif self.alive:
                        self.vanish(rng.choice(sorted(self.alive)), rng.choice(['link', 'link', 'target']))
                    continue
                if self.phase == 'down':
                    self.step_init()
                elif self.phase == 'starting':
                    self.step_startup()
                elif r < 0.36:
                    self.log.append(dict(op='stop'))
                    self.impl, self.phase, self.queue = None, 'down', []
                elif r < 0.42 and self.alive:
                    i = rng.choice(sorted(self.alive))
                    self.queue.append(('created', i))      # a modified request = the same request again
                    self.log.append(dict(op='modify', o=i))
                elif r < 0.45 and self.unborn:
                    i = self.unborn.pop()                   # a delete for a request the service never saw
                    self.delete_request('on_delete_request-unknown', i)
                elif self.queue:
                    self.deliver()
        except CaseEnd:
            self.flags.add('violation')

    def nontrivial(self):
        f = self.flags
        return ('restart' in f and 'repeat' in f and 'reclaim' in f) or 'exhausted-and-back' in f
