"""Histories on the three symlink databases (VipMgr, RuleMgr, EndpointsMgr).

One Engine = one case: a real temp directory, the real manager, a generated
operation list.  Every operation is replayed on the reference model
(model.Ref) and the directory listing is compared after it.  All system calls
the managers make on the database directory are observed through
osproxy.OsProxy: each single link creation / removal is checked for legality
at the moment it happens (who may remove what), and a planned failpoint may
run operations of OTHER actors between two system calls of the running one.
"""
import errno
import ipaddress
import os
import shutil
import tempfile
import zlib

from . import model, osproxy

GC = '<gc>'


class CaseEnd(BaseException):
    """A violation was recorded; unwind the case (BaseException: must not be
    eaten by the `except OSError/Exception` handlers of the code under test)."""


class InjectedIO(OSError):
    """A transient I/O error answered by the boundary."""


class HarnessBug(BaseException):
    """The harness lost track of the directory (never a verdict)."""


def must(cond, *info):
    if not cond:
        raise HarnessBug(repr(info))


class OpCtx:
    def __init__(self, kind, actor, fp):
        self.kind = kind
        self.actor = actor
        self.fp = fp                # list of failpoint specs (top-level ops only)
        self.points = 0
        self.callcount = {}
        self.fired = 0
        self.armed = None           # second stage of a split program: (name, prog)
        self.last_call = 'start'
        self.anchor = 'start'       # last completed call of this operation when other actors last ran
        self.nested = []
        self.bound = set()
        self.own_seen = set()
        self.refused = set()
        self.removed = set()
        self.touched = set()        # names changed by nested operations
        self.attempted = []

    @property
    def interleaved(self):
        """Did another actor really do something inside this operation?"""
        return any('op' in n for n in self.nested)


# ---------------------------------------------------------------------------
# adapters: what differs between the three managers

class VipAdapter:
    kind = 'vip'

    def __init__(self, root, rng, tier):
        from treadmill import vipfile
        prefix = rng.choice([30, 29, 29, 28, 28, 27] if tier == 'thorough' else [30, 29, 29, 28, 28, 27])
        size = 1 << (32 - prefix)
        base = (10 << 24) | (rng.randrange(256) << 16) | (rng.randrange(256) << 8) | (rng.randrange(256 // size) * size)
        addrs = [str(ipaddress.IPv4Address(base + i)) for i in range(size)]
        self.cidr = '%s/%d' % (addrs[0], prefix)
        self.hosts = addrs[1:-1]                 # host addresses: all but network and broadcast
        self.edges = [addrs[0], addrs[-1]]
        self.dbdir = os.path.join(root, 'vips')
        self.owndir = os.path.join(root, 'owners')
        os.mkdir(self.owndir)
        self.mgr = vipfile.VipMgr(self.cidr, self.dbdir, self.owndir)
        self.mgr2 = vipfile.VipMgr(self.cidr, self.dbdir, self.owndir)
        # a second pool on the same directory (warpgate keeps one VipMgr per cidr in one vips/)
        self.other = None
        self.other_hosts = []
        if rng.random() < 0.35:
            ob = base ^ (1 << 12)
            oaddrs = [str(ipaddress.IPv4Address(ob + i)) for i in range(4)]
            self.other = vipfile.VipMgr('%s/30' % oaddrs[0], self.dbdir, self.owndir)
            self.other_hosts = oaddrs[1:-1]
        self.outside = str(ipaddress.IPv4Address(base ^ (1 << 20)))
        self.dbdir = os.path.realpath(self.dbdir)
        n_own = rng.randint(3, 7)
        self.owners = ['proid.app%d-%010d-%s' % (i % 3, i, 'UNIQ%09d' % rng.randrange(10 ** 9)) for i in range(n_own)]
        if rng.random() < 0.35:
            # owner names that are a proper suffix / prefix of one another (ops.db-... vs devops.db-...)
            self.owners[1] = 'dev' + self.owners[0]
            self.owners[2] = self.owners[0][:-1]
        self.names = list(self.hosts) + self.other_hosts
        self.foreign = {}
        if rng.random() < 0.3:
            with open(os.path.join(self.dbdir, 'README'), 'w'):
                pass
            self.foreign['README'] = model.FILE

    def owner_path(self, owner):
        return os.path.join(self.owndir, owner)

    def desc(self):
        return dict(cidr=self.cidr, owners=len(self.owners), second_pool=bool(self.other), foreign=sorted(self.foreign))

    def execute(self, op, nested):
        mgr = self.mgr2 if nested else self.mgr
        k = op['op']
        if k == 'create':
            if op['e'] is None:
                return mgr.alloc(op['o'])
            if op['e'] in self.other_hosts:
                return self.other.alloc(op['o'], picked_ip=op['e'])
            return mgr.alloc(op['o'], picked_ip=op['e'])
        if k == 'release':
            return (self.other if op['e'] in self.other_hosts else mgr).free(op['o'], op['e'])
        if k == 'gc':
            return mgr.garbage_collect()
        if k == 'reset':
            return (self.other if op.get('pool') == 'other' else mgr).initialize()
        if k == 'read':
            return sorted(mgr.list())
        raise AssertionError(k)

    def fn(self, op):
        return {'create': 'alloc', 'release': 'free', 'gc': 'garbage_collect', 'reset': 'initialize', 'read': 'list'}[op['op']]


SITE_CHAINS = ['SITE-INGRESS', 'SITE-EGRESS', 'TM-SITE-DNAT', 'fw-local']


class RuleAdapter:
    kind = 'rule'

    def __init__(self, root, rng, tier):
        from treadmill import rulefile, firewall
        self.fw = firewall
        self.dbdir = os.path.join(root, 'rules')
        self.owndir = os.path.join(root, 'apps')
        os.mkdir(self.dbdir)
        os.mkdir(self.owndir)
        self.mgr = rulefile.RuleMgr(self.dbdir, self.owndir)
        self.mgr2 = rulefile.RuleMgr(self.dbdir, self.owndir)
        self.dbdir = os.path.realpath(self.dbdir)
        n_own = rng.randint(3, 7)
        self.owners = ['proid.app%d-%010d-%s' % (i % 3, i, 'UNIQ%09d' % rng.randrange(10 ** 9)) for i in range(n_own)]
        if rng.random() < 0.35:
            # owner names that are a proper suffix / prefix of one another (ops.db-... vs devops.db-...)
            self.owners[1] = 'dev' + self.owners[0]
            self.owners[2] = self.owners[0][:-1]
        ext = '172.31.81.67'
        vips = ['192.168.0.%d' % rng.randint(2, 6) for _ in range(2)]
        self.rules = {}
        # create_rule / unlink_rule take the chain as a free string: in 45% of the cases some rules live in site
        # chains whose names iptables accepts but that are not of the TM_* word form (a dash in the name)
        site = rng.random() < 0.45
        self.offpattern = set()
        for _ in range(rng.randint(3, 9)):
            t = rng.choice(['dnat', 'dnat', 'snat', 'pass'])
            vip = rng.choice(vips)
            site_chain = rng.choice(SITE_CHAINS) if site and rng.random() < 0.5 else None
            if t == 'dnat':
                chain = rng.choice(['TM_PREROUTING_DNAT', 'TM_PREROUTING_VRING'])
                chain = site_chain or chain
                f = dict(proto=rng.choice(['tcp', 'udp']), src_ip=None, src_port=None,
                         dst_ip=rng.choice([ext, None]), dst_port=str(rng.choice([5000, 5001, 32768])),
                         new_ip=vip, new_port=str(rng.choice([80, 8000])))
                name = '%s:dnat:%s:*:*:%s:%s-%s:%s' % (chain, f['proto'], f['dst_ip'] or '*', f['dst_port'],
                                                        f['new_ip'], f['new_port'])
                rule = firewall.DNATRule(**f)
            elif t == 'snat':
                chain = rng.choice(['TM_POSTROUTING_SNAT', 'TM_POSTROUTING_VRING'])
                chain = site_chain or chain
                f = dict(proto=rng.choice(['tcp', 'udp']), src_ip=vip, src_port=str(rng.choice([80, 8000])),
                         dst_ip=None, dst_port=None, new_ip=ext, new_port=str(rng.choice([5000, 5001])))
                name = '%s:snat:%s:%s:%s:*:*-%s:%s' % (chain, f['proto'], f['src_ip'], f['src_port'],
                                                        f['new_ip'], f['new_port'])
                rule = firewall.SNATRule(**f)
            else:
                chain = 'TM_PASSTHROUGH'
                chain = site_chain or chain
                f = dict(src_ip='10.1.2.%d' % rng.randint(1, 3), dst_ip=vip)
                name = '%s:passthrough:%s-%s' % (chain, f['src_ip'], f['dst_ip'])
                rule = firewall.PassThroughRule(**f)
            self.rules[name] = (chain, rule)
            if site_chain:
                self.offpattern.add(name)
        self.names = sorted(self.rules)
        self.foreign = {}
        self.beats = 0

    def owner_path(self, owner):
        return os.path.join(self.owndir, owner)

    def desc(self):
        return dict(rules=self.names, owners=len(self.owners))

    def readable(self, name):
        """get_rules documents that it skips 'files that are not rules' by its file-name grammar (chain = 2-32 word
        characters): the read-back is judged on names of that grammar only."""
        return name not in self.offpattern

    def heartbeat(self):
        self.beats += 1

    def execute(self, op, nested):
        mgr = self.mgr2 if nested else self.mgr
        k = op['op']
        if k in ('create', 'release'):
            chain, rule = self.rules[op['e']]
            call = mgr.create_rule if k == 'create' else mgr.unlink_rule
            return call(chain=chain, rule=rule, owner=op['o'])
        if k == 'gc':
            if op.get('wd'):
                return mgr.garbage_collect(watchdog_lease=self, watchdog_heartbeat=1e-9)
            return mgr.garbage_collect()
        if k == 'reset':
            return mgr.initialize()
        if k == 'read':
            return sorted(mgr._filenameify(c, r) for c, r in mgr.get_rules())
        raise AssertionError(k)

    def fn(self, op):
        return {'create': 'create_rule', 'release': 'unlink_rule', 'gc': 'garbage_collect', 'reset': 'initialize',
                'read': 'get_rules'}[op['op']]


class SpecAdapter:
    kind = 'spec'

    def __init__(self, root, rng, tier):
        from treadmill import endpoints
        self.ep = endpoints
        self.dbdir = os.path.join(root, 'endpoints')
        self.owndir = os.path.join(root, 'apps')
        os.mkdir(self.owndir)
        self.mgr = endpoints.EndpointsMgr(self.dbdir)
        self.mgr2 = endpoints.EndpointsMgr(self.dbdir)
        self.dbdir = os.path.realpath(self.dbdir)
        # owners are incarnations (unique names) of a few instances (appnames)
        n_app = rng.randint(1, 3)
        self.appname = {}
        self.owners = []
        for i in range(rng.randint(3, 7)):
            a = i % n_app
            o = 'proid.app%d-%010d-%s' % (a, a + 1, 'UNIQ%09d' % rng.randrange(10 ** 9))
            self.owners.append(o)
            self.appname[o] = 'proid.app%d#%010d' % (a, a + 1)
        self.specs = {}
        for a in range(n_app):
            appname = 'proid.app%d#%010d' % (a, a + 1)
            for _ in range(rng.randint(2, 5)):
                f = (appname, rng.choice(['tcp', 'udp']), rng.choice(['http', 'ssh', 'ws']),
                     rng.choice([5000, 5001]), rng.choice([4001, 4002]), rng.choice([80, 8000]))
                self.specs['~'.join(str(x) for x in f)] = f
        self.names = sorted(self.specs)
        self.foreign = {}

    def owner_path(self, owner):
        return os.path.join(self.owndir, owner)

    def desc(self):
        return dict(specs=self.names, owners=[self.appname[o] for o in self.owners])

    def may_create(self, owner, name):
        return self.specs[name][0] == self.appname[owner]

    def execute(self, op, nested):
        mgr = self.mgr2 if nested else self.mgr
        k = op['op']
        if k in ('create', 'release'):
            appname, proto, endpoint, real_port, pid, port = self.specs[op['e']]
            if k == 'create':
                return mgr.create_spec(appname=appname, proto=proto, endpoint=endpoint, real_port=real_port,
                                       pid=str(pid), port=port, owner=self.owner_path(op['o']))
            return mgr.unlink_spec(appname=appname, proto=proto, endpoint=endpoint, real_port=real_port,
                                   pid=str(pid), port=port,
                                   owner=(self.owner_path(op['o']) if op.get('as_path') else op['o']))
        if k == 'release_all':
            return mgr.unlink_all(op['app'], proto=op.get('proto'), endpoint=op.get('endpoint'), owner=op['o'])
        if k == 'gc':
            return self.ep.garbage_collect(self.dbdir)
        if k == 'reset':
            return mgr.initialize()
        if k == 'read':
            return sorted('~'.join(s) for s in mgr.get_specs())
        raise AssertionError(k)

    def fn(self, op):
        return {'create': 'create_spec', 'release': 'unlink_spec', 'release_all': 'unlink_all',
                'gc': 'garbage_collect', 'reset': 'initialize', 'read': 'get_specs'}[op['op']]


ADAPTERS = {'vip': VipAdapter, 'rule': RuleAdapter, 'spec': SpecAdapter}

FP_CALLS = {'create': ['symlink', 'readlink'], 'release': ['readlink', 'unlink'],
            'release_all': ['readlink', 'unlink'], 'gc': ['listdir', 'stat', 'unlink']}
PROGRAMS = ['split-swap', 'split-swap', 'swap', 'kill', 'release', 'gc', 'create', 'born', 'steal', 'io-error']


# ---------------------------------------------------------------------------

class Engine(osproxy.Sink):
    def __init__(self, ctx, rng, kind, tier, fprng, with_fp):
        self.ctx, self.rng, self.kind, self.tier = ctx, rng, kind, tier
        self.fprng = fprng
        self.with_fp = with_fp
        self.base = tempfile.mkdtemp(prefix='vf-')
        self.root = self.base
        if rng.random() < 0.25:
            # the Treadmill root is reached through a symlink whose target lies at another depth
            # (an install that links /var/tmp/treadmill to a volume): textual and physical paths differ
            os.makedirs(os.path.join(self.base, 'vol', 'data', 'treadmill'))
            os.symlink(os.path.join('vol', 'data', 'treadmill'), os.path.join(self.base, 'tm'))
            self.root = os.path.join(self.base, 'tm')
            ctx.count('root_via_symlink_cases')
        self.ad = ADAPTERS[kind](self.root, rng, tier)
        self.ref = model.Ref(self.ad.foreign)
        self.alive = set()
        self.born = []
        self.unborn = list(self.ad.owners)
        self.dead = set()
        self.stack = []
        self.log = []
        self.flags = set()
        self.in_fire = False
        self.last_top = None
        self.create_bias = 0.75

    # -- lifecycle --------------------------------------------------------
    def close(self):
        osproxy.PROXY.set_sink(None)
        shutil.rmtree(self.base, ignore_errors=True)

    def violate(self, mech, msg, witness=None, call='end'):
        top = self.stack[0] if self.stack else self.last_top
        if top is not None and top.interleaved:
            mech = '%s:%s:%s-%s-window' % (mech, self.kind, top.anchor, call)
        else:
            mech = '%s:%s' % (mech, self.kind)
        self.ctx.violation(mech, msg, witness=witness,
                           case=dict(db=self.ad.desc(), ops=self.log[-40:]))
        raise CaseEnd()

    # -- owners -----------------------------------------------------------
    def owner_form(self, owner):
        """What an owner path IS: the three databases store a path and take its existence for the owner's life -
        a directory (container directory, /proc/<pid>), a link to one (resources/<id>), or a regular file
        (a pid / state file).  Fixed per owner name (no draw from the case streams)."""
        return ('file', 'link', 'dir', 'dir', 'dir')[zlib.crc32(owner.encode()) % 5]

    def appear(self, owner):
        path = self.ad.owner_path(owner)
        form = self.owner_form(owner)
        if form == 'file':
            with open(path, 'w') as f:
                f.write('4242\n')
        elif form == 'link':
            os.mkdir(os.path.join(self.base, 'req-' + owner))
            os.symlink(os.path.join(self.base, 'req-' + owner), path)
        else:
            os.mkdir(path)
        self.ctx.count('owners_%s' % form)
        self.alive.add(owner)
        self.born.append(owner)
        if owner in self.unborn:
            self.unborn.remove(owner)

    def die(self, owner):
        form = self.owner_form(owner)
        if form == 'dir':
            os.rmdir(self.ad.owner_path(owner))
        else:
            os.unlink(self.ad.owner_path(owner))
            if form == 'link':
                os.rmdir(os.path.join(self.base, 'req-' + owner))
        self.alive.discard(owner)
        self.dead.add(owner)

    # -- sink: every system call of the managers on the database ----------
    def _name(self, path):
        path = str(path)
        if os.path.dirname(path) == self.ad.dbdir:
            return os.path.basename(path)
        return None

    def order(self, path, names):
        if os.path.realpath(str(path)) == self.ad.dbdir and len(names) > 1:
            names = list(names)
            self.fprng.shuffle(names)
        return names

    def before(self, call, args):
        if not self.stack:
            return
        name = self._name(args[-1]) if call != 'listdir' else None
        if call == 'listdir' and os.path.realpath(str(args[0])) != self.ad.dbdir:
            return
        if call != 'listdir' and name is None:
            return
        self._point(call, 'before', name)

    def after(self, call, args, result, error):
        if not self.stack:
            return
        top = self.stack[-1]
        if call == 'listdir':
            if os.path.realpath(str(args[0])) != self.ad.dbdir:
                return
            name = None
        else:
            name = self._name(args[-1])
            if name is None:
                return
        outer = self.stack[:-1]
        if call == 'symlink':
            top.attempted.append(name)
            if error is None:
                owner = os.path.basename(str(args[0]))
                if top.kind != 'create':
                    self.violate('link-created-by-' + top.kind, '%s created %s' % (top.kind, name), call=call)
                if owner != top.actor:
                    self.violate('link-created-for-other-owner', '%s created %s -> %s' % (top.actor, name, owner),
                                 call=call)
                # (a link created behind the monitor's back is found by the listing comparison, not here)
                self.ref.tab[name] = owner
                top.bound.add(name)
                for o in outer:
                    o.touched.add(name)
            elif error.errno == errno.EEXIST:
                if name not in self.ref.tab:        # created behind the monitor's back: the directory is the truth
                    self.ref.tab[name] = model.listing(self.ad.dbdir).get(name, model.FILE)
                top.refused.add(name)
        elif call == 'unlink' and error is None:
            cur = self.ref.tab.get(name)
            if top.kind in ('release', 'release_all'):
                if cur != top.actor:
                    # (known finding: the release saw the entry as its own and it changed hands before the unlink;
                    # a release that never saw itself as the owner - entry absent or foreign at its check - is another matter)
                    self.violate('release-removed-entry-of-other-owner' if name in top.own_seen else
                                 'release-removed-entry-it-never-saw-as-its-own',
                                 '%s released %s, which is held by %s' % (top.actor, name, cur),
                                 witness=dict(entry=name, holder=cur, releaser=top.actor,
                                              other_actors_inside=self.stack[0].nested), call=call)
            elif top.kind == 'gc':
                if cur is None or cur == model.FILE:
                    self.violate('gc-removed-foreign-entry', 'garbage_collect removed %s (%r)' % (name, cur), call=call)
                if cur in self.alive:
                    self.violate('gc-removed-live-owner-entry',
                                 'garbage_collect removed %s, held by %s whose owner path exists' % (name, cur),
                                 witness=dict(entry=name, holder=cur, other_actors_inside=self.stack[0].nested),
                                 call=call)
            elif top.kind != 'reset':
                self.violate('entry-removed-by-' + top.kind, '%s of %s removed %s (held by %s)' % (
                    top.kind, top.actor, name, cur), call=call)
            self.ref.tab.pop(name, None)
            top.removed.add(name)
            for o in outer:
                o.touched.add(name)
        elif call == 'readlink' and error is None:
            if os.path.basename(str(result)) == top.actor:
                top.own_seen.add(name)
        elif call in ('rename', 'replace') and error is None:
            src = self._name(args[0])
            new = os.path.basename(os.readlink(str(args[1]))) if os.path.islink(str(args[1])) else model.FILE
            if src is not None:
                self.ref.tab.pop(src, None)
            cur = self.ref.tab.get(name)
            if cur is not None and cur != new and (cur in self.alive or cur == model.FILE):
                self.violate('held-entry-replaced', '%s of %s replaced %s (held by %s) with a link to %s' % (
                    top.kind, top.actor, name, cur, new), witness=dict(entry=name, holder=cur, new=new), call=call)
            self.ref.tab[name] = new
            if new == top.actor:
                top.bound.add(name)
        top.last_call = call
        self._point(call, 'after', name)

    # -- failpoints -------------------------------------------------------
    def _point(self, call, phase, name):
        if len(self.stack) != 1 or self.in_fire:
            return
        top = self.stack[0]
        if not top.fp:
            return
        idx = top.points
        top.points += 1
        nth = top.callcount.get((call, phase), 0)
        top.callcount[(call, phase)] = nth + 1
        if top.armed is not None:
            aname, prog = top.armed
            if name == aname:
                top.armed = None
                self._fire(top, call, phase, name, prog)
            return
        for fp in top.fp:
            if fp.get('done'):
                continue
            if (fp['by'] == 'point' and fp['k'] == idx) or \
               (fp['by'] == 'call' and fp['call'] == call and fp['phase'] == phase and fp['nth'] == nth):
                fp['done'] = True
                self._fire(top, call, phase, name, fp['prog'])
                return

    def _fire(self, top, call, phase, name, prog):
        if prog == 'io-error':
            # the kernel answers this request with a transient error that has nothing to do with the entry (EIO)
            if phase != 'before' or call not in ('stat', 'lstat', 'readlink', 'listdir'):
                return
            top.fired += 1
            top.io_error = True
            top.nested.append(dict(at='%s %s(%s)' % (phase, call, name or ''), injected='EIO'))
            self.ctx.count('io_errors_injected')
            raise InjectedIO(5, 'Input/output error (injected)')
        top.anchor = top.last_call
        top.fired += 1
        top.nested.append(dict(at='%s %s(%s)' % (phase, call, name or '')))
        self.in_fire = True
        try:
            self._program(top, prog, name)
        finally:
            self.in_fire = False

    def _others(self, top, exclude=()):
        return [o for o in sorted(self.alive) if o != top.actor and o not in exclude]

    def _nested(self, top, op):
        op = dict(op, nested=True)
        top.nested.append({k: v for k, v in op.items() if k != 'nested'})
        self.ctx.count('nested_ops')
        self.run_op(op)

    def _creatable(self, owner, name):
        return self.kind != 'spec' or self.ad.may_create(owner, name)

    def _program(self, top, prog, name):
        rng = self.fprng
        tab = self.ref.tab
        names = self.ad.names
        if name is None or name not in names:
            held = [n for n in sorted(tab) if n in names]
            name = rng.choice(held) if held and rng.random() < 0.8 else rng.choice(names)
        holder = tab.get(name)
        if prog in ('swap', 'split-swap', 'release'):
            if holder is not None and holder != top.actor and holder != model.FILE:
                if holder in self.alive or rng.random() < 0.5:
                    self._nested(top, dict(op='release', o=holder, e=name))
                elif top.kind != 'gc':
                    self._nested(top, dict(op='gc'))
            if prog == 'split-swap':
                top.armed = (name, 'create')
                return
            if prog == 'release':
                return
            prog = 'create'
        if prog == 'steal':
            # the running actor's own owner path goes away, its entry is collected and re-assigned
            if holder == top.actor and top.kind in ('release', 'release_all'):
                if top.actor in self.alive:
                    self.die(top.actor)
                    top.nested.append(dict(op='die', o=top.actor))
                self._nested(top, dict(op='gc'))
            prog = 'create'
        if prog == 'create':
            if name not in tab:
                cands = [o for o in self._others(top) if self._creatable(o, name)]
                if cands:
                    self._nested(top, dict(op='create', o=rng.choice(cands), e=name))
            return
        if prog == 'kill':
            victims = [o for o in sorted(self.alive)]
            if holder in self.alive and rng.random() < 0.7:
                victims = [holder]
            if victims:
                v = rng.choice(victims)
                self.die(v)
                top.nested.append(dict(op='die', o=v))
            return
        if prog == 'gc':
            if top.kind != 'gc':
                self._nested(top, dict(op='gc'))
            return
        if prog == 'born':
            if self.unborn:
                o = self.unborn[0]
                self.appear(o)
                top.nested.append(dict(op='appear', o=o))
                if name not in tab and self._creatable(o, name) and o != top.actor:
                    self._nested(top, dict(op='create', o=o, e=name))
            return
        raise AssertionError(prog)

    # -- one operation ----------------------------------------------------
    def run_op(self, op):
        k = op['op']
        nested = bool(op.get('nested'))
        if not nested:
            self.log.append({kk: v for kk, v in op.items()})
        if k == 'appear':
            self.appear(op['o'])
            return
        if k == 'die':
            self.die(op['o'])
            return
        actor = GC if k in ('gc', 'reset', 'read') else op['o']
        fp = None
        if not nested and op.get('fp'):
            fp = [dict(f) for f in op['fp']]
        octx = OpCtx(k, actor, fp)
        pre = dict(self.ref.tab)
        pre_alive = set(self.alive)
        self.stack.append(octx)
        ret, exc = None, None
        try:
            try:
                ret = self.ad.execute(op, nested)
            except Exception as err:       # noqa: decided by the oracle below
                exc = err
        finally:
            self.stack.pop()
            self.last_top = octx if not self.stack else self.stack[0]
        post = model.listing(self.ad.dbdir)
        self.ctx.count('ops_%s_%s' % (self.kind, k))
        if octx.fired:
            self.ctx.count('failpoints_fired')
        if getattr(octx, 'io_error', False) and (exc is None or isinstance(exc, OSError)):
            # the operation met an injected I/O error: failing with it is fine, so is going on - every link it removed
            # or created on the way was judged when it happened; nothing may have changed unseen
            self.ctx.count('ops_with_io_error_%s' % ('raised' if exc is not None else 'absorbed'))
            if self.ref.tab != post:
                self.compare(op, self.ref.tab, post, pre, octx.actor)
        elif octx.interleaved:
            self.ctx.count('failpoint_ops_%s' % k)
            self.flags.add('interleaved')
            self.check_interleaved(op, octx, pre, pre_alive, ret, exc, post)
        else:
            self.check_sequential(op, octx, pre, pre_alive, ret, exc, post)
        if not nested:
            if exc is not None:
                self.log[-1]['ret'] = 'raise %s' % type(exc).__name__
            elif k == 'create':
                self.log[-1]['ret'] = ret
            if octx.nested:
                self.log[-1]['interleaved'] = octx.nested

    def _unexpected_exc(self, op, exc):
        self.violate('exception:%s@%s' % (type(exc).__name__, self.ad.fn(op)),
                     '%s raised %r' % (op, exc))

    # -- exact replay (no other actor ran inside the operation) -----------
    def check_sequential(self, op, octx, pre, pre_alive, ret, exc, post):
        k = op['op']
        ad = self.ad
        exp = model.Ref(pre)
        actor = octx.actor
        if k == 'create':
            e = op['e']
            if self.kind == 'vip' and e is None:
                free = exp.free_of(ad.hosts)
                if free:
                    if exc is not None:
                        self._unexpected_exc(op, exc)
                    if ret not in ad.hosts:
                        self.violate('allocated-ip-not-a-host-address',
                                     'alloc(%s) returned %r, not a host address of %s' % (actor, ret, ad.cidr))
                    if ret in pre:
                        self.violate('allocated-held-ip', 'alloc(%s) returned %s, held by %s' % (actor, ret, pre[ret]))
                    exp.create(ret, actor)
                    self.ctx.count('vip_allocated')
                    if 'exhausted' in self.flags:
                        self.flags.add('exhausted-and-back')
                        self.ctx.count('vip_alloc_after_exhaustion')
                else:
                    if exc is None:
                        self.violate('allocated-held-ip', 'alloc(%s) on an exhausted network returned %r (held by %s)' % (
                            actor, ret, pre.get(ret)))
                    self.flags.add('exhausted')
                    self.ctx.count('vip_exhausted_raises')
            elif self.kind == 'vip':
                cur = pre.get(e)
                if e == ad.outside:
                    if exc is None:
                        self.violate('allocated-ip-outside-network', 'alloc(%s, %s) succeeded; network is %s' % (
                            actor, e, ad.cidr))
                    self.ctx.count('vip_outside_refused')
                elif cur is not None:
                    if exc is None:
                        self.violate('allocated-held-ip', 'alloc(%s, picked %s) succeeded; held by %s' % (actor, e, cur))
                    self.flags.add('conflict')
                    self.ctx.count('create_conflicts')
                elif e in ad.edges:
                    # network / broadcast address picked explicitly: lies in the network; either outcome
                    if exc is None:
                        exp.create(e, actor)
                else:
                    if exc is not None:
                        self._unexpected_exc(op, exc)
                    if ret != e:
                        self.violate('picked-ip-not-returned', 'alloc(%s, picked %s) returned %r' % (actor, e, ret))
                    exp.create(e, actor)
            else:
                cur = pre.get(e)
                if cur is None:
                    if exc is not None:
                        self._unexpected_exc(op, exc)
                    exp.create(e, actor)
                elif cur == actor:
                    self.ctx.count('repeated_create_by_holder')
                    if exc is not None:
                        if self.kind == 'rule' or not isinstance(exc, OSError):
                            self._unexpected_exc(op, exc)
                        self.ctx.count('repeated_create_by_holder_raised')
                else:
                    self.flags.add('conflict')
                    self.ctx.count('create_conflicts')
                    if cur in pre_alive:
                        self.ctx.count('create_conflicts_holder_is_%s' % self.owner_form(cur))
                        if self.kind == 'rule' and exc is None:
                            self.violate('conflicting-create-did-not-raise',
                                         'create_rule(%s) by %s returned normally; held by live %s' % (e, actor, cur))
                        if exc is not None and not isinstance(exc, OSError):
                            self._unexpected_exc(op, exc)
                    else:
                        # the holder's owner path is gone: keeping it (until collected) or taking it over both
                        # leave at most one live owner
                        if exc is None and post.get(e) == actor:
                            exp.tab[e] = actor
        elif k == 'release':
            if exc is not None:
                self._unexpected_exc(op, exc)
            cur = pre.get(op['e'])
            if cur is None:
                self.ctx.count('release_of_free_entry')
            elif cur == actor:
                self.ctx.count('release_by_owner')
            else:
                self.flags.add('nonowner-release')
                self.ctx.count('release_by_nonowner')
            exp.release(op['e'], actor)
        elif k == 'release_all':
            if exc is not None:
                self._unexpected_exc(op, exc)
            for n, f in ad.specs.items():
                if f[0] == op['app'] and op.get('proto') in (None, f[1]) and op.get('endpoint') in (None, f[2]):
                    if pre.get(n) not in (None, actor):
                        self.flags.add('nonowner-release')
                        self.ctx.count('release_by_nonowner')
                    exp.release(n, actor)
        elif k == 'gc':
            if exc is not None:
                self._unexpected_exc(op, exc)
            dead = [n for n, o in pre.items() if o != model.FILE and o not in pre_alive]
            kept = [n for n, o in pre.items() if o in pre_alive]
            if dead:
                self.ctx.count('gc_with_dead_owner_entries')
            if dead and kept:
                self.flags.add('gc-mixed')
                self.ctx.count('gc_mixed')
            if self.kind == 'rule' and any(n in ad.offpattern for n in dead):
                self.ctx.count('rule_gc_dead_owner_site_chain')
            exp.collect(pre_alive | {model.FILE})
        elif k == 'reset':
            if exc is not None:
                self._unexpected_exc(op, exc)
            if self.kind == 'vip':
                pool = ad.other_hosts if op.get('pool') == 'other' else (ad.hosts + ad.edges)
                for n in pool:
                    exp.tab.pop(n, None)
            else:
                exp.tab.clear()
        elif k == 'read':
            if exc is not None:
                self._unexpected_exc(op, exc)
            if self.kind == 'vip':
                want = sorted([n, o] for n, o in pre.items() if o != model.FILE)
                got = sorted([a, b] for a, b in ret)
            elif self.kind == 'rule':
                want = sorted(n for n, o in pre.items() if o != model.FILE and ad.readable(n))
                got = sorted(n for n in ret if ad.readable(n))
            else:
                want = sorted(n for n, o in pre.items() if o != model.FILE)
                got = sorted(ret)
            if want != got:
                self.violate('read-differs-from-table', '%s returned %s, table is %s' % (ad.fn(op), got, want))
        self.compare(op, exp.tab, post, pre, actor)
        if self.ref.tab != post:
            # the operation matched the reference model but changed the directory through calls the monitor does
            # not see (not the observed os.symlink/unlink/rename of the module): the directory is the truth
            self.ctx.count('monitor_resynced_from_directory')
            self.ref.tab = dict(post)

    def compare(self, op, want, post, pre, actor):
        if want == post:
            return
        k = op['op']
        for n in sorted(set(want) | set(post)):
            w, g = want.get(n), post.get(n)
            if w == g:
                continue
            wit = dict(entry=n, expected_owner=w, found_owner=g, op=op)
            if g is None:
                mech = {'gc': 'gc-removed-live-owner-entry', 'release': 'release-removed-entry-of-other-owner',
                        'release_all': 'release-removed-entry-of-other-owner'}.get(k, 'entry-lost-in-' + k)
            elif w is None:
                mech = {'gc': 'gc-left-dead-owner-entry', 'release': 'owner-release-left-entry',
                        'release_all': 'owner-release-left-entry'}.get(k, 'unexpected-entry-after-' + k)
            else:
                mech = 'held-entry-rebound-by-' + k
            self.violate(mech, 'after %s: entry %s expected owner %r, directory has %r' % (
                {kk: v for kk, v in op.items() if kk != 'fp'}, n, w, g), witness=wit)

    # -- other actors ran inside the operation ----------------------------
    def check_interleaved(self, op, octx, pre, pre_alive, ret, exc, post):
        k = op['op']
        ad = self.ad
        actor = octx.actor
        if self.ref.tab != post:
            # every single link creation/removal was checked when it happened; this is a change the
            # monitor did not see at all
            self.compare(op, self.ref.tab, post, pre, actor)
        if k == 'create':
            e = op['e']
            if exc is None:
                got = ret if (self.kind == 'vip') else e
                if self.kind == 'vip' and e is None and got not in ad.hosts:
                    self.violate('allocated-ip-not-a-host-address', 'alloc(%s) returned %r' % (actor, got))
                if got not in octx.bound and got not in octx.own_seen:
                    self.violate('create-returned-without-holding',
                                 '%s returned %r to %s but never bound it (holder %s)' % (
                                     ad.fn(op), got, actor, post.get(got)))
                self.ctx.count('interleaved_create_ok')
            else:
                tried = set(octx.refused)
                need = set(ad.hosts) if (self.kind == 'vip' and e is None) else {e}
                if self.kind == 'vip' and e == ad.outside:
                    need = set()
                if not need <= tried and not (self.kind == 'vip' and e in ad.edges):
                    self._unexpected_exc(op, exc)
                self.ctx.count('interleaved_create_refused')
        elif k in ('release', 'release_all'):
            if exc is not None:
                self._unexpected_exc(op, exc)
            if k == 'release' and post.get(op['e']) == actor and op['e'] not in octx.touched:
                self.violate('owner-release-left-entry', '%s still holds %s after its release' % (actor, op['e']))
        elif k == 'gc':
            if exc is not None:
                self._unexpected_exc(op, exc)
            for n, o in pre.items():
                if o != model.FILE and o not in pre_alive and n not in octx.touched and post.get(n) == o:
                    self.violate('gc-left-dead-owner-entry',
                                 'garbage_collect left %s of dead owner %s (untouched by the other actors)' % (n, o))
            self.ctx.count('interleaved_gc')

    # -- generation -------------------------------------------------------
    def gen_fp(self, k):
        rng = self.rng
        fps = []
        if k == 'gc' and rng.random() < 0.3:
            # the collector's look at one entry is answered with a transient error
            return [dict(by='call', call=rng.choice(['stat', 'stat', 'lstat', 'readlink']), phase='before',
                         nth=rng.choice([0, 0, 1, 2, 3]), prog='io-error')]
        for _ in range(1 if rng.random() < 0.75 else 2):
            prog = rng.choice(PROGRAMS)
            if rng.random() < 0.7:
                fps.append(dict(by='call', call=rng.choice(FP_CALLS[k]), phase=rng.choice(['before', 'after']),
                                nth=rng.choice([0, 0, 0, 1, 1, 2, 3]), prog=prog))
            else:
                fps.append(dict(by='point', k=rng.choice([0, 1, 2, 3, 4, 5, 6, 8, 10, 13]), prog=prog))
        return fps

    def gen_op(self, i, n):
        rng = self.rng
        ad = self.ad
        tab = self.ref.tab
        if i % 12 == 0:
            self.create_bias = rng.choice([0.85, 0.6, 0.3, 0.15])
        r = rng.random()
        if (not self.alive) or (self.unborn and (r < 0.08 or i < 3)):
            if self.unborn:
                return dict(op='appear', o=self.unborn[0])
        if r < 0.14 and len(self.alive) > 1:
            return dict(op='die', o=rng.choice(sorted(self.alive)))
        actors = sorted(self.alive)
        if self.dead and rng.random() < 0.12:
            actors = sorted(self.dead)          # a disappeared owner still issues operations
        if not actors:
            actors = sorted(self.alive) or sorted(self.dead)
        o = rng.choice(actors)
        r = rng.random()
        held = [n for n in sorted(tab) if tab[n] != model.FILE]
        if r < 0.10:
            op = dict(op='gc')
            if self.kind == 'rule' and rng.random() < 0.3:
                op['wd'] = True
        elif r < 0.14:
            op = dict(op='read')
        elif r < 0.15 and i > n // 2:
            op = dict(op='reset')
            if self.kind == 'vip' and ad.other and rng.random() < 0.5:
                op['pool'] = 'other'
        elif rng.random() < self.create_bias or (not held and rng.random() < 0.8):
            if self.kind == 'vip':
                rr = rng.random()
                if rr < 0.7:
                    e = None
                elif rr < 0.8 and held:
                    e = rng.choice(held)
                elif rr < 0.84:
                    e = ad.outside
                elif rr < 0.87:
                    e = rng.choice(ad.edges)
                else:
                    e = rng.choice(ad.names)
            else:
                cands = [n for n in ad.names if self._creatable(o, n)]
                if not cands:
                    return dict(op='gc')
                e = rng.choice(cands)
            op = dict(op='create', o=o, e=e)
        else:
            rr = rng.random()
            mine = [n for n in held if tab[n] == o]
            if self.kind == 'spec' and rr < 0.25:
                f = ad.specs[rng.choice(ad.names)]
                op = dict(op='release_all', o=o, app=f[0] if rng.random() < 0.3 else ad.appname[o])
                if rng.random() < 0.4:
                    op['proto'] = f[1]
                if rng.random() < 0.4:
                    op['endpoint'] = f[2]
            else:
                if mine and rr < 0.65:
                    e = rng.choice(mine)
                elif held and rr < 0.92:
                    e = rng.choice(held)
                else:
                    e = rng.choice(ad.names)
                op = dict(op='release', o=o, e=e)
                if self.kind == 'spec' and rng.random() < 0.5:
                    op['as_path'] = True
        if self.with_fp and op['op'] in FP_CALLS and rng.random() < 0.45:
            op['fp'] = self.gen_fp(op['op'])
        return op

    def run(self, n_ops):
        osproxy.PROXY.set_sink(self)
        try:
            for i in range(n_ops):
                op = self.gen_op(i, n_ops)
                self.run_op(op)
        except CaseEnd:
            self.flags.add('violation')
        finally:
            osproxy.PROXY.set_sink(None)

    def nontrivial(self):
        f = self.flags
        return ('conflict' in f and ('nonowner-release' in f or 'gc-mixed' in f)) or \
            'exhausted-and-back' in f or 'interleaved' in f
