"""C06 - the scheduling queue orders instances by rank, reservation, priority."""
from ._sched_common import LEVEL, ASSUMPTIONS, BUDGET, make_run

RULE = ('history generator of C01 with allocation trees of depth up to 4 per partition (reservations, ranks 0-120, '
        'rank adjustments <= rank, utilisation caps None/0/0.5/1/1.5/2/100), instances with priorities 0-100 (0 and '
        'ties over-represented), zero and equal demands, running/pending mix produced by the history itself; the queue '
        'handed to Cell._find_placements is captured per partition and checked by independent arithmetic: permutation '
        'of the partition\'s instances, final_rank non-decreasing, per-allocation order (-priority, running first, '
        'arrival), priority-0 last within a rank, rank in {alloc rank, boosted}, cumulative demand strictly within '
        'reservation => boosted, cumulative demand before already >= reservation in a dimension => not boosted, '
        'beyond cap => unplaced rank and not placed. Every 8th case runs the real Master.run_loop() on two threads '
        '(vf/master/realloop.py, see C09) with priorities changed by the operator at the joints of the start-up sequence, '
        'while the master is busy with a batch of events, and across a second master (one Master-level history per shard submits more than a thousand instances at once: one listing of /scheduled names them all): at idle the priority the master '
        'queues an instance with is the one its manifest carries. Non-trivial: a cycle whose queue has >= 2 distinct ranks and '
        'both running and pending instances.')
REQUIRED_REACH = {'*': ['evictions', 'real_loop_cases', 'real_loop_second_master_started', 'instances_submitted_in_one_burst']}


def _tweak(pf, rng):
    pf.alloc_depth = rng.choice([2, 3, 4])
    pf.weights = {'add_app': 18, 'prio': 8, 'alloc_update': 8, 'move_app': 5}
    pf.partitions = rng.choice([1, 2])


run = make_run(['C06'], _tweak)
