"""C10 - a master crash at any write never leaves an instance placed twice."""
from .. import env
from ..master import crash, drv as mdrv, engine as mengine

LEVEL = 'fault_enumeration'
RULE = ('Master-level histories as in C09; during every init_schedule() and reschedule() of every history the fake '
        'ZooKeeper forks the process before EACH mutating call of the master (and once after the last): the child is '
        'the world where the master died there - it checks that no instance is stored under two servers, starts a new '
        'Master on the stored state (load_model, init_schedule), evaluates the C09 oracle and runs the master\'s own '
        'check_placement_integrity(). Every write of every publication step is a crash point (no sampling inside a '
        'cycle). Before 30 % of the ZooKeeper requests of an operator command (masterapi calls are several requests) a side '
        'world is forked in which the master handles what its watches have for it and publishes a whole cycle while the '
        'command stands half-way; before each write of that publication the store must not hold an instance under two '
        'servers that are both still in /servers (a record under a server whose node is already gone belongs to a delete_server '
        'in flight, which wipes it next). Non-trivial: a cut at a /placement/<server>/<instance> write inside a cycle that both deleted and '
        'created entries; distinct by (history, cycle, write index).')
ASSUMPTIONS = ['in-memory ZooKeeper fake; a crash is modelled as: no further operation of the old master session is applied',
               'fork()ed children (copy-on-write snapshot of the fake and the harness); children disarm inherited hooks',
               'virtual clock']
BUDGET = {'quick': (26, 60.0), 'thorough': (130, 300.0)}
REQUIRED_REACH = {'*': ['cuts', 'cuts_inside_delete_create_cycle', 'master_restarts', 'cycles_between_operator_writes_with_events_and_writes']}


def run(ctx):
    for idx, rng in ctx.cases():
        pf = mdrv.MProfile(n_steps=(6, 14), restart_every=0.2, p_read_fault=(0.5, 0.1))
        h = mengine.MHistory(ctx, rng, pf, ['C09'])
        h.d.cutter = crash.CutSession(h, ctx)
        # C09-level violations of the un-crashed run are C09's business
        try:
            h.run()
        finally:
            env.VClock.uninstall()
        h.absorb_counters()
        ctx.violations[:] = [v for v in ctx.violations if not v['mechanism'].startswith(('stale-', 'missing-entry', 'entry-under'))
                             or ':cut-in-' in v['mechanism']]
        summ = h.summary()
        ctx.count('master_histories')
        ctx.count('master_cycles', h.cycles)
        ctx.done(case_desc=None, nontrivial=False, evals=0,
                 sample=dict(history=idx, cycles=h.cycles, ops=summ['ops']) if idx == 0 else None)
        ctx.evaluations = ctx.counters['cuts']
