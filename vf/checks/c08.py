"""C08 - data retention, frozen servers, blacklisting."""
from ._sched_common import LEVEL, ASSUMPTIONS, BUDGET, make_run

RULE = ('history generator of C01 biased to down/up/frozen transitions, blacklisting and clock steps landing just '
        'before / after down_since + retention; oracle per cycle from the harness log: on a down server an instance '
        'stays while t < since+retention and leaves once t >= since+retention (None = 0), never a victim; a frozen '
        'server keeps unmarked instances and receives none; blacklisted instances are unplaced. Non-trivial: a '
        'cycle with a non-up server holding instances while others are pending, or an expiry.')
REQUIRED_REACH = {'*': ['down_retained', 'down_expired', 'frozen_kept', 'evictions']}


def _tweak(pf, rng):
    pf.weights = {'down': 9, 'up': 5, 'freeze': 5, 'clock': 10, 'blacklist': 4}


run = make_run(['C08'], _tweak)
