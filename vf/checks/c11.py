"""C11 - a restarted master reloads exactly the placement that was published."""
from .. import env
from ..master import crash, drv as mdrv, engine as mengine

LEVEL = 'exploration'
RULE = ('Master-level histories as in C09; after EVERY completed cycle a forked child starts a new Master on the stored '
        'state and stops after load_model(). Reference computed from the stored state and the harness record only: '
        'entries of unscheduled instances are ignored; a server is healthy iff its presence node exists with ctime <= '
        'the ctime of every entry under it and the recorded instances together fit its declared capacity, partition, '
        'traits and server-level affinity limit. Oracle: every entry under a healthy server is placed there with the '
        'recorded identity and expires and was there in the old master; nothing is placed without a record. '
        'Every third history also starts a standby master the way the service does - Master.run(), queued on the '
        'election lock the leader holds - at the beginning and lets it take over at the end (the leader\'s session ends); '
        'the same oracle runs on its model when it reaches init_schedule. '
        'Non-trivial: a stored state with a down server holding entries, a lease/schedule-once/identity-holding entry '
        'or a server restarted since placement; distinct by (history, cycle).')
ASSUMPTIONS = ['in-memory ZooKeeper fake (ctime from the virtual clock)', 'fork()ed children', 'virtual clock']
BUDGET = {'quick': (25, 40.0), 'thorough': (400, 300.0)}
REQUIRED_REACH = {'*': ['restarts_compared', 'healthy_entries', 'unhealthy_restarted-since-placed', 'state_down_with_apps']}


def run(ctx):
    def hook(h, when):
        res = crash.in_child(lambda: crash.restart_and_compare(h))
        ctx.count('restarts_compared')
        if res is None or 'harness_error' in res:
            ctx.count('child_error')
            if res:
                ctx.notes.append(res['harness_error'] + res.get('tb', ''))
            return
        ctx.count('healthy_entries', res['healthy_entries'])
        for why, n in res['unhealthy'].items():
            ctx.count('unhealthy_%s' % why, n)
        fl = res['flags']
        for k, v in fl.items():
            if v:
                ctx.count('state_' + k)
        nt = any(fl.values()) and res['healthy_entries'] > 0
        ctx.done(case_desc=(ctx.shard, ctx.case_index, h.cycles), nontrivial=nt,
                 sample=dict(history=ctx.case_index, cycle=h.cycles, flags=fl, healthy_entries=res['healthy_entries'],
                             unhealthy=res['unhealthy']) if nt and h.cycles == 5 else None)
        for mech, msg in res['violations']:
            ctx.violation(mech, msg, case=dict(ops=h.d.ops[-40:], cycle=h.cycles, when=when))

    for idx, rng in ctx.cases():
        pf = mdrv.MProfile(weights={'partition_schedule': 4, 'bucket_reparent': 2})
        if idx % 3 == 1:
            # a standby master queues for the election lock at the start (Master.run) and takes over at the end
            pf.standby, pf.p_restart = True, 0.0
        h = mengine.MHistory(ctx, rng, pf, [])
        h.hooks.append(hook)
        try:
            h.run()
        finally:
            env.VClock.uninstall()
        h.absorb_counters()
        ctx.count('master_histories')
