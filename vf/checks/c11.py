"""C11 - a restarted master reloads exactly the placement that was published."""
from .. import env
from ..master import crash, drv as mdrv, engine as mengine

LEVEL = 'exploration'
RULE = ('Master-level histories as in C09; after EVERY completed cycle a forked child starts a new Master on the stored '
        'state and stops after load_model(). Reference computed from the stored state and the harness record only: '
        'entries of unscheduled instances are ignored; a server is healthy iff its presence node exists with ctime <= '
        'the ctime of every entry under it and the recorded instances together fit its declared capacity, partition, '
        'traits and server-level affinity limit. Oracle: every entry under a healthy server is placed there with the '
        'recorded identity and expires and was there in the old master; nothing is placed without a record. '
        'Every third history also starts a standby master the way the service does - Master.run(), queued on the '
        'election lock the leader holds - at the beginning and lets it take over at the end (the leader\'s session ends); '
        'the same oracle runs on its model when it reaches init_schedule. '
        'Non-trivial: a stored state with a down server holding entries, a lease/schedule-once/identity-holding entry '
        'or a server restarted since placement; distinct by (history, cycle).')
ASSUMPTIONS = ['in-memory ZooKeeper fake (ctime from the virtual clock)', 'fork()ed children', 'virtual clock']
BUDGET = {'quick': (25, 40.0), 'thorough': (400, 300.0)}
REQUIRED_REACH = {'*': ['restarts_compared', 'healthy_entries', 'unhealthy_restarted-since-placed', 'state_down_with_apps', 'failovers_right_after_a_pod_left_the_cell']}


def detached_pod_failover(h, ctx, rng, report):
    """The last thing that happens in the history: an operator takes a pod out of the cell (masterapi.cell_remove_bucket)
    and the master fails over before it has handled the event.  Nothing about the pod's servers changed - they are
    present, were not restarted, offer what is recorded on them - so the successor's model places what is recorded
    under them exactly as before (the reference is taken from the store right before the operator's command)."""
    d = h.d
    pods = sorted(b for b, hb in d.H.buckets.items() if hb['level'] == 'pod' and b in d.Z.get('cell_members', ()))
    if len(pods) < 2:
        return
    d.settle_delivery()
    d.sync_H()

    def top(s):
        t = d.Z['servers'][s]['parent']
        while d.H.buckets.get(t, {}).get('parent'):
            t = d.H.buckets[t]['parent']
        return t
    hosting = sorted({top(s) for s in d.Z['servers'] if d.srv.children(d.z.path.placement(s))} & set(pods))
    pod = rng.choice(hosting or pods)
    ref = crash.reference_from_store(d)
    old = d.snapshot_model()
    d.interleaving = True           # the old master never gets to the event
    try:
        d.api.cell_remove_bucket(d.admin, pod)
    finally:
        d.interleaving = False
    d.ops.append(('bucket_remove_then_failover', pod))
    ctx.count('failovers_right_after_a_pod_left_the_cell')
    if pod in hosting:
        ctx.count('failovers_right_after_a_hosting_pod_left_the_cell')
    h.cycles += 1
    report(h, 'failover-after-pod-left-cell', lambda: crash.restart_and_compare(h, ref=ref, old=old))


def run(ctx):
    def hook(h, when, body=None):
        if body is not None:
            res = crash.in_child(body)
        else:
            res = None
        if body is None:
            # 1 fail-over in 4: the successor's host clock is behind the predecessor's (20 s ... 2 h)
            h.successor_clock_behind = ctx.case_rng(ctx.case_index, 'skew%d' % h.cycles).choice([0, 0, 0, 0, 0, 0, 20, 1500, 7200])
            if h.successor_clock_behind:
                ctx.count('failovers_to_a_host_whose_clock_is_behind')
            # 1 fail-over in 6: one placement record is removed by another writer between the successor's listing and its read
            h.record_vanishes_at = ctx.case_rng(ctx.case_index, 'vanish%d' % h.cycles).choice([0, 0, 0, 0, 0, 1, 2, 3, 5])
            if h.record_vanishes_at:
                ctx.count('failovers_with_a_record_removed_between_listing_and_read')
            res = crash.in_child(lambda: crash.restart_and_compare(h))
            h.successor_clock_behind = 0
            h.record_vanishes_at = 0
        ctx.count('restarts_compared')
        if res is None or 'harness_error' in res:
            ctx.count('child_error')
            if res:
                ctx.notes.append(res['harness_error'] + res.get('tb', ''))
            return
        ctx.count('healthy_entries', res['healthy_entries'])
        for why, n in res['unhealthy'].items():
            ctx.count('unhealthy_%s' % why, n)
        fl = res['flags']
        for k, v in fl.items():
            if v:
                ctx.count('state_' + k)
        nt = any(fl.values()) and res['healthy_entries'] > 0
        ctx.done(case_desc=(ctx.shard, ctx.case_index, h.cycles), nontrivial=nt,
                 sample=dict(history=ctx.case_index, cycle=h.cycles, flags=fl, healthy_entries=res['healthy_entries'],
                             unhealthy=res['unhealthy']) if nt and h.cycles == 5 else None)
        for mech, msg in res['violations']:
            ctx.violation(mech, msg, case=dict(ops=h.d.ops[-40:], cycle=h.cycles, when=when))

    for idx, rng in ctx.cases():
        pf = mdrv.MProfile(weights={'partition_schedule': 4, 'bucket_reparent': 2})
        if idx % 3 == 1:
            # a standby master queues for the election lock at the start (Master.run) and takes over at the end
            pf.standby, pf.p_restart = True, 0.0
            pf.p_read_fault = (0, 0)        # (the leader holds the election lock for the whole history)
        h = mengine.MHistory(ctx, rng, pf, [])
        h.hooks.append(hook)
        try:
            h.run()
            if not h.aborted and not getattr(pf, 'standby', False) and h.d.depth == 2 and h.d.master is not None \
                    and not getattr(h.d, 'master_died', None) and rng.random() < 0.6:
                detached_pod_failover(h, ctx, rng, hook)
        finally:
            env.VClock.uninstall()
        h.absorb_counters()
        ctx.count('master_histories')
