"""C13 - a container is running or in cleanup, never both, and follows the cache."""
import os

from ..node import c13_engine as engine

LEVEL = 'exploration'
RULE = ('random interleavings (8-30 operations quick, 12-56 thorough, 1-4 instances with boundary names) of: cache '
        'files written/unlinked the way EventMgr does (temp dot file + rename, unlink; the same instance evicted and '
        'placed again = new inode/ctime = new generation; refresh-by-rename while not ready; manifests the node '
        'cannot configure), readiness flips by the real EventMgr._cache_notify, delivery of the pending inotify '
        'events one at a time to the real AppCfgMgr handlers, containers ending on their own (real '
        'MonitorContainerDown with exit status 1, 0 / no signal = the service ran to completion, or killed by a signal; flag_aborted, oom flag, SIGABRT, SIGKILL of the container = nothing recorded), a node start soon after a container ended (its clean-up has not run, the instance is still placed here), the node monitor handing the NEXT container of an instance over while the clean-up job of the previous one is between its two steps (container directory removed, cleanup link not yet unlinked; real Monitor.run inside the real Cleanup.invoke), tombstone files left in tombstones/running by the '
        'supervisor for ended and for terminated containers at arbitrary later points, the real node monitor '
        '(treadmill.monitor.Monitor.run with MonitorContainerCleanup) as a restartable actor that re-reads the '
        'tombstone directory at every start, s6 control commands (svscan/svc) failing with CalledProcessError at '
        'scripted points in the monitor actions and in AppCfgMgr._refresh_supervisor (= the manager dies and is '
        'restarted), cleanup completing (real Cleanup.invoke) at arbitrary later points - or interrupted half-way (the removal fails after some files, the records that the container ended survive; the job is retried later) -, a cache entry unlinked by the event manager between the listing of the cache and the look at the entry inside a synchronisation (the manager dies on the vanished file and is restarted), the node monitor getting the CPU between two file-system looks of one synchronisation (the container of a cached instance ended while the manager was inactive; right before the k-th os.path.exists / islink / readlink of AppCfgMgr._synchronize the real Monitor.run executes its tombstone - the atomic rename running/<instance> -> cleanup/<instance>; the ended container is to be in cleanup and nowhere else afterwards), an instance placed right after the cache became ready whose own created event arrives only after its container ended and was handed to cleanup, manager restarts and node '
        'starts; the real appcfg.configure runs '
        'for every container. After every handler call and every actor step the listing of running/, cleanup/, '
        'apps/ (+ exitinfo|aborted|oom flags) and cache/ is evaluated: I1 <= 1 link per container, I3 finished or '
        'cleaned containers never gain a running link (finished = a flag on disk, or the real MonitorContainerDown ran for the container, or the environment ended it without any record - the last one only until the next node start), I4 unfinished running container with unchanged cache '
        'generation keeps its link across a handler, a manager crash and a monitor run, I5 handled delete => handed '
        'to cleanup, I2 after each '
        'idle->active synchronisation running links == configurable cached generations and stale generations are in '
        'cleanup. Generations are identified by a marker inside the manifest, not by the repository\'s naming '
        'functions. Non-trivial: a synchronisation ran while container directories existed, or two generations of '
        'one instance coexisted, or a container ended on its own; distinct by operation list.')
ASSUMPTIONS = [
    'runtime.get_runtime_cls -> LinuxRuntime (no entry points registered); runtime.get_runtime -> object whose '
    'finish() removes the container directory (kernel teardown is the boundary)',
    'subproc.resolve, supervisor.control_svscan, supervisor.control_service (s6) are no-op fakes; os.fsync is a no-op '
    '(durability barrier, no crash cuts in this check)',
    'AppCfgMgr.run() loop replaced by the driver calling DirWatcher.process_events(max_events=1) on a real inotify '
    'watcher; restart = new AppCfgMgr + new watcher (pending events lost)',
    'cache files are written by the harness with the same calls EventMgr._cache/_synchronize use (fs.write_safe '
    'with dot prefix, os.unlink); refresh-by-rename only while .ready is absent',
    'a manifest that cannot be configured = one asking for a feature the node does not offer (features: [docker])',
    'plugin_manager.load(treadmill.tombstones, container-cleanup) -> MonitorContainerCleanup (no entry points); the '
    'monitor config is the tombstones/running line of bootstrap/node/linux/init/monitor.yml',
    'the supervisor boundary (s6 finish script) is the driver touching tombstones/running/<instance>,<t>,<rc>,<sig> '
    'once per container whose supervised process died (ended on its own, or taken out of running/ by the manager)',
    'Monitor.run() is the real loop: _configure runs at the first entry of a monitor life only (wrapper returns '
    'early afterwards) and the loop is left through wait_for_events raising when nothing is pending',
    'a CalledProcessError of an armed s6 failure escaping an AppCfgMgr handler is the manager process dying: I1/I3/I4 '
    'are evaluated on the state it leaves, then a new manager starts (idle)',
    '40% "tidy" histories (prompt events and monitor, old containers cleaned before a synchronisation, s6 failures '
    'only inside the monitor) keep long runs free of the stale-event races',
    'node start = run_real.sh emptying running/ and cleanup/, .ready removed, new manager',
    'container ids derive from the real st_ctime/st_ino of the cache file, so the set order inside _synchronize '
    'varies with PYTHONHASHSEED and between runs; both orders are reached statistically, a replay may take the '
    'other order',
    'the `os` global of treadmill.appcfgmgr is a forwarding proxy: every call reaches the real os; exists / lexists / '
    'islink / isdir / isfile / readlink / stat / lstat / listdir made inside _synchronize are counted and, when armed, the '
    'node monitor (real Monitor.run until idle) runs right before the k-th of them',
    'observers (call-through wrappers) on AppCfgMgr handlers and fs.symlink_safe/fs.replace name the code path in '
    'mechanism keys only; verdicts come from the directory listing',
]
BUDGET = {'quick': (400, 30.0), 'thorough': (6000, 270.0)}
HASHSEEDS = [0, 1, 2, 3, 4, 5, 6, 7]
REQUIRED_REACH = {'*': ['running_containers_checked_against_released_name_formula', 
    'syncs_with_containers', 'manager_restarts', 'node_starts', 'observations_two_generations_coexist',
    'placed_again_while_old_generation_exists', 'self_finish', 'cleanups_completed',
    'tombstones_written_ended_container', 'tombstones_written_terminated_container', 'tombstones_executed',
    'monitor_runs', 'monitor_restarts', 'monitor_restarts_with_tombstones_left', 's6_failures_in_monitor_svscan',
    'manager_crashes_on_s6_failure', 'i4_monitor_step_evaluations',
    'events_created', 'events_deleted', 'stale_deleted_events', 'cache_put_unconfigurable',
    'i1_container_evaluations', 'i2_new_generation_evaluations', 'i2_existing_generation_evaluations',
    'i2_idle_container_evaluations', 'i2_finished_generation_evaluations', 'i2_stale_container_evaluations',
    'i2_unconfigurable_evaluations', 'i4_unchanged_running_evaluations', 'i5_deleted_evaluations',
    'midsync_container_handed_to_cleanup_inside_synchronisation',
    'midsync_handover_right_before_a_look_at_its_running_link',
    'self_finish_exitinfo0', 'self_finish_killed', 'i2_finished_unlinked_generation_evaluations_service_ran_to_completion',
    'i2_finished_unlinked_generation_evaluations_oom', 'i2_finished_unlinked_generation_evaluations_aborted',
    'cleanup_race_next_generation_handed_over_between_finish_and_unlink',
]}

_MAX_SHRINKS = 3
_SHRINK_S = {'quick': 2.5, 'thorough': 10.0}


def _known_mechanisms():
    from .. import rt
    return rt.load_known()


def run(ctx):
    from .. import rt
    known = _known_mechanisms()
    shrunk = set()
    from ..node import c13_drv
    for idx, rng in ctx.cases():
        c13_drv.ROOT_VIA_SYMLINK = idx % 4 == 1
        c13_drv.RELATIVE_LINKS = idx % 4 == 2
        if c13_drv.ROOT_VIA_SYMLINK:
            ctx.count('cases_root_via_symlink')
        gen = engine.Gen(rng, ctx.tier)
        run_ = engine.Run()
        ops = []
        ok = True
        try:
            plan = gen.opening()
            steps = 0
            while ok:
                for op in plan:
                    ops.append(op)
                    ok = run_.apply(op)
                    if not ok:
                        break
                if not ok:
                    break
                steps += 1
                if steps > gen.length:
                    break
                plan = gen.closing() if steps == gen.length else gen.next_op(run_.node)
            reach = run_.merged_reach()
            flags = sorted(run_.flags)
            violations = list(run_.violations)
        finally:
            run_.close()
        for k, v in reach.items():
            ctx.count(k, v)
        if getattr(gen, 'planned_late_replace', 0):
            ctx.count('late_created_event_meets_next_generation', gen.planned_late_replace)
        ctx.count('cases_hashseed_%s' % (ctx.hashseed or 'unset'))
        ctx.count('cases_tidy' if gen.tidy else 'cases_hostile')
        ctx.count('operations_applied', len(ops))
        if violations:
            ctx.count('cases_tidy_violating' if gen.tidy else 'cases_hostile_violating')
        seen = set()
        for mech, msg, witness in violations:
            if mech in seen:
                continue
            seen.add(mech)
            case_ops = ops
            if (mech not in shrunk and len(shrunk) < _MAX_SHRINKS
                    and rt.match_known(known, ctx.pid, mech) is None):
                shrunk.add(mech)
                small, small_v = engine.shrink(ops, mech, _SHRINK_S[ctx.tier])
                if small_v is not None:
                    case_ops, (mech, msg, witness) = small, small_v
                    ctx.count('_shrunk_witnesses')
            ctx.violation(mech, msg, witness=witness, case={'ops': [list(o) for o in case_ops], 'tidy': gen.tidy})
        desc = [list(o) for o in ops]
        ctx.done(case_desc=desc, nontrivial=bool(flags),
                 sample={'ops': desc, 'facts': flags} if idx < 1 else None)
