"""C07 - a running instance is displaced only for an instance ahead of it."""
from ._sched_common import LEVEL, ASSUMPTIONS, BUDGET, make_run

RULE = ('history generator of C01 under capacity pressure; oracle per cycle: an instance on an up server at cycle '
        'start (not blacklisted / over cap / invalid identity / renewal requested / partition changed) that is not '
        'there afterwards must have some instance strictly ahead of it in the captured queue that gained a '
        'placement in this cycle. Non-trivial: history with at least one eviction.')
REQUIRED_REACH = {'*': ['evictions', 'put_restore']}


def _tweak(pf, rng):
    pf.weights = {'add_app': 16, 'prio': 6, 'regroup': 3, 'group': 4, 'valid_until': 5}
    pf.p_lease = 0.5
    pf.p_identity = 0.5


run = make_run(['C07'], _tweak)
