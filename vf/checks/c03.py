"""C03 - placements honour partition, traits, server state, lease lifetime."""
from ._sched_common import LEVEL, ASSUMPTIONS, BUDGET, make_run

RULE = ('same history generator as C01 with 2 partitions, trait bits on servers/instances/allocations, leases and '
        'reboot times (valid_until) near the clock, instances moved between allocations of different partitions; '
        'oracle A on every tuple of schedule() with a new server: up, right partition, traits, t+lease<valid_until; '
        'oracle B after every cycle on every placed instance: partition and traits (from the harness record). '
        'Non-trivial: history with an eviction, restore, renewal or a moved instance.')
REQUIRED_REACH = {'*': ['evictions', 'put_restore', 'renew_ok', 'reboot_requests_seen']}


def _tweak(pf, rng):
    pf.p_traits = 0.7
    pf.p_lease = 0.5
    pf.weights = {'move_app': 5, 'renew': 5, 'replace_server': 4, 'valid_until': 5}


run = make_run(['C03'], _tweak)
