"""C15 - state kept in names and directory entries round-trips losslessly."""
import copy
import os
import shutil
import string
import sys
import tempfile
import time
import traceback

from .. import env, zkfake

LEVEL = 'exploration'
RULE = ('seeded generators over the stated domains, each value pushed through the REAL codec pair and compared by an '
        'independent field-wise comparison (not only the codec\'s own __eq__): (a) firewall rules of the three kinds, '
        'wildcard/concrete addresses, ports 0/1/65535/random, chains \\w{2,32} -> RuleMgr._filenameify -> get_rule (and '
        'create_rule/get_rules on a temp dir); (b) instance names (proids/apps with dots, dashes, underscores, user@) and '
        'unique ids over [0,2^77) incl. boundaries -> _fmt_unique_name -> app_name/app_unique_id; gen_uniqueid through a '
        'patched os.stat; to_base_n/from_base_n; (c) every app and server trace event class with schema-valid field '
        'alphabets (separator "," excluded; ".", ":", "-", "#" included; why=None only where the master produces it) -> '
        'to_data -> from_data, and through trace.post_zk -> node name -> AppTraceLoop -> handler; (d) JSON-shaped dicts and '
        'lists -> zkutils.put/create/update -> get_with_metadata, also as a rewrite with check_content of a node that holds a '
        'neighbour of the value (leaves in another JSON type of equal numeric value true/1/1.0, one leaf or key changed, the '
        'same document, a legacy key order), compared type-exactly; (e) applications, cell allocations, partitions with any '
        'subset of optional fields, nested lists, up to 20 option-indexed items -> to_entry -> from_entry (idempotence and '
        'field-wise superset modulo documented defaults), create/get and update/get through the in-memory directory '
        '(apply(_diff_entries) == new under LDAP set semantics). Injectivity: a shard-wide registry encoding -> canonical '
        'value plus single-field mutation pairs. Non-trivial: the value contains a separator character of its encoding, a '
        'boundary number, an empty list or an omitted optional field; distinct by hash of the canonical value.')
ASSUMPTIONS = ['pure functions called directly; zkutils over the in-memory ZooKeeper; LDAP objects over the in-memory directory',
               'os.stat patched only for gen_uniqueid (to span the 77-bit space)',
               'field alphabets follow etc/schema/*.json; the node-name separator "," never occurs in a field']
BUDGET = {'quick': (2400, 30.0), 'thorough': (60000, 240.0)}
REQUIRED_REACH = {'*': ['rule_roundtrips', 'name_roundtrips', 'event_roundtrips', 'event_pipeline', 'zk_roundtrips',
                        'zk_rewrites_check_content', 'zk_rewrites_over_equal_valued_other_type', 'zk_rewrites_over_one_leaf_changed',
                        'zk_ensure_exists_over_another_object', 'zk_empty_collection_written_over_another_object',
                        'ldap_keyed_list_with_two_elements_of_one_key:app', 'ldap_keyed_list_with_two_elements_of_one_key:cell_alloc',
                        'ldap_roundtrips', 'ldap_update_checks', 'ldap_diff_checks', 'mutation_pairs', 'uniqueid_stat']}

ALNUM = string.ascii_letters + string.digits


def word(rng, alphabet, lo, hi):
    return ''.join(rng.choice(alphabet) for _ in range(rng.randint(lo, hi)))


class Registry:
    """encoding -> canonical value; a second distinct value is a collision."""

    def __init__(self, ctx):
        self.ctx = ctx
        self.maps = {}

    def add(self, family, encoding, canonical, case):
        m = self.maps.setdefault(family, {})
        key = repr(encoding)
        prev = m.get(key)
        if prev is None:
            m[key] = repr(canonical)
        elif prev != repr(canonical):
            self.ctx.violation('collision:' + family, 'distinct values %s and %s share the encoding %r' % (
                prev, repr(canonical), encoding), case=case)


# ---------------------------------------------------------------------------
# (a) rules
def gen_ip(rng):
    c = rng.randrange(6)
    if c == 0:
        return '0.0.0.0'
    if c == 1:
        return '255.255.255.255'
    return '.'.join(str(rng.choice([0, 1, 9, 10, 99, 100, 192, 255, rng.randint(0, 255)])) for _ in range(4))


def gen_port(rng, allow_any=True):
    c = rng.randrange(6)
    if c == 0 and allow_any:
        return 0
    if c == 1:
        return 1
    if c == 2:
        return 65535
    return rng.randint(1, 65535)


def gen_rule(rng):
    from treadmill import firewall
    chain = word(rng, ALNUM + '_', 2, rng.choice([2, 8, 32]))
    kind = rng.choice(['dnat', 'snat', 'passthrough'])
    if kind == 'passthrough':
        src, dst = gen_ip(rng), gen_ip(rng)
        return chain, firewall.PassThroughRule(src, dst), (chain, 'passthrough', src, dst)
    f = dict(proto=rng.choice(['tcp', 'udp']),
             src_ip=None if rng.random() < 0.4 else gen_ip(rng), src_port=gen_port(rng),
             dst_ip=None if rng.random() < 0.4 else gen_ip(rng), dst_port=gen_port(rng),
             new_ip=gen_ip(rng), new_port=gen_port(rng, allow_any=rng.random() < 0.1))
    cls = firewall.DNATRule if kind == 'dnat' else firewall.SNATRule
    rule = cls(proto=f['proto'], new_ip=f['new_ip'], new_port=f['new_port'],
               src_ip=f['src_ip'] if rng.random() < 0.5 or f['src_ip'] else firewall.ANY_IP,
               src_port=f['src_port'], dst_ip=f['dst_ip'], dst_port=f['dst_port'])
    canon = (chain, kind, f['proto'], f['src_ip'] or '*', f['src_port'], f['dst_ip'] or '*', f['dst_port'],
             f['new_ip'], f['new_port'])
    return chain, rule, canon


def rule_fields(chain, rule):
    from treadmill import firewall
    if isinstance(rule, firewall.PassThroughRule):
        return (chain, 'passthrough', rule.src_ip, rule.dst_ip)
    kind = 'dnat' if isinstance(rule, firewall.DNATRule) else 'snat'
    return (chain, kind, rule.proto, '*' if rule.src_ip == firewall.ANY_IP else rule.src_ip, rule.src_port,
            '*' if rule.dst_ip == firewall.ANY_IP else rule.dst_ip, rule.dst_port, rule.new_ip, rule.new_port)


def check_rules(ctx, rng, reg, tmp):
    from treadmill import firewall, rulefile
    chain, rule, canon = gen_rule(rng)
    case = dict(codec='rule', value=canon)
    name = rulefile.RuleMgr._filenameify(chain, rule)      # pylint: disable=protected-access
    got = rulefile.RuleMgr.get_rule(name)
    ctx.count('rule_roundtrips')
    if got is None:
        ctx.violation('rule:undecodable', '%r -> %r does not parse' % (canon, name), case=case)
    elif rule_fields(*got) != canon or got[1] != rule or got[0] != chain:
        ctx.violation('rule:roundtrip-differs:' + canon[1], '%r -> %r -> %r' % (canon, name, rule_fields(*got)), case=case)
    reg.add('rule', name, canon, case)
    # single-field mutation: the encodings must differ
    if canon[1] != 'passthrough':
        i = rng.randrange(2, 9)
        mut = list(canon)
        if i == 2:
            mut[i] = 'udp' if canon[2] == 'tcp' else 'tcp'
        elif i in (3, 5, 7):
            mut[i] = gen_ip(rng) if canon[i] == '*' or rng.random() < 0.7 or i == 7 else '*'
        else:
            mut[i] = (canon[i] + rng.choice([1, 7, 1000])) % 65536
        if tuple(mut) != canon:
            cls = firewall.DNATRule if canon[1] == 'dnat' else firewall.SNATRule
            r2 = cls(proto=mut[2], new_ip=mut[7], new_port=mut[8], src_ip=None if mut[3] == '*' else mut[3],
                     src_port=mut[4], dst_ip=None if mut[5] == '*' else mut[5], dst_port=mut[6])
            n2 = rulefile.RuleMgr._filenameify(chain, r2)       # pylint: disable=protected-access
            ctx.count('mutation_pairs')
            if n2 == name:
                ctx.violation('collision:rule:field-%d' % i, '%r and %r both encode as %r' % (canon, tuple(mut), name), case=case)
            reg.add('rule', n2, tuple(mut), case)
    if rng.random() < 0.08:
        # through a real RuleMgr on a temp dir
        rules_dir, owners = os.path.join(tmp, 'rules'), os.path.join(tmp, 'apps')
        for d in (rules_dir, owners):
            shutil.rmtree(d, ignore_errors=True)
            os.makedirs(d)
        os.makedirs(os.path.join(owners, 'own'))
        mgr = rulefile.RuleMgr(rules_dir, owners)
        mgr.create_rule(chain, rule, 'own')
        back = mgr.get_rules()
        ctx.count('rule_dir_roundtrips')
        if [rule_fields(*b) for b in back] != [canon]:
            ctx.violation('rule:directory-roundtrip-differs', '%r read back as %r' % (canon, [rule_fields(*b) for b in back]), case=case)
    return canon, ('*' in canon or 0 in canon or 65535 in canon or '_' in chain)


# ---------------------------------------------------------------------------
# (b) names
def gen_instance(rng):
    proid = word(rng, ALNUM + '_-', 2, rng.choice([2, 6, 20]))
    comps = [word(rng, ALNUM + '_-', 1, 8) for _ in range(rng.randint(1, 4))]
    name = '.'.join([proid] + comps)
    if rng.random() < 0.2:
        name = word(rng, ALNUM, 1, 6) + '@' + name
    return '%s#%010d' % (name, rng.choice([0, 1, 9999999999, rng.randrange(10 ** 10)]))


def check_names(ctx, rng, reg):
    from treadmill import appcfg, utils
    numerals = string.digits + string.ascii_lowercase + string.ascii_uppercase
    inst = gen_instance(rng)
    seed = rng.choice([0, 1, 61, 62, 2 ** 77 - 1, 2 ** 76, rng.getrandbits(77), rng.getrandbits(rng.randint(1, 77))])
    uid = '{:>013s}'.format(utils.to_base_n(seed, base=62, alphabet=numerals))
    case = dict(codec='unique-name', instance=inst, seed=seed)
    ctx.count('name_roundtrips')
    if utils.from_base_n(utils.to_base_n(seed, base=62, alphabet=numerals), base=62, alphabet=numerals) != seed:
        ctx.violation('base-n:roundtrip-differs', 'seed %d' % seed, case=case)
    b = rng.choice([2, 16, 36])
    alpha = numerals[:b]
    if utils.from_base_n(utils.to_base_n(seed, base=b, alphabet=alpha), base=b, alphabet=alpha) != seed:
        ctx.violation('base-n:roundtrip-differs', 'seed %d base %d' % (seed, b), case=case)
    if len(uid) != 13:
        ctx.violation('unique-id:length', 'seed %d -> %r' % (seed, uid), case=case)
    uname = appcfg._fmt_unique_name(inst, uid)      # pylint: disable=protected-access
    if appcfg.app_name(uname) != inst or appcfg.app_unique_id(uname) != uid:
        ctx.violation('unique-name:roundtrip-differs', '%r + %r -> %r -> %r + %r' % (
            inst, uid, uname, appcfg.app_name(uname), appcfg.app_unique_id(uname)), case=case)
    if len(uname.rsplit('-', 1)[1]) != 13:
        ctx.violation('unique-name:id-not-13-chars', uname, case=case)
    reg.add('unique-name', uname, (inst, uid), case)
    # gen_uniqueid over the 77-bit space through a patched os.stat
    ctime = rng.choice([0.0, 1.0, 1.5e9, 4e9, rng.random() * 4e9])
    ino = rng.choice([0, 1, 2 ** 64 - 1, rng.getrandbits(64), rng.getrandbits(20)])
    real_stat = os.stat

    class _St:
        st_ctime = ctime
        st_ino = ino

    os.stat = lambda *_a, **_k: _St()
    try:
        gid = appcfg.gen_uniqueid('/nonexistent/' + inst)
        # the unique name of an event file belongs to one generation of the file: the same instance placed again on
        # the node (same path, new inode / ctime) is another container
        path = '/nonexistent/cache/' + inst
        name1 = appcfg.eventfile_unique_name(path)

        class _St2:
            st_ctime = ctime + rng.choice([1.0, 0.5, 0.25])     # (the id keeps 13 bits of the microsecond clock: not a multiple of 8192 us)
            st_ino = (ino + rng.choice([0, 1, 12345])) % 2 ** 64
        os.stat = lambda *_a, **_k: _St2()
        name2 = appcfg.eventfile_unique_name(path)
        os.stat = lambda *_a, **_k: _St()
        name3 = appcfg.eventfile_unique_name(path)
    finally:
        os.stat = real_stat
    ctx.count('uniqueid_stat')
    if name1 == name2 or name3 != name1:
        ctx.violation('unique-name:two-generations-share-a-name' if name1 == name2 else 'unique-name:not-a-function-of-the-file',
                      '%s: generation (ctime %r, ino %d) -> %s, generation (ctime %r, ino %d) -> %s, first again -> %s' % (
                          inst, ctime, ino, name1, _St2.st_ctime, _St2.st_ino, name2, name3), case=case)
    instance_no = int(inst.rpartition('#')[2])
    expect = ((int(ctime * 10 ** 6) << 64) + ((ino ^ (instance_no << 31)) & (2 ** 64 - 1))) & (2 ** 77 - 1)
    if len(gid) != 13 or any(c not in numerals for c in gid) or utils.from_base_n(gid, base=62, alphabet=numerals) != expect:
        ctx.violation('gen-uniqueid:wrong', 'ctime %r ino %d instance %d -> %r (expected value %d)' % (ctime, ino, instance_no, gid, expect), case=case)
    return (inst, seed), ('-' in inst.split('#')[0] or '_' in inst or '@' in inst or seed in (0, 2 ** 77 - 1))


# ---------------------------------------------------------------------------
# (c) trace events
HOST = string.ascii_lowercase + string.digits + '.-'
WHY = ALNUM + '_:.-#'
SVC = ALNUM + '_.-'


def gen_event(rng):
    from treadmill.trace.app import events as ev
    inst = gen_instance(rng)
    host = word(rng, string.ascii_lowercase, 1, 1) + word(rng, HOST, 0, 12)
    uid = word(rng, ALNUM, 13, 13)
    kind = rng.choice(['scheduled', 'pending', 'pending_delete', 'configured', 'deleted', 'finished', 'aborted',
                       'killed', 'service_running', 'service_exited'])
    common = dict(timestamp=rng.choice([0.0, 1.5, 1500000000.123, round(rng.random() * 2e9, 3)]),
                  source=host, instanceid=inst,
                  payload=rng.choice([None, '', 'text', {'a': 1}]))
    if kind == 'scheduled':
        f = dict(where=host, why=rng.choice([None, '', 'evicted', 'monitor:created', 'a:b:c', word(rng, WHY, 0, 10), 'None']))
        e = ev.ScheduledTraceEvent(**f, **common)
    elif kind == 'pending':
        f = dict(why=rng.choice(['', 'created', 'monitor:created', word(rng, WHY, 0, 10)]))
        e = ev.PendingTraceEvent(**f, **common)
    elif kind == 'pending_delete':
        f = dict(why=rng.choice(['', 'deleted', 'monitor:deleted', word(rng, WHY, 0, 10)]))
        e = ev.PendingDeleteTraceEvent(**f, **common)
    elif kind == 'configured':
        f = dict(uniqueid=uid)
        e = ev.ConfiguredTraceEvent(**f, **common)
    elif kind == 'deleted':
        f = {}
        e = ev.DeletedTraceEvent(**common)
    elif kind == 'finished':
        f = dict(rc=rng.choice([0, 1, 255, rng.randint(0, 255)]), signal=rng.choice([0, 9, 15, rng.randint(0, 64)]))
        e = ev.FinishedTraceEvent(**f, **common)
    elif kind == 'aborted':
        f = dict(why=rng.choice(['unknown', 'scheduler', 'invalid_type', word(rng, WHY, 1, 10)]))
        e = ev.AbortedTraceEvent(**f, **common)
    elif kind == 'killed':
        f = dict(is_oom=rng.random() < 0.5)
        e = ev.KilledTraceEvent(**f, **common)
    elif kind == 'service_running':
        f = dict(uniqueid=uid, service=rng.choice(['web', 'web.server', 'a.b.c', word(rng, SVC, 1, 10).strip('.') or 'x']))
        e = ev.ServiceRunningTraceEvent(**f, **common)
    else:
        f = dict(uniqueid=uid, service=rng.choice(['web', 'web.server', 'a.b.c', '1.2', word(rng, SVC, 1, 10).strip('.') or 'x']),
                 rc=rng.choice([0, 1, 255, rng.randint(0, 255)]), signal=rng.choice([0, 9, rng.randint(0, 64)]))
        e = ev.ServiceExitedTraceEvent(**f, **common)
    return kind, f, common, e


class _Recorder:
    """Handler of the real AppTraceLoop: records what reaches the consumer."""

    def __init__(self):
        self.got = []

    def make(self, evmod):
        rec = self

        class H(evmod.AppTraceEventHandler):
            def on_scheduled(self, when, instanceid, server, why):
                rec.got.append(('scheduled', dict(where=server, why=why)))

            def on_pending(self, when, instanceid, why):
                rec.got.append(('pending', dict(why=why)))

            def on_pending_delete(self, when, instanceid, why):
                rec.got.append(('pending_delete', dict(why=why)))

            def on_configured(self, when, instanceid, server, uniqueid):
                rec.got.append(('configured', dict(uniqueid=uniqueid)))

            def on_deleted(self, when, instanceid):
                rec.got.append(('deleted', {}))

            def on_finished(self, when, instanceid, server, signal, exitcode):
                rec.got.append(('finished', dict(rc=exitcode, signal=signal)))

            def on_aborted(self, when, instanceid, server, why):
                rec.got.append(('aborted', dict(why=why)))

            def on_killed(self, when, instanceid, server, is_oom):
                rec.got.append(('killed', dict(is_oom=is_oom)))

            def on_service_running(self, when, instanceid, server, uniqueid, service):
                rec.got.append(('service_running', dict(uniqueid=uniqueid, service=service)))

            def on_service_exited(self, when, instanceid, server, uniqueid, service, exitcode, signal):
                rec.got.append(('service_exited', dict(uniqueid=uniqueid, service=service, rc=exitcode, signal=signal)))
        return H()


def check_events(ctx, rng, reg, zk_state):
    from treadmill import trace
    from treadmill.trace.app import events as ev
    from treadmill.trace.app import zk as app_zk
    kind, f, common, e = gen_event(rng)
    case = dict(codec='app-event', type=kind, fields=f)
    data = e.to_data()
    back = ev.AppTraceEvent.from_data(timestamp=data[0], source=data[1], instanceid=data[2], event_type=data[3],
                                      event_data=data[4], payload=data[5])
    ctx.count('event_roundtrips')
    nt = any(isinstance(v, str) and any(c in v for c in ':.#') for v in f.values()) or None in f.values() or '' in f.values()
    if back is None:
        ctx.violation('event:undecodable:' + kind, '%r -> %r' % (f, data), case=case)
        return (kind, f), nt
    got = {k: getattr(back, k) for k in f}
    if got != f or type(back) is not type(e) or not back == e:
        which = sorted(k for k in f if got.get(k) != f[k])
        ctx.violation('event:roundtrip-differs:%s:%s' % (kind, '+'.join(which) or 'other'),
                      '%s %r -> event_data %r -> %r' % (kind, f, data[4], got), case=case)
    reg.add('event', (data[3], data[4]), (kind, sorted(f.items())), case)
    if rng.random() < 0.25:
        # the real pipeline: post_zk -> publish -> node name -> AppTraceLoop -> handler
        srv, zk = zk_state
        inst = common['instanceid']
        zk.ensure_path('/scheduled/' + inst)
        trace.post_zk(zk, e)
        rec = _Recorder()
        loop = app_zk.AppTraceLoop(zk, inst, rec.make(ev))
        loop.run(snapshot=True)
        ctx.count('event_pipeline')
        if len(rec.got) != 1 or rec.got[0][0] != kind or rec.got[0][1] != f:
            which = sorted(k for k in f if not rec.got or rec.got[0][1].get(k) != f[k])
            ctx.violation('event:pipeline-differs:%s:%s' % (kind, '+'.join(which) or 'other'),
                          'posted %s %r, consumer saw %r' % (kind, f, rec.got), case=case)
        # clean the shard node for the next case
        shard = __import__('treadmill.zknamespace', fromlist=['x']).path.trace(inst)
        for ch in srv.children(shard):
            zk.delete(shard + '/' + ch)
        for p in ('/scheduled/' + inst, '/finished/' + inst):
            if zk.exists(p):
                zk.delete(p)
    return (kind, f), nt


def check_server_events(ctx, rng, reg):
    from treadmill.trace.server import events as sev
    host = word(rng, string.ascii_lowercase, 1, 1) + word(rng, HOST, 0, 12)
    common = dict(timestamp=round(rng.random() * 2e9, 3), source=host, servername=host, payload=None)
    kind = rng.choice(['server_state', 'server_blackout', 'server_blackout_cleared'])
    if kind == 'server_state':
        f = dict(state=rng.choice(['up', 'down', 'frozen']))
        e = sev.ServerStateTraceEvent(**f, **common)
    elif kind == 'server_blackout':
        f = {}
        e = sev.ServerBlackoutTraceEvent(**common)
    else:
        f = {}
        e = sev.ServerBlackoutClearedTraceEvent(**common)
    data = e.to_data()
    back = sev.ServerTraceEvent.from_data(timestamp=data[0], source=data[1], servername=data[2], event_type=data[3],
                                          event_data=data[4], payload=data[5])
    ctx.count('event_roundtrips')
    case = dict(codec='server-event', type=kind, fields=f)
    if back is None or {k: getattr(back, k) for k in f} != f or not back == e:
        ctx.violation('server-event:roundtrip-differs:' + kind, '%r -> %r -> %r' % (f, data, back), case=case)
    return (kind, f, host), False


# ---------------------------------------------------------------------------
# (d) ZooKeeper payloads
def gen_json(rng, depth=0):
    c = rng.randrange(8 if depth < 3 else 5)
    if c == 0:
        return rng.choice([0, 1, -1, 2 ** 31, 2 ** 63, rng.randint(-10 ** 6, 10 ** 6)])
    if c == 1:
        return rng.choice(['', 'a', '123', 'true', 'null', '{}', 'x: y', '- a', 'é', word(rng, ALNUM + ' :#-{}[],', 0, 12)])
    if c == 2:
        return rng.choice([True, False, None])
    if c == 3:
        return rng.choice([0.5, 1e-9, 1.5e9, -2.25, 1700000000.123456])
    if c == 4:
        return rng.choice([[], {}])
    if c in (5, 6):
        return {word(rng, ALNUM + '_-. ', 1, 6): gen_json(rng, depth + 1) for _ in range(rng.randint(0, 4))}
    return [gen_json(rng, depth + 1) for _ in range(rng.randint(0, 4))]


def type_variant(rng, obj, changed):
    """The same document with numeric / boolean leaves spelled in another JSON type of equal numeric value
    (true / 1 / 1.0, false / 0 / 0.0, 7 / 7.0): equal to the original under Python's ==, another JSON document."""
    if isinstance(obj, dict):
        return {k: type_variant(rng, v, changed) for k, v in obj.items()}
    if isinstance(obj, list):
        return [type_variant(rng, v, changed) for v in obj]
    if isinstance(obj, bool) and rng.random() < 0.8:
        changed.append('bool')
        return rng.choice([int(obj), float(obj)])
    if isinstance(obj, int) and not isinstance(obj, bool) and float(obj) == obj and rng.random() < 0.8:
        alts = [float(obj)] + ([bool(obj)] if obj in (0, 1) else [])
        changed.append('int')
        return rng.choice(alts)
    if isinstance(obj, float) and obj == int(obj) and rng.random() < 0.8:
        alts = [int(obj)] + ([bool(obj)] if obj in (0.0, 1.0) else [])
        changed.append('float')
        return rng.choice(alts)
    return obj


def leaf_variant(rng, obj, changed):
    """The same document with one leaf (or one key) changed in value."""
    if isinstance(obj, dict) and obj:
        k = rng.choice(sorted(obj))
        if rng.random() < 0.2:
            changed.append('key')
            return {(kk + '_' if kk == k else kk): v for kk, v in obj.items()}
        return {kk: (leaf_variant(rng, v, changed) if kk == k else v) for kk, v in obj.items()}
    if isinstance(obj, list) and obj:
        i = rng.randrange(len(obj))
        return [leaf_variant(rng, v, changed) if j == i else v for j, v in enumerate(obj)]
    changed.append('leaf')
    return rng.choice([v for v in (None, 2, 'x', [0], {'k': None}) if v != obj])


def exact(obj):
    """Type-exact canonical text of a JSON-shaped value (Python's == conflates 1, 1.0 and True)."""
    import json
    return json.dumps(obj, sort_keys=True)


def check_zk(ctx, rng, reg, zk_state):
    from treadmill import zkutils
    import json
    srv, zk = zk_state
    obj = gen_json(rng, 0)
    if not isinstance(obj, (dict, list)):
        obj = rng.choice([{'v': obj}, [obj]])
    case = dict(codec='zk-payload', value=obj)
    path = '/vf/obj'
    how = rng.choice(['put', 'put-existing', 'create', 'update', 'rewrite', 'rewrite', 'ensure', 'ensure-existing', 'ensure-existing'])
    if zk.exists(path):
        zk.delete(path)
    if how == 'rewrite':
        # the node already holds a NEIGHBOUR of the object (what a resource looks like before an operator edits one field):
        # the same document with leaves in another JSON type of equal numeric value, one leaf / key changed, the same
        # document, or the same document written by a legacy client in another key order. Writing with check_content
        # may skip the write only when the stored document IS the new one; the reader must get what was written last.
        changed = []
        kind = rng.choice(['types', 'types', 'leaf', 'same', 'key-order'])
        if kind == 'types':
            prev = type_variant(rng, obj, changed)
        elif kind == 'leaf':
            prev = leaf_variant(rng, obj, changed)
        else:
            prev = copy.deepcopy(obj)
        if kind == 'key-order' and isinstance(obj, dict) and len(obj) > 1:
            zk.create(path, json.dumps({k: obj[k] for k in sorted(obj, reverse=True)}).encode(), makepath=True)
            changed.append('order')
        else:
            rng.choice([zkutils.put, zkutils.create])(zk, path, prev)
        case = dict(case, stored_before=prev, neighbour=kind)
        writer = rng.choice(['put', 'put', 'update'])
        if writer == 'put':
            zkutils.put(zk, path, copy.deepcopy(obj), check_content=True)
        else:
            zkutils.update(zk, path, copy.deepcopy(obj), check_content=True)
        ctx.count('zk_rewrites_check_content')
        if kind == 'types' and changed and exact(prev) != exact(obj):
            ctx.count('zk_rewrites_over_equal_valued_other_type')
            for t in set(changed):
                ctx.count('zk_rewrites_over_equal_valued_other_type:' + t)
        elif kind == 'leaf' and changed:
            ctx.count('zk_rewrites_over_one_leaf_changed')
        how = 'rewrite-%s:%s' % (writer, kind)
    elif how == 'put':
        zkutils.put(zk, path, obj)
    elif how == 'put-existing':
        zkutils.put(zk, path, {'old': 1})
        zkutils.put(zk, path, obj, check_content=rng.random() < 0.5)
    elif how == 'create':
        zkutils.create(zk, path, obj)
    elif how == 'ensure':
        # ensure_exists(data=...) is the writer of the cell-wide lists (cellsync: /globals/servers, /traits)
        zkutils.ensure_exists(zk, path, data=copy.deepcopy(obj))
        ctx.count('zk_ensure_exists_fresh_node')
    elif how == 'ensure-existing':
        # ... over a node that holds another object (the list as it was at the previous synchronisation)
        prev = gen_json(rng, 1)
        if not isinstance(prev, (dict, list)):
            prev = rng.choice([{'v': prev}, [prev]])
        if exact(prev) == exact(obj):
            prev = {'old': 1}
        rng.choice([zkutils.put, zkutils.ensure_exists])(zk, path, data=prev)
        case = dict(case, stored_before=prev)
        zkutils.ensure_exists(zk, path, data=copy.deepcopy(obj))
        ctx.count('zk_ensure_exists_over_another_object')
        if obj in ({}, []):
            ctx.count('zk_empty_collection_written_over_another_object')
    else:
        zkutils.put(zk, path, {'old': 1})
        zkutils.update(zk, path, obj, check_content=rng.random() < 0.5)
    got, meta = zkutils.get_with_metadata(zk, path)
    ctx.count('zk_roundtrips')
    if got != obj or type(got) is not type(obj) or exact(got) != exact(obj):
        ctx.violation('zk-payload:roundtrip-differs:' + how, '%r read back as %r%s' % (
            obj, got, ' (the node held %r before)' % (case['stored_before'],) if 'stored_before' in case else ''), case=case)
    raw = zk.get(path)[0]
    reg.add('zk-payload', raw, json.dumps(obj, sort_keys=True), case)
    return obj, (obj in ({}, []) or any(v in ({}, [], '', None) for v in (obj.values() if isinstance(obj, dict) else obj)))


# ---------------------------------------------------------------------------
# (e) LDAP entries
def gen_app(rng):
    o = {'cpu': '%d%%' % rng.choice([0, 10, 100]), 'memory': rng.choice(['100M', '1G']), 'disk': rng.choice(['100M', '2G'])}
    opt = lambda p=0.5: rng.random() < p   # noqa
    if opt():
        o['image'] = rng.choice(['docker://img', 'native'])
    if opt(0.3):
        o['command'] = '/bin/sleep 5'
    if opt(0.3):
        o['args'] = [word(rng, ALNUM + '-/=', 1, 6) for _ in range(rng.randint(0, 3))]
    if opt(0.3):
        o['tickets'] = ['%s@realm%d' % (word(rng, ALNUM, 2, 5), i) for i in range(rng.randint(0, 3))]
    if opt(0.2):
        o['keytabs'] = ['host#h%d@realm' % i for i in range(rng.randint(0, 2))]
    if opt(0.3):
        o['features'] = rng.sample(['a', 'b', 'c'], rng.randint(0, 3))
    if opt(0.3):
        o['identity_group'] = 'proid.ig'
    for b in ('shared_ip', 'shared_network', 'schedule_once'):
        if opt(0.4):
            o[b] = rng.random() < 0.5
    if opt(0.3):
        o['passthrough'] = [gen_ip(rng) for _ in range(rng.randint(0, 3))]
    if opt(0.4):
        o['ephemeral_ports'] = rng.choice([{'tcp': 5}, {'udp': 3}, {'tcp': 0, 'udp': 0}, {'tcp': 2, 'udp': 65535}, {}])
    if opt(0.3):
        o['data_retention_timeout'] = rng.choice(['0s', '30s', '1d'])
    if opt(0.3):
        o['lease'] = rng.choice(['0s', '5m'])
    if opt(0.3):
        o['traits'] = rng.sample(['ssd', 'gpu', 'big'], rng.randint(0, 3))
    if opt(0.8):
        n = rng.choice([0, 1, 2, 3, 17, 20])
        o['services'] = []
        for i in rng.sample(range(40), n):
            s = {'name': 'svc%d' % i, 'command': 'cmd %d' % i}
            if opt(0.3):
                s['image'] = 'img'
            if opt(0.3):
                s['useshell'] = rng.random() < 0.5
            if opt(0.3):
                s['root'] = rng.random() < 0.5
            if opt(0.5):
                s['restart'] = {'limit': rng.choice([0, 1, 5, 100]), 'interval': rng.choice([1, 60, 3600])}
            o['services'].append(s)
    if opt(0.7):
        n = rng.choice([0, 1, 2, 5, 17, 20])
        o['endpoints'] = []
        for i in rng.sample(range(40), n):
            e = {'name': 'ep%d' % i, 'port': rng.choice([0, 1, 80, 65535])}
            if opt(0.5):
                e['proto'] = rng.choice(['tcp', 'udp'])
            if opt(0.3):
                e['type'] = 'infra'
            o['endpoints'].append(e)
        if 0 < n < 20 and opt(0.3):
            # one service name on two protocols (dns on tcp and udp): the schema does not ask for distinct names
            e = rng.choice(o['endpoints'])
            e['proto'] = rng.choice(['tcp', 'udp'])
            twin = dict(e, proto='udp' if e['proto'] == 'tcp' else 'tcp')
            if opt(0.3):
                twin['port'] = rng.choice([p_ for p_ in (0, 1, 80, 65535) if p_ != e['port']])
            o['endpoints'].insert(rng.randint(0, len(o['endpoints'])), twin)
    if opt(0.5):
        o['environ'] = [{'name': 'V%d' % i, 'value': word(rng, ALNUM + ' =:/', 1, 8)} for i in rng.sample(range(30), rng.choice([0, 1, 3, 18]))]
    if opt(0.4):
        o['affinity_limits'] = {lv: rng.choice([0, 1, 5]) for lv in rng.sample(['server', 'rack', 'pod', 'cell'], rng.randint(0, 4))}
    if opt(0.3):
        o['vring'] = {'cells': rng.sample(['c1', 'c2', 'c3'], rng.randint(0, 3)),
                      'rules': [{'pattern': 'p.%d' % i, 'endpoints': ['ep%d' % j for j in range(rng.randint(1, 3))]}
                                for i in rng.sample(range(20), rng.randint(0, 3))]}
    return o


def _by_name(s):
    # (elements of one name - an endpoint on two protocols - in a fixed order)
    return (s['name'], s.get('proto') or '', s.get('port') or 0)


def _by_pattern(a):
    return (a['pattern'], a.get('priority') or 0)


def norm_app(o):
    """What decoding must give back for what was put in (documented defaults)."""
    exp = {}
    for k, v in o.items():
        if k == 'services':
            exp[k] = sorted(({**s, 'restart': {**{'limit': 5, 'interval': 60}, **s.get('restart', {})}} for s in v),
                            key=lambda s: s['name'])
        elif k in ('endpoints', 'environ'):
            exp[k] = sorted(v, key=_by_name)
        elif k == 'ephemeral_ports':
            exp[k] = {'tcp': v.get('tcp', 0), 'udp': v.get('udp', 0)}
        elif k == 'vring':
            if v['cells'] or v['rules']:
                exp[k] = {'cells': list(v['cells']), 'rules': sorted(v['rules'], key=lambda r: r['pattern'])}
        else:
            exp[k] = v
    return exp


SETLIKE = ('traits', 'features', 'tickets', 'keytabs', 'passthrough', 'systems')


def view_app(d):
    out = dict(d)
    if 'ephemeral_ports' in out:
        out['ephemeral_ports'] = {'tcp': out['ephemeral_ports'].get('tcp', 0), 'udp': out['ephemeral_ports'].get('udp', 0)}
    for k in ('services', 'endpoints', 'environ'):
        if k in out:
            out[k] = sorted(out[k], key=_by_name)
    if 'vring' in out:
        out['vring'] = {'cells': list(out['vring'].get('cells', [])),
                        'rules': sorted(out['vring'].get('rules', []), key=lambda r: r['pattern'])}
    return out


def subset_diff(exp, got, path=''):
    """Fields of exp that got does not reproduce."""
    bad = []
    if isinstance(exp, dict):
        if not isinstance(got, dict):
            return [path or '.']
        for k, v in exp.items():
            if k not in got:
                if v in ([], {}, None):
                    continue
                bad.append('%s.%s' % (path, k))
            else:
                bad += subset_diff(v, got[k], '%s.%s' % (path, k))
    elif isinstance(exp, list):
        if not isinstance(got, list) or len(exp) != len(got):
            return [path]
        for i, (a, b) in enumerate(zip(exp, got)):
            bad += subset_diff(a, b, '%s[%s]' % (path, a.get('name', i) if isinstance(a, dict) else i))
    elif exp != got or type(exp) is not type(got):
        bad.append(path)
    return bad


def gen_cell_alloc(rng):
    o = {'cpu': '%d%%' % rng.choice([0, 10, 400]), 'memory': rng.choice(['0G', '10G', '512M']), 'disk': rng.choice(['0G', '100G'])}
    if rng.random() < 0.6:
        o['rank'] = rng.choice([0, 1, 100])
    if rng.random() < 0.4:
        o['rank_adjustment'] = rng.choice([0, 10])
    if rng.random() < 0.4:
        o['max_utilization'] = rng.choice([0.5, 1.0, 2.0, 100.0])
    if rng.random() < 0.5:
        o['traits'] = rng.sample(['ssd', 'gpu', 'big'], rng.randint(0, 3))
    if rng.random() < 0.7:
        o['partition'] = rng.choice(['_default', 'p1'])
    if rng.random() < 0.6:
        o['assignments'] = [{'pattern': 'proid.app%d*' % i, 'priority': rng.choice([0, 1, 50, 100])}
                            for i in rng.sample(range(40), rng.choice([0, 1, 3, 18]))]
        if o['assignments'] and rng.random() < 0.3:
            # one pattern assigned twice with two priorities (nothing in the schema or in the encoding forbids it)
            a = rng.choice(o['assignments'])
            o['assignments'].insert(rng.randint(0, len(o['assignments'])),
                                    dict(a, priority=rng.choice([p_ for p_ in (0, 1, 50, 100) if p_ != a['priority']])))
    return o


def gen_partition(rng):
    o = {'cpu': '%d%%' % rng.choice([0, 1000]), 'memory': rng.choice(['0G', '100G']), 'disk': rng.choice(['0G', '1000G'])}
    if rng.random() < 0.4:
        o['down-threshold'] = rng.choice([0, 5])
    if rng.random() < 0.4:
        o['systems'] = [rng.randint(1, 99999) for _ in range(rng.randint(0, 3))]
    if rng.random() < 0.4:
        o['reboot-schedule'] = 'sat,sun/06:00:00'
    if rng.random() < 0.4:
        o['data'] = rng.choice([{}, {'k': 'v'}, {'b': 2, 'a': [1, 2]}])
    if rng.random() < 0.7:
        o['limits'] = [{'trait': t, 'cpu': '%d%%' % rng.choice([0, 100]), 'memory': rng.choice(['0G', '1G']), 'disk': rng.choice(['0G', '5G'])}
                       for t in rng.sample(['ssd', 'gpu', 'big', 'x86'], rng.randint(0, 4))]
    return o


def check_ldap(ctx, rng, reg, be):
    which = rng.choice(['app', 'app', 'cell_alloc', 'partition'])
    if which == 'app':
        admin, obj, ident = be.application(), gen_app(rng), 'proid.app%d' % rng.randint(0, 5)
        exp = norm_app(obj)
        view = view_app
    elif which == 'cell_alloc':
        # the tenant hierarchy (1-3 levels, ':'-separated) and the cell are kept in the DN of the entry
        tenants = ':'.join(rng.sample(['tenant', 'ops', 'web', 'a-b', 'T9'], rng.choice([1, 1, 2, 3])))
        admin, obj, ident = be.cell_allocation(), gen_cell_alloc(rng), [rng.choice(['c1', 'Cell-2']), '%s/alloc%d' % (tenants, rng.randint(0, 5))]
        exp = dict(obj)
        if 'assignments' in exp:
            exp['assignments'] = sorted(exp['assignments'], key=_by_pattern)
        view = lambda d: {**d, 'assignments': sorted(d.get('assignments', []), key=_by_pattern)}   # noqa
    else:
        admin, obj, ident = be.partition(), gen_partition(rng), ['p%d' % rng.randint(0, 3), 'c1']
        exp = dict(obj)
        if 'limits' in exp:
            exp['limits'] = sorted(exp['limits'], key=lambda a: a['trait'])
        view = lambda d: {**d, 'limits': sorted(d.get('limits', []), key=lambda a: a['trait'])}   # noqa
    case = dict(codec='ldap:' + which, value=obj)
    for key_, attr_ in (('endpoints', 'name'), ('assignments', 'pattern')):
        names_ = [x[attr_] for x in obj.get(key_, [])]
        if len(names_) != len(set(names_)):
            ctx.count('ldap_keyed_list_with_two_elements_of_one_key:' + which)
    o_in = copy.deepcopy(obj)
    entry = admin.to_entry(copy.deepcopy(obj))
    back = admin.from_entry(entry)
    ctx.count('ldap_roundtrips')
    bad = subset_diff(exp, view(back))
    if bad:
        ctx.violation('ldap:%s:field-lost:%s' % (which, bad[0].split('[')[0]), '%r: fields %s not reproduced (decoded %r)' % (obj, bad[:4], back), case=case)
    entry2 = admin.to_entry(copy.deepcopy(back))
    strip = lambda e: {k: v for k, v in e.items() if v}   # noqa
    back2 = admin.from_entry(entry2)
    # idempotence modulo documented defaults: decoding what the decoded object encodes to changes nothing
    if view(back2) != view(back):
        diff = sorted(k for k in set(back) | set(back2) if view(back).get(k) != view(back2).get(k))
        ctx.violation('ldap:%s:not-idempotent:%s' % (which, diff[0]), 'from_entry(to_entry(from_entry(e))) differs at %s' % diff[:4], case=case)
    if obj != o_in:
        ctx.violation('ldap:%s:input-mutated' % which, 'to_entry changed its argument', case=case)
    reg.add('ldap:' + which, sorted(strip(entry).items()), sorted(strip(admin.to_entry(copy.deepcopy(view(back)))).items()), case)
    # _diff_entries applied under LDAP set semantics turns the old entry into the new one
    from treadmill.admin import _ldap as _l
    other = {'app': gen_app, 'cell_alloc': gen_cell_alloc, 'partition': gen_partition}[which](rng)
    old_e, new_e = admin.to_entry(copy.deepcopy(other)), admin.to_entry(copy.deepcopy(obj))
    scratch = be._ldap_conn      # pylint: disable=protected-access
    dn = 'cn=scratch,' + scratch.root_ou
    scratch.store.pop(dn, None)
    scratch.add(dn, attributes=_l._remove_empty(old_e))      # pylint: disable=protected-access
    scratch.modify(dn, _l._diff_entries(dict(scratch.store[dn]), new_e))     # pylint: disable=protected-access
    normv = lambda vals: sorted({'TRUE' if x is True else 'FALSE' if x is False else str(x) for x in vals})   # noqa (set semantics)
    want = {k: normv(v) for k, v in new_e.items() if v}
    have = {k: normv(v) for k, v in scratch.store[dn].items()}
    ctx.count('ldap_diff_checks')
    if want != have:
        bad = sorted(k for k in set(want) | set(have) if want.get(k) != have.get(k))
        ctx.violation('ldap:%s:diff-entries-wrong:%s' % (which, bad[0].split(';')[0]),
                      'apply(_diff_entries(old, new), old) != new at %s: have %r want %r' % (
                          bad[:3], {b: have.get(b) for b in bad[:3]}, {b: want.get(b) for b in bad[:3]}),
                      case=dict(case, old=other))
    scratch.store.pop(dn, None)
    # through the directory: create/get, then update/get
    try:
        admin.delete(ident)
    except Exception:       # noqa
        pass
    admin.create(ident, copy.deepcopy(obj))
    got = admin.get(ident, dirty=True)
    bad = subset_diff(exp, view(got))
    if bad:
        ctx.violation('ldap:%s:create-get-differs:%s' % (which, bad[0].split('[')[0]), '%r stored, read %r (%s)' % (obj, got, bad[:4]), case=case)
    if which == 'cell_alloc':
        # the part of the state that lives in the DN decodes to the id that was written
        want_id = '%s/%s' % (ident[1], ident[0])
        ctx.count('ldap_dn_ids_checked')
        if ':' in ident[1]:
            ctx.count('ldap_dn_ids_nested_tenant')
        listed = [a.get('_id') for a in admin.list({'cell': ident[0]})]
        if got.get('_id') != want_id or want_id not in listed:
            ctx.violation('ldap:cell_alloc:dn-id-differs', 'reservation written as %r reads back with _id %r (listing: %r)' % (
                want_id, got.get('_id'), listed[:6]), case=case)
    obj2 = {'app': gen_app, 'cell_alloc': gen_cell_alloc, 'partition': gen_partition}[which](rng)
    if which == 'app':
        admin.replace(ident, copy.deepcopy(obj2))        # the product replaces applications (api/app.py)
        written = obj2
    else:
        # the product updates with the full stored object merged with the request (api/allocation.py)
        written = admin.get(ident, dirty=True)
        written.pop('_id', None)
        written.update(copy.deepcopy(obj2))
        admin.update(ident, copy.deepcopy(written))
    ctx.count('ldap_update_checks')
    stored = be._ldap_conn.store[admin.dn(ident)]       # pylint: disable=protected-access
    norm = lambda vals: sorted('TRUE' if x is True else 'FALSE' if x is False else str(x) for x in vals)   # noqa
    for k, v in admin.to_entry(copy.deepcopy(written)).items():
        have = stored.get(k, [])
        if norm(v) != norm(have):
            ctx.violation('ldap:%s:update-diff-wrong:%s' % (which, k.split(';')[0]),
                          'after update attribute %s is %r, new entry says %r' % (k, have, v), case=dict(case, update=obj2))
            break
    got2 = admin.get(ident, dirty=True)
    exp2 = norm_app(obj2) if which == 'app' else {k: v for k, v in obj2.items() if v not in ([], {})}
    # multi-valued attributes are sets in a directory: compare them unordered after an update
    got2 = {k: (sorted(v) if k in SETLIKE and isinstance(v, list) else v) for k, v in got2.items()}
    exp2 = {k: (sorted(v) if k in SETLIKE and isinstance(v, list) else v) for k, v in exp2.items()}
    if which == 'cell_alloc' and 'assignments' in exp2:
        exp2['assignments'] = sorted(exp2['assignments'], key=_by_pattern)
    if which == 'partition' and 'limits' in exp2:
        exp2['limits'] = sorted(exp2['limits'], key=lambda a: a['trait'])
    for key in ('assignments', 'limits'):
        # an option-indexed list that the update empties is empty afterwards (the encoders emit the empty groups for it)
        if which != 'app' and written.get(key) == [] and obj.get(key):
            ctx.count('ldap_update_emptied_option_indexed_list')
            if got2.get(key):
                ctx.violation('ldap:%s:update-get-differs:emptied-list-survives:%s' % (which, key),
                              'updated with %s == [], read back %r' % (key, got2.get(key)), case=dict(case, update=obj2))
    bad = subset_diff(exp2, view(got2))
    if bad:
        ctx.violation('ldap:%s:update-get-differs:%s' % (which, bad[0].split('[')[0]),
                      'updated with %r, read %r (%s)' % (obj2, got2, bad[:4]), case=dict(case, update=obj2))
    return (which, obj), (any(v in ([], {}) for v in obj.values()) or len(obj) <= 4 or
                          any(isinstance(v, list) and len(v) >= 17 for v in obj.values()))


# ---------------------------------------------------------------------------
def run(ctx):
    from ..api import ldapfake
    reg = Registry(ctx)
    tmp = tempfile.mkdtemp(prefix='vf-c15-')
    srv = zkfake.ZkServer()
    srv.keep_log = False
    zk = srv.client('c15')
    from treadmill import zknamespace as z
    for p in ['/scheduled', '/finished', '/placement', '/trace.history', '/vf'] + z.trace_shards():
        zk.ensure_path(p)
    be = ldapfake.make_backend()
    fams = ['rules', 'names', 'events', 'events', 'server_events', 'zk', 'ldap']
    try:
        for idx, rng in ctx.cases():
            fam = fams[idx % len(fams)]
            try:
                if fam == 'rules':
                    desc, nt = check_rules(ctx, rng, reg, tmp)
                elif fam == 'names':
                    desc, nt = check_names(ctx, rng, reg)
                elif fam == 'events':
                    desc, nt = check_events(ctx, rng, reg, (srv, zk))
                elif fam == 'server_events':
                    desc, nt = check_server_events(ctx, rng, reg)
                elif fam == 'zk':
                    desc, nt = check_zk(ctx, rng, reg, (srv, zk))
                else:
                    desc, nt = check_ldap(ctx, rng, reg, be)
            except Exception:       # noqa
                et, ev, tb = sys.exc_info()
                frames = [f for f in traceback.extract_tb(tb) if '/treadmill/' in f.filename]
                if not frames:
                    raise
                ctx.violation('exception:%s@%s:%s' % (et.__name__, frames[-1].name, fam),
                              '%s: %s' % (et.__name__, ev), witness=traceback.format_exc()[-900:], case=dict(codec=fam))
                desc, nt = (fam, idx), False
            ctx.done(case_desc=(fam, desc), nontrivial=bool(nt),
                     sample=dict(codec=fam, value=desc) if nt and idx < 40 else None)
    finally:
        shutil.rmtree(tmp, ignore_errors=True)
