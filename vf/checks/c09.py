"""C09 - the published placement equals the scheduler's model after every cycle."""
from ..master import engine as mengine
from ..master import drv as mdrv

LEVEL = 'exploration'
RULE = ('histories of ZooKeeper-level events produced with the repository\'s own masterapi (create/delete apps, '
        'priorities, server records with re-spelled capacities / partition / traits, presence sessions expiring and '
        'returning, server_state events, allocations, identity groups, blacklist, cell events, /running nodes, '
        'clock steps) against a real Master on ZkBackend on the in-memory ZooKeeper; after init_schedule() and after '
        'every reschedule()+check_placement_integrity() the whole /placement tree is dumped and compared with '
        'Master.cell (existence, server, identity, expires; nothing for pending/unscheduled; never two servers). '
        'A master restart is inserted in half of the histories. Non-trivial: a history in which an instance moved '
        'between servers, a server was deleted, or the master restarted.')
ASSUMPTIONS = ['in-memory ZooKeeper fake (vf/zkfake.py) under the real ZkBackend/zkutils/masterapi',
               'children watches are replaced by the driver calling the registered handler for every watched path '
               'whose children changed (also by the master\'s own writes) before each cycle',
               'virtual clock by rebinding time.time']
BUDGET = {'quick': (130, 45.0), 'thorough': (700, 300.0)}
REQUIRED_REACH = {'*': ['master_restarts', 'moved_between_servers', 'evictions', 'down_expired']}


def run(ctx):
    mengine.run_histories(ctx, ['C09'])
