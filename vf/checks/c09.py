"""C09 - the published placement equals the scheduler's model after every cycle."""
from ..master import engine as mengine
from ..master import drv as mdrv

LEVEL = 'exploration'
RULE = ('histories of ZooKeeper-level events produced with the repository\'s own masterapi (create/delete apps, '
        'priorities, server records with re-spelled capacities / partition / traits, presence sessions expiring and '
        'returning, server_state events, allocations, identity groups, blacklist, cell events, /running nodes, '
        'clock steps) against a real Master on ZkBackend on the in-memory ZooKeeper; after init_schedule() and after '
        'every reschedule()+check_placement_integrity() the whole /placement tree is dumped and compared with '
        'Master.cell (existence, server, identity, expires; nothing for pending/unscheduled; never two servers). '
        'A master restart is inserted in half of the histories. Non-trivial: a history in which an instance moved '
        'between servers, a server was deleted, or the master restarted. Every 5th case runs the REAL Master.run_loop() '
        '(vf/master/realloop.py): kazoo ChildrenWatch callbacks of Master.watch on a second thread (one at a time, blocked '
        'until the main loop signals completion), the event queue and the periodic tasks on the main thread, time.sleep = '
        'the idle point where the harness applies the next operator command (also at the joints of the start-up sequence: '
        'after load_model / init_schedule / attach_watchers) and, once nothing is queued, undelivered or being delivered '
        'and the master is up to date - or the callback thread has not come back for 4 idle passes - evaluates the same '
        'oracle plus "no entry for an instance that is no longer in /scheduled"; a LINE event local to the watch callback '
        'parks the callback thread between two of its statements until the main loop completed a full pass. Operator commands '
        '(among them deleting a hosting server, optionally interrupted at one of its requests and repeated) also land while the '
        'master is busy with a batch of events; a second master takes over after the first; a master that dies is judged by '
        'what it leaves only if it had nothing left to read (no queued, undelivered or /events entry).')
ASSUMPTIONS = ['in-memory ZooKeeper fake (vf/zkfake.py) under the real ZkBackend/zkutils/masterapi',
               'children watches are replaced by the driver calling the registered handler for every watched path '
               'whose children changed (also by the master\'s own writes) before each cycle',
               'virtual clock by rebinding time.time',
               'real-loop cases: two OS threads; waiting for the other thread is bounded by a 5 s wall-clock guard whose firing makes the case inconclusive (counted), never a violation']
BUDGET = {'quick': (130, 45.0), 'thorough': (700, 300.0)}
REQUIRED_REACH = {'*': ['master_restarts', 'moved_between_servers', 'evictions', 'down_expired', 'real_loop_cases',
                        'real_loop_callback_parked_between_two_statements', 'real_loop_operator_command_at_start_up_joint',
                        'real_loop_placed_instances_deleted', 'real_loop_second_master_started',
                        'real_loop_operator_command_during_event_handling']}


def _real_loop(ctx, idx, rng):
    if idx % 5 != 4:
        return False
    from ..master import realloop
    realloop.real_loop_case(ctx, idx, rng)
    return True


def _profile(rng):
    # (C09 only) the master host's clock is stepped back now and then: what is published must equal the model all the same
    return mdrv.MProfile(weights={'clock_back': 2, 'server_cap': 5} if rng.random() < 0.5 else None)


def run(ctx):
    mengine.run_histories(ctx, ['C09'], profile_for=_profile, special=_real_loop)
