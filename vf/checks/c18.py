"""C18 - archiving trace history never loses or prematurely archives events."""
import os
import shutil
import sqlite3
import tempfile
import zlib

from .. import env, zkfake

LEVEL = 'fault_enumeration'
RULE = ('populations of trace shards (4-12 instances, some still scheduled; 0-9 events each with timestamps around '
        'now-expiry +-0.5/5 s, plus clearly old and clearly young ones), /finished records with mtimes around the expiry, '
        'server-trace events, batch sizes 1-7, history limits 1-4, pre-existing history snapshots produced by a first real '
        'archiving pass. One archiving run = one iteration of the real archiver service (treadmill.sproc.trace cleanup, '
        'without the election lock, stopped at its sleep): pruning passes (limits too high to prune), cleanup_trace, '
        'cleanup_finished (own expiry and history count), the history prunings, cleanup_server_trace. Event names carry '
        'type/data as the product writes them. It is run once un-cut to count its ZooKeeper writes W, then once per k in 1..W with the '
        'fake client dying at write k (state restored from a snapshot; every write is a crash point). Oracle at every '
        'cut and at the end: every trace event / finished record / server event that was live before is live or is a row '
        'of some snapshot created so far (snapshots are decompressed and opened with sqlite; download_batch must return '
        'the archived events of each instance, and the reader of the product, AppTraceLoop._process_db_events must be handed '
        'every archived event of an unscheduled instance that sits in a present snapshot - also when they sit in '
        'non-adjacent snapshots); events of scheduled instances and events/records younger than the expiry '
        'are still live; nothing is archived in a short batch; history pruning removed only the oldest snapshot names and '
        'kept the newest max_count. Non-trivial: a cut strictly between the first and last write of a run that archived '
        '>= 1 batch; distinct by (case, k). One case per shard is the retrieval side beyond the listing cap: the real state '
        'API (api.state.API with its watchers) lists the finished records matching a pattern after the real archiver moved more '
        'than 1000 newer non-matching records into later snapshots; every matching record that is live or in a kept snapshot '
        'must be listed (at most 1000 match). Readers by name, after the complete run: ServerTraceLoop (handed events and '
        'run(snapshot=True) against its ordering rule) for every traced server - the servers are configured under /servers, '
        'and between the earlier pass and the run under test some are removed and some removed and configured again (the '
        'server trace is keyed by name and outlives the node); trace.app.zk.list_traces by bare application name, by '
        'explicit wildcard and by instance id must return every instance that is scheduled, has a live finished record or '
        'whose record sits in a present /finished.history snapshot (applications with both live and archived instances). '
        'Retrieval WHILE the archiver runs (8 small cells per shard, next to the listing case): the real state API reads a cell '
        '(3-16 finished records, most expired, batch sizes 1-4, optionally earlier snapshots) with its watch notifications queued '
        'and delivered one at a time; one iteration of the real archiver service runs at a seeded ZooKeeper read of the API - '
        'during its start-up, or during the callback of a later /finished notification after further records were written '
        '(lagging watch), or right after its last read. After the start-up and after every single notification: a record that is '
        'live and was in the API\'s last /finished listing, or that is a row of a present snapshot that was in its last '
        '/finished.history listing (both observed at its client), is returned by API.get with its own host and state and is part '
        'of API.list(finished=True) - in particular a record archived between the API\'s listing of /finished and its read of the '
        'node, looked up before the removal from /finished is announced.')
ASSUMPTIONS = ['in-memory ZooKeeper fake; a crash = the k-th mutating call of the archiver session raises a BaseException and nothing of that session is applied afterwards',
               'virtual clock with zero tick (time.time constant during a run); node mtimes set by the harness',
               'tempfile.tempdir redirected to a per-case directory (a dying archiver leaks its temp file by nature)',
               'racing-reader cells: the state API and the archiver are two sessions of the fake; the archiver iteration runs to '
               'completion inside one ZooKeeper read of the API (hook at the start of the read), watch notifications of the API '
               'session are queued and delivered one at a time in write order; the API client\'s get / get_children are wrapped '
               'transparently (record the listing, count reads that met no node; a falsy watch argument registers no watch, as in kazoo)']
BUDGET = {'quick': (14, 22.0), 'thorough': (260, 280.0)}
REQUIRED_REACH = {'*': ['trace_reader_checked', 'trace_reader_instance_in_non_adjacent_snapshots', 'cuts', 'cuts_mid_run', 'batches_archived', 'young_or_scheduled_kept', 'history_pruned', 'download_batch_checked', 'bulky_cases', 'state_api_listings_behind_1000_newer_records',
                        'server_trace_reader_archived_events_of_removed_and_configured_again_server',
                        'server_trace_reader_archived_events_of_configured_server',
                        'list_traces_app_with_live_and_archived_instances',
                        'archiver_runs_inside_a_read_sequence_of_the_state_api', 'state_api_lookups_next_to_running_archiver',
                        'state_api_lookup_of_archived_record_before_the_removal_is_announced',
                        'state_api_lookup_of_record_archived_between_listing_and_read']}

NOW = 1700000000.0


def rows_of(data, table):
    raw = zlib.decompress(data)
    with tempfile.NamedTemporaryFile(delete=False) as f:
        f.write(raw)
    try:
        conn = sqlite3.connect(f.name)
        rows = [r for r in conn.execute('SELECT path, name FROM %s' % table)]
        conn.close()
    finally:
        os.unlink(f.name)
    return rows


class _Stop(BaseException):
    pass


def listing_case(ctx, idx, rng):
    """The retrieval side beyond the listing cap: the REAL state API (treadmill.api.state.API with its five
    watchers on the fake ZooKeeper) lists the finished records matching a pattern after more than 1000 newer
    records that do not match were archived behind them by later passes of the real archiver.  With at most
    1000 matching records in all, every matching record that is live or sits in a kept snapshot is listed."""
    import json
    import time
    from treadmill import context
    from treadmill import zknamespace as z
    from treadmill.api import state as api_state
    from treadmill.sproc import trace as sproc_trace
    cleanup_cmd = sproc_trace.init().commands['cleanup']
    clock = env.VClock(base=NOW, tick=0.0)
    clock.install()
    tmp = tempfile.mkdtemp(prefix='vf-c18-', dir='/dev/shm' if os.path.isdir('/dev/shm') and os.access('/dev/shm', os.W_OK) else None)
    old_tmp = tempfile.tempdir
    tempfile.tempdir = tmp
    old_cell = context.GLOBAL.get('cell', resolve=False)
    try:
        srv = zkfake.ZkServer(clock=clock.peek)
        srv.child_order, srv.order_salt = 'hash', str(idx)
        adm = srv.client('admin')
        for p in (z.SCHEDULED, z.RUNNING, z.FINISHED, z.TRACE_HISTORY, z.FINISHED_HISTORY, z.SERVER_TRACE_HISTORY):
            adm.ensure_path(p)
        for sh in z.trace_shards() + z.server_trace_shards():
            adm.ensure_path(sh)
        fexpires = 300
        fbatch = rng.choice([150, 200, 260])
        fmaxhist = 12                       # the history cap keeps every snapshot of this case
        wanted = rng.randint(5, 60)
        newer = 1000 + fbatch + rng.randint(5, 150)
        records = {}

        def finish(name, age):
            when = NOW - fexpires - age
            rec = dict(state='finished', host='host%d' % rng.randint(0, 3), when=when, data='%d.0' % rng.randint(0, 3))
            adm.create(z.path.finished(name), json.dumps(rec).encode())
            srv.nodes[z.path.finished(name)].mtime = int(when * 1000)
            records[name] = rec

        def archiver(tag):
            context.GLOBAL.zk._conn = srv.client(tag)       # pylint: disable=protected-access
            real_sleep = time.sleep

            def stop(_secs):
                raise _Stop()
            time.sleep = stop
            try:
                cleanup_cmd.callback(
                    interval=60, trace_evictions_max_count=1000, trace_service_events_max_count=1000,
                    trace_batch_size=50, trace_expire_after=300, trace_history_max_count=5,
                    finished_batch_size=fbatch, finished_expire_after=fexpires, finished_history_max_count=fmaxhist,
                    no_lock=True)
            except _Stop:
                pass
            finally:
                time.sleep = real_sleep

        # pass 1: the wanted records (and filler up to whole batches) are archived first
        for n in range(wanted):
            finish('proid.report#%010d' % n, 50000 + n)
        for n in range(2 * fbatch - wanted):
            finish('proid.filler#%010d' % n, 40000 + n)
        archiver('archiver-a')
        # later passes: more than 1000 newer records of other applications are archived behind them
        for n in range(newer):
            finish('proid.other#%010d' % n, 100 + n)
        for n in range(rng.randint(0, 5)):
            finish('proid.report#%010d' % (5000 + n), 50 + n)        # a few fresh matching ones
        archiver('archiver-b')
        snaps = srv.children(z.FINISHED_HISTORY)
        kept = set()
        for sn in snaps:
            kept |= {name for _path, name in rows_of(srv.nodes[z.path.finished_history(sn)].data, 'finished')}
        live = set(srv.children(z.FINISHED))
        retrievable = {n for n in records if n.startswith('proid.report#') and (n in live or n in kept)}
        archived_newer = sum(1 for n in kept if n.startswith('proid.other#'))
        # the real API
        context.GLOBAL.cell = 'vfcell'
        context.GLOBAL.zk._conn = srv.client('state-api')       # pylint: disable=protected-access
        api = api_state.API()
        srv.deliver()
        listed = {i['name'] for i in api.list(match='proid.report', finished=True)}
        ctx.count('state_api_listings_beyond_cap')
        ctx.count('state_api_listing_newer_archived_records', archived_newer)
        if archived_newer > 1000:
            ctx.count('state_api_listings_behind_1000_newer_records')
        missing = sorted(retrievable - listed)
        if missing:
            where = 'kept-snapshot' if missing[0] in kept else 'live'
            ctx.violation('state-api-listing-misses-retrievable-finished-record:%s' % where,
                          'listing proid.report with finished records: %d of the %d matching records that are live or in a kept '
                          'snapshot are not listed, e.g. %s (%d snapshots kept, %d newer non-matching records archived)' % (
                              len(missing), len(retrievable), missing[0], len(snaps), archived_newer),
                          case=dict(case=idx, fbatch=fbatch, wanted=wanted, newer=newer))
        got = api.get(sorted(retrievable)[0]) if retrievable else None
        if retrievable and (got is None or got.get('host') != records[sorted(retrievable)[0]]['host']):
            ctx.violation('state-api-get-misses-retrievable-finished-record', '%s: %r' % (sorted(retrievable)[0], got),
                          case=dict(case=idx))
        ctx.done(case_desc=None, nontrivial=False, evals=1)
    finally:
        context.GLOBAL.set('cell', old_cell)
        env.VClock.uninstall()
        tempfile.tempdir = old_tmp
        shutil.rmtree(tmp, ignore_errors=True)


RACING_WORLDS = 8


def racing_reader_case(ctx, idx, rng):
    """The retrieval side WHILE the archiver runs: the REAL state API (treadmill.api.state.API with its five watchers)
    reads a cell whose finished records the REAL archiver moves into snapshots at that very moment.  Per world
    (RACING_WORLDS small cells): 3-16 finished records (most of them expired), batch sizes 1-4, optionally an earlier
    archiving pass; the reader's watch notifications are queued and delivered one at a time (kazoo's single callback
    thread); one iteration of the archiver service runs at a seeded ZooKeeper read of the reader - during its start-up
    (mode start-up) or during the callback of a later /finished notification after further records were written (mode
    lagging-watch); past the reader's last read it runs right after.  The oracle is evaluated after the start-up and after
    every single delivered notification, from what the reader has been TOLD (its last listing of /finished and of
    /finished.history, observed at its client): a record that is live and was in its last /finished listing, or that is a
    row of a present snapshot that was in its last /finished.history listing, is returned by API.get with its own host
    and is part of API.list(finished=True).  (Nothing is demanded for a record the reader has not been told about yet.)"""
    for world in range(RACING_WORLDS):
        _racing_world(ctx, idx, world, rng)
    ctx.done(case_desc=None, nontrivial=False, evals=RACING_WORLDS)


def _racing_world(ctx, idx, world, rng):
    import json
    import time
    import kazoo.exceptions
    from treadmill import context
    from treadmill import zknamespace as z
    from treadmill.api import state as api_state
    from treadmill.sproc import trace as sproc_trace
    cleanup_cmd = sproc_trace.init().commands['cleanup']
    clock = env.VClock(base=NOW, tick=0.0)
    clock.install()
    tmp = tempfile.mkdtemp(prefix='vf-c18-', dir='/dev/shm' if os.path.isdir('/dev/shm') and os.access('/dev/shm', os.W_OK) else None)
    old_tmp = tempfile.tempdir
    tempfile.tempdir = tmp
    old_cell = context.GLOBAL.get('cell', resolve=False)
    try:
        srv = zkfake.ZkServer(clock=clock.peek)
        srv.child_order, srv.order_salt = 'hash', '%d-%d' % (idx, world)
        adm = srv.client('admin')
        for p in (z.SCHEDULED, z.RUNNING, z.FINISHED, z.TRACE_HISTORY, z.FINISHED_HISTORY, z.SERVER_TRACE_HISTORY):
            adm.ensure_path(p)
        for sh in z.trace_shards() + z.server_trace_shards():
            adm.ensure_path(sh)
        fexpires = rng.choice([60, 300])
        fbatch = rng.randint(1, 4)
        mode = rng.choice(['start-up', 'start-up', 'lagging-watch'])
        records = {}
        serial = [0]

        def finish(expired):
            serial[0] += 1
            name = 'proid.app%d#%010d' % (rng.randint(0, 1), serial[0])
            when = NOW - fexpires + (-rng.choice([1, 50, 4000]) - rng.random() if expired else rng.choice([1, 40]))
            rec = dict(state=rng.choice(['finished', 'finished', 'killed', 'aborted']), host='host%d' % rng.randint(0, 9),
                       when=when, data=rng.choice(['0.0', '1.0', '256.9', 'oom']))
            adm.create(z.path.finished(name), json.dumps(rec).encode())
            srv.nodes[z.path.finished(name)].mtime = int(when * 1000)
            records[name] = rec

        def archiver(tag):
            """One iteration of the real archiver service on a session of its own."""
            conn = getattr(context.GLOBAL.zk, '_conn', None)   # pylint: disable=protected-access
            context.GLOBAL.zk._conn = srv.client(tag)          # pylint: disable=protected-access
            real_sleep = time.sleep

            def stop(_secs):
                raise _Stop()
            time.sleep = stop
            try:
                cleanup_cmd.callback(
                    interval=60, trace_evictions_max_count=1000, trace_service_events_max_count=1000,
                    trace_batch_size=50, trace_expire_after=300, trace_history_max_count=5,
                    finished_batch_size=fbatch, finished_expire_after=fexpires, finished_history_max_count=100,
                    no_lock=True)             # (the history cap keeps every snapshot of this world)
            except _Stop:
                pass
            finally:
                time.sleep = real_sleep
                context.GLOBAL.zk._conn = conn                  # pylint: disable=protected-access

        for _ in range(rng.randint(3, 16)):
            finish(rng.random() < 0.8)
        if rng.random() < 0.4:
            archiver('archiver-earlier')                        # an earlier pass: snapshots exist when the reader starts
            for _ in range(rng.randint(2, 8)):
                finish(rng.random() < 0.8)

        # the reader: its client is observed at the boundary (what it listed, which reads met no node)
        reader = srv.client('state-api')
        told = {}
        vanished = set()
        reads = [0]
        trigger = [None]
        real_children, real_get = reader.get_children, reader.get

        def get_children(path, watch=None, include_data=False):
            res = real_children(path, watch=watch, include_data=include_data)
            told[path] = set(res[0] if include_data else res)
            return res

        def get(path, watch=None):
            try:
                # (kazoo registers no watch for a falsy `watch`; zkutils.get_default(zkclient, path, {}) passes {})
                return real_get(path, watch=watch or None)
            except kazoo.exceptions.NoNodeError:
                if os.path.dirname(path) == z.FINISHED:
                    vanished.add(os.path.basename(path))
                    ctx.count('state_api_reader_read_of_listed_finished_record_met_no_node')
                raise
        reader.get_children, reader.get = get_children, get

        def on_op(client, _op, _path):
            if client is reader and trigger[0] is not None:
                reads[0] += 1
                if reads[0] == trigger[0]:
                    trigger[0] = None
                    ctx.count('archiver_runs_inside_a_read_sequence_of_the_state_api')
                    archiver('archiver-racing')
        srv.on_op = on_op
        srv.sync_delivery = False

        def evaluate(stage):
            live = set(srv.children(z.FINISHED))
            snaps = set(srv.children(z.FINISHED_HISTORY))
            in_snapshot = {}
            for sn in snaps:
                for _path, name in rows_of(srv.nodes[z.path.finished_history(sn)].data, 'finished'):
                    in_snapshot.setdefault(name, sn)
            known = {}
            for name in records:
                if name in live and name in told.get(z.FINISHED, ()):
                    known[name] = 'live'
                elif name in in_snapshot and in_snapshot[name] in told.get(z.FINISHED_HISTORY, ()):
                    known[name] = 'archived'
            on_op_was, srv.on_op = srv.on_op, None
            try:
                listed = {i['name'] for i in api.list(match='proid.*', finished=True)}
                for name, where in sorted(known.items()):
                    ctx.count('state_api_lookups_next_to_running_archiver')
                    pending = where == 'archived' and name in told.get(z.FINISHED, ())
                    if pending:
                        # archived, its snapshot announced to the reader, the removal from /finished not yet
                        ctx.count('state_api_lookup_of_archived_record_before_the_removal_is_announced')
                        if name in vanished:
                            ctx.count('state_api_lookup_of_record_archived_between_listing_and_read')
                    got = api.get(name)
                    case = dict(case=idx, world=world, mode=mode, fbatch=fbatch, stage=stage)
                    if got is None or got.get('host') != records[name]['host'] or got.get('state') != records[name]['state']:
                        ctx.violation('state-api-get-misses-%s-finished-record:reader-next-to-running-archiver%s' % (
                            where, ':removal-not-yet-announced' if pending else ''),
                                      '%s (%s; %s): the record is %s and the state API has been told so, API.get returned %r' % (
                                          name, mode, stage, 'live' if where == 'live' else 'a row of the present snapshot %s' % in_snapshot[name],
                                          got), case=case)
                    elif name not in listed:
                        ctx.violation('state-api-listing-misses-%s-finished-record:reader-next-to-running-archiver' % where,
                                      '%s (%s; %s): API.get finds the record, API.list(finished=True) does not' % (name, mode, stage),
                                      case=case)
            finally:
                srv.on_op = on_op_was

        context.GLOBAL.cell = 'vfcell'
        context.GLOBAL.zk._conn = reader       # pylint: disable=protected-access
        n_reads = 8 + len(srv.children(z.FINISHED)) + len(srv.children(z.FINISHED_HISTORY))
        if mode == 'start-up':
            trigger[0] = rng.randint(1, n_reads)
        api = api_state.API()
        if mode == 'lagging-watch':
            # the cell goes on: further records are written, the reader learns of them by a notification, and the
            # archiver runs while the reader's callback reads them
            evaluate('started')
            more = rng.randint(2, 8)
            for _ in range(more):
                finish(rng.random() < 0.85)
            trigger[0] = rng.randint(1, more + 2)
        elif trigger[0] is not None:
            trigger[0] = None
            archiver('archiver-after-start-up')
        evaluate('started')
        deliveries = 0
        while srv.pending:
            srv.deliver(limit=1)
            deliveries += 1
            if trigger[0] is not None and not srv.pending:
                trigger[0] = None
                archiver('archiver-after-callback')
            evaluate('after-notification-%d' % deliveries)
            if deliveries > 200:
                raise RuntimeError('racing reader world does not quiesce')
        ctx.count('state_api_reader_racing_worlds:' + mode)
        # at quiescence the reader has been told everything: every record is live or archived, and retrievable
        srv.on_op = None
        lost = sorted(set(records) - set(srv.children(z.FINISHED)) - {n for n in records if api.get(n)})
        if lost:
            ctx.violation('state-api-get-misses-finished-record:quiescent-reader-after-racing-archiver',
                          'records %s neither live nor returned by API.get after all notifications were delivered' % lost[:3],
                          case=dict(case=idx, world=world, mode=mode, fbatch=fbatch))
    finally:
        context.GLOBAL.set('cell', old_cell)
        env.VClock.uninstall()
        tempfile.tempdir = old_tmp
        shutil.rmtree(tmp, ignore_errors=True)


def run(ctx):
    import time
    from treadmill import context
    from treadmill import zknamespace as z
    from treadmill.api import state as api_state
    from treadmill.sproc import trace as sproc_trace
    from treadmill.trace import _zk as trace_zk
    from . import c15
    cleanup_cmd = sproc_trace.init().commands['cleanup']
    from treadmill.trace.app import zk as app_zk
    from treadmill.trace.server import zk as server_zk

    # the readers run on one host that looks at many cells over time (every case is another cell): what a reader
    # leaves in the host's temp directory is still there for the next cell
    reader_tmp = tempfile.mkdtemp(prefix='vf-c18-reader-', dir='/dev/shm' if os.path.isdir('/dev/shm') and os.access('/dev/shm', os.W_OK) else None)
    try:
        _cases(ctx, reader_tmp)
    finally:
        shutil.rmtree(reader_tmp, ignore_errors=True)


def _cases(ctx, reader_tmp):
    import time
    from treadmill import context
    from treadmill import zknamespace as z
    from treadmill.api import state as api_state
    from treadmill.sproc import trace as sproc_trace
    from treadmill.trace import _zk as trace_zk
    from . import c15
    cleanup_cmd = sproc_trace.init().commands['cleanup']
    from treadmill.trace.app import zk as app_zk
    from treadmill.trace.server import zk as server_zk
    for idx, rng in ctx.cases():
        if idx == 2:
            listing_case(ctx, idx, rng)
            # (own random stream: the listing case is what it was)
            racing_reader_case(ctx, idx, ctx.case_rng(idx, 'racing-reader'))
            continue
        # the earlier archiving pass (round 0) happens a little before the run under test (everything round 0 writes
        # is at least 2750 s older than any expiry, so ten seconds change nothing of what it archives)
        clock = env.VClock(base=NOW - 10, tick=0.0)
        clock.install()
        # the archiver's sqlite files fsync: keep them on tmpfs when there is one
        tmp = tempfile.mkdtemp(prefix='vf-c18-', dir='/dev/shm' if os.path.isdir('/dev/shm') and os.access('/dev/shm', os.W_OK) else None)
        old_tmp = tempfile.tempdir
        tempfile.tempdir = tmp
        try:
            srv = zkfake.ZkServer(clock=clock.peek)
            srv.keep_log = True
            srv.child_order, srv.order_salt = 'hash', str(idx)
            adm = srv.client('admin')
            for p in (z.SCHEDULED, z.FINISHED, z.TRACE_HISTORY, z.FINISHED_HISTORY, z.SERVER_TRACE_HISTORY, z.SERVERS):
                adm.ensure_path(p)
            for sh in z.trace_shards() + z.server_trace_shards():
                adm.ensure_path(sh)
            # the servers whose events are traced are configured in the cell (/servers/<name>); an operator removes
            # and configures servers again over time (re-imaged, moved to another partition), the server trace is
            # keyed by the server name and outlives the node.  (Own random stream: the population's is unchanged.)
            srng = ctx.case_rng(idx, 'servers')
            servers_cfg = {}
            for n in range(4):
                if srng.random() < 0.8:
                    servers_cfg['srv%d' % n] = 'configured'
                    adm.create(z.path.server('srv%d' % n), b'{"parent": "rack:r1", "partition": "_default"}')
            expires = rng.choice([60, 300, 300])
            batch = rng.randint(1, 7)
            fbatch = rng.randint(1, 5)
            sbatch = batch                     # the service archives server events with the trace batch size
            maxhist = rng.randint(1, 4)
            fmaxhist = rng.randint(1, 4)
            # finished records have their own expiry
            fexpires = rng.choice([expires, expires, 30, 600, 3600])
            insts = ['proid.app%d#%010d' % (rng.randint(0, 2), rng.randrange(10 ** 4)) for _ in range(rng.randint(4, 12))]
            insts = sorted(set(insts))
            # one case per shard archives a batch whose compressed snapshot is well above 1 MB (long event data)
            bulky = idx == 1
            if bulky:
                batch = 1100
                ctx.count('bulky_cases')
            scheduled = {i for i in insts if rng.random() < 0.35}
            for i in scheduled:
                adm.create(z.path.scheduled(i), b'{}')

            def populate(round_no):
                if bulky and round_no == 1:
                    inst = [i for i in insts if i not in scheduled] or [insts[0]]
                    scheduled.discard(inst[0])
                    if adm.exists(z.path.scheduled(inst[0])):
                        adm.delete(z.path.scheduled(inst[0]))
                    import string as _string
                    for n in range(1150):
                        data = ''.join(rng.choice(_string.ascii_letters + _string.digits) for _ in range(520))
                        adm.create(z.path.trace(inst[0], '%s,hostx,pending,%s' % (NOW - expires - 5000 - n, data)), b'')
                for i in insts:
                    for n in range(rng.randint(0, 9)):
                        off = rng.choice([-5, -0.5, 0.5, 5, -1000, -100000, 100, 250]) - (3000 if round_no == 0 else 0)
                        ts = NOW - expires + off + rng.random() * 0.01
                        # event type and data as the product writes them (the archiver's pruning passes parse them)
                        _ts, _src, _inst, etype, edata, _payload = c15.gen_event(rng)[3].to_data()
                        node = '%s,%s,host%d,%s,%s' % (i, ts, rng.randint(0, 3), etype, edata)
                        path = z.path.trace(i, node.split(',', 1)[1])
                        if not adm.exists(path):
                            adm.create(path, b'')
                        if rng.random() < 0.25:
                            # two events of one instance in the same tick (equal timestamps, e.g. two services reporting
                            # at once): an archiving batch may end between them
                            _ts2, _src2, _inst2, etype2, edata2, _p2 = c15.gen_event(rng)[3].to_data()
                            twin = z.path.trace(i, '%s,host%d,%s,%s' % (ts, rng.randint(0, 3), etype2, edata2))
                            if not adm.exists(twin):
                                adm.create(twin, b'')
                                ctx.count('events_with_equal_timestamps')
                for i in insts:
                    # (a stale terminal event of a host that no longer owns the placement leaves a /finished
                    # record for an instance that is still scheduled: trace.app.zk.publish + _unschedule)
                    if (i not in scheduled and rng.random() < 0.6 or i in scheduled and rng.random() < 0.35) \
                            and not adm.exists(z.path.finished(i)):
                        adm.create(z.path.finished(i), ('{"state": "finished", "n": %d}' % rng.randint(0, 99)).encode())
                        srv.nodes[z.path.finished(i)].mtime = int((NOW - fexpires + rng.choice([-5, -0.5, 0.5, 5, -1000, 200])
                                                                   - (3000 if round_no == 0 else 0)) * 1000)
                for s in range(rng.randint(0, 10)):
                    host = 'srv%d' % rng.randint(0, 3)
                    ts = NOW - rng.choice([1, 50, 500, 5000]) + rng.random()
                    path = z.path.server_trace(host, '%s,m,server_state,up' % ts)
                    if not adm.exists(path):
                        adm.create(path, b'')

            def archiver(client):
                """One iteration of the real archiver service (treadmill.sproc.trace `cleanup`, run without the
                election lock): its loop is stopped at the sleep between two iterations."""
                context.GLOBAL.zk._conn = client       # pylint: disable=protected-access
                real_sleep = time.sleep

                def stop(_secs):
                    raise _Stop()
                time.sleep = stop
                try:
                    cleanup_cmd.callback(
                        interval=60, trace_evictions_max_count=1000, trace_service_events_max_count=1000,
                        trace_batch_size=batch, trace_expire_after=expires, trace_history_max_count=maxhist,
                        finished_batch_size=fbatch, finished_expire_after=fexpires, finished_history_max_count=fmaxhist,
                        no_lock=True)
                except _Stop:
                    pass
                finally:
                    time.sleep = real_sleep

            # round 0: an earlier archiving pass leaves history snapshots behind
            populate(0)
            archiver(srv.client('archiver-0'))
            clock.set(NOW - 5)
            for name in sorted(servers_cfg):
                r = srng.random()
                if r < 0.45:
                    adm.delete(z.path.server(name))
                    adm.create(z.path.server(name), b'{"parent": "rack:r2", "partition": "p1"}')
                    servers_cfg[name] = 'removed-and-configured-again'
                elif r < 0.6:
                    adm.delete(z.path.server(name))
                    servers_cfg[name] = 'removed'
            clock.set(NOW)
            populate(1)
            # a consumer of the finished history that follows /finished.history with a watch: the state API
            cell_state = api_state.CellState()
            api_state.watch_finished_history(srv.client('state-api'), cell_state)
            base = srv.snapshot()
            log0 = len(srv.log)

            def live_sets():
                tr = set()
                for sh in srv.children(z.TRACE):
                    for e in srv.children(z.path.trace_shard(sh)):
                        tr.add(z.join_zookeeper_path(z.TRACE, sh, e))
                fin = {z.path.finished(f) for f in srv.children(z.FINISHED)}
                st = set()
                for sh in srv.children(z.SERVER_TRACE):
                    for e in srv.children(z.path.server_trace_shard(sh)):
                        st.add(z.join_zookeeper_path(z.SERVER_TRACE, sh, e))
                return tr, fin, st

            before = live_sets()
            hist_before = {h: srv.children(h) for h in (z.TRACE_HISTORY, z.FINISHED_HISTORY, z.SERVER_TRACE_HISTORY)}
            must_stay = set()
            for p in before[0]:
                inst, ts, _ = os.path.basename(p).split(',', 2)
                if inst in scheduled or float(ts) >= NOW - expires:
                    must_stay.add(p)
            for p in before[1]:
                if srv.nodes[p].mtime / 1000.0 >= NOW - fexpires:
                    must_stay.add(p)

            def evaluate(tag, k, total):
                case = dict(case=idx, cut=k, of=total, batch=batch, fbatch=fbatch, sbatch=sbatch, maxhist=maxhist, fmaxhist=fmaxhist, expires=expires, fexpires=fexpires)
                tr, fin, st = live_sets()
                # rows of every snapshot created so far in this run (from the write log) and of those present before
                archived = {}
                tables = {z.TRACE_HISTORY: 'trace', z.FINISHED_HISTORY: 'finished', z.SERVER_TRACE_HISTORY: 'server_trace'}
                created = [(p, v) for (_zx, _sid, op, p, v) in srv.log[log0:] if op == 'create' and os.path.dirname(p) in tables]
                for p, v in created:
                    for path, name in rows_of(v, tables[os.path.dirname(p)]):
                        archived[path] = p
                for h, table in tables.items():
                    for n in srv.children(h):
                        data = srv.nodes[h + '/' + n].data
                        for path, name in rows_of(data, table):
                            archived.setdefault(path, h + '/' + n)
                for kind, was, now_live in (('trace-event', before[0], tr), ('finished-record', before[1], fin),
                                            ('server-event', before[2], st)):
                    lost = sorted(p for p in was if p not in now_live and p not in archived)
                    if lost:
                        ctx.violation('lost:%s:%s' % (kind, tag), '%d %ss neither live nor in any snapshot, e.g. %s (cut at write %s of %s)' % (
                            len(lost), kind, lost[0], k, total), case=case)
                gone = sorted(p for p in must_stay if p not in tr and p not in fin)
                if gone:
                    inst = os.path.basename(gone[0]).split(',')[0]
                    why = 'scheduled-instance' if inst in scheduled else 'younger-than-expiry'
                    ctx.violation('archived-prematurely:%s' % why, '%s left the live tree (%d in total; cut %s of %s)' % (gone[0], len(gone), k, total), case=case)
                else:
                    ctx.count('young_or_scheduled_kept', len(must_stay))
                # history pruning: only the oldest names may disappear, the newest max_count stay
                for h in tables:
                    names_ever = sorted(set(hist_before[h]) | {os.path.basename(p) for p, _v in created if os.path.dirname(p) == h})
                    nowh = srv.children(h)
                    removed = [n for n in names_ever if n not in nowh]
                    if removed:
                        ctx.count('history_pruned')
                        keep = names_ever[-(fmaxhist if h == z.FINISHED_HISTORY else maxhist):]
                        if any(n in keep for n in removed) or removed != names_ever[:len(removed)]:
                            ctx.violation('history-pruned-wrong-snapshots', '%s: had %s, removed %s with max_count %d' % (h, names_ever, removed, fmaxhist if h == z.FINISHED_HISTORY else maxhist), case=case)
                return archived, created

            # un-cut run: count the writes
            cl = srv.client('archiver')
            # (the watch notifications of this pass reach the watchers afterwards, in one go: a busy consumer
            # sees the uploads and the prunings of a pass as one change of the listing)
            srv.sync_delivery = False
            try:
                archiver(cl)
            finally:
                srv.sync_delivery = True
            srv.deliver()
            total = cl.writes
            archived, created = evaluate('complete-run', total, total)
            present_f = set(srv.children(z.FINISHED_HISTORY))
            live_f = {os.path.basename(p_) for p_ in live_sets()[1]}
            for path, snap in sorted(archived.items()):
                if os.path.dirname(snap) == z.FINISHED_HISTORY and os.path.basename(snap) in present_f:
                    inst_f = os.path.basename(path)
                    ctx.count('state_api_finished_history_checked')
                    if inst_f not in live_f and inst_f not in cell_state.finished_history:
                        ctx.violation('state-api-misses-archived-finished-record', '%s is archived in the present snapshot %s, the state '
                                      'API watcher of /finished.history does not know it (%d records loaded)' % (
                                          inst_f, snap, len(cell_state.finished_history)), case=dict(case=idx))
                        break
            nb = len(created)
            ctx.count('batches_archived', nb)
            # no short batch: number of rows per created snapshot equals its batch size
            sizes = {z.TRACE_HISTORY: batch, z.FINISHED_HISTORY: fbatch, z.SERVER_TRACE_HISTORY: sbatch}
            tables = {z.TRACE_HISTORY: 'trace', z.FINISHED_HISTORY: 'finished', z.SERVER_TRACE_HISTORY: 'server_trace'}
            for p, v in created:
                h = os.path.dirname(p)
                n = len(rows_of(v, tables[h]))
                if n != sizes[h]:
                    ctx.violation('short-batch-archived', '%s holds %d rows, batch size %d' % (p, n, sizes[h]), case=dict(case=idx))
            # download_batch finds the archived events of an instance in a present snapshot
            tempfile.tempdir = reader_tmp
            present = srv.children(z.TRACE_HISTORY)
            by_snap = {}
            for path, snap in archived.items():
                if os.path.dirname(snap) == z.TRACE_HISTORY and os.path.basename(snap) in present and path in before[0]:
                    by_snap.setdefault(snap, []).append(os.path.basename(path))
            for snap, names in list(by_snap.items())[:3]:
                inst = names[0].split(',')[0]
                want = sorted(n for n in names if n.split(',')[0] == inst)
                got = sorted(trace_zk.download_batch(srv.client('reader'), snap, 'trace', inst))
                ctx.count('download_batch_checked')
                if not set(want) <= set(got):
                    ctx.violation('download-batch-misses-events', '%s for %s: archived %s, download_batch returned %s' % (snap, inst, want, got), case=dict(case=idx))
            # the product's own reader (AppTraceLoop._process_db_events, what `treadmill trace` uses for an
            # instance that is no longer scheduled) is handed every archived event of the instance that sits
            # in a present snapshot; observed at _process_events, before its ordering / duplicate filter
            per_inst = {}
            for path, snap in archived.items():
                if os.path.dirname(snap) == z.TRACE_HISTORY and os.path.basename(snap) in present:
                    per_inst.setdefault(os.path.basename(path).split(',')[0], {}).setdefault(os.path.basename(snap), []).append(os.path.basename(path))
            order = sorted(present)
            for inst in sorted(per_inst)[:6]:
                if inst in scheduled:
                    continue
                handed = []
                loop = app_zk.AppTraceLoop(srv.client('trace-reader'), inst, None)
                loop._process_events = lambda events, _ctx, handed=handed: handed.extend(events)     # pylint: disable=protected-access
                loop._process_db_events(None)          # pylint: disable=protected-access
                want = sorted(n for names in per_inst[inst].values() for n in names)
                ctx.count('trace_reader_checked')
                idxs = sorted(order.index(sn) for sn in per_inst[inst])
                if len(idxs) > 1 and idxs[-1] - idxs[0] + 1 > len(idxs):
                    ctx.count('trace_reader_instance_in_non_adjacent_snapshots')
                # ... and the whole reader, AppTraceLoop.run(snapshot=True) with a recording handler: when the
                # snapshots are listed oldest first (what their sequence numbers give once sorted) every archived
                # and every live event of the instance reaches the consumer (the loop drops an event that is
                # older than the one before it, so the order in which history and live events are read matters)
                srv.child_order = 'sorted'
                try:
                    delivered = []
                    loop2 = app_zk.AppTraceLoop(srv.client('trace-reader-2'), inst, None)
                    loop2._process_event = (                    # pylint: disable=protected-access
                        lambda name, ts, src, etype, edata, _ctx, delivered=delivered:
                        delivered.append(','.join([name, ts, src, etype, edata])))
                    loop2.run(snapshot=True)
                finally:
                    srv.child_order = 'hash'
                live_now = sorted(os.path.basename(p_) for p_ in live_sets()[0] if os.path.basename(p_).split(',')[0] == inst)
                # reference: history oldest snapshot first, then the live events; within each listing sorted; an
                # event older than the one delivered before it (or identical) is skipped - the loop's documented rule
                expect, last = [], None
                for listing in [per_inst[inst].get(sn, []) for sn in order] + [live_now]:
                    for ev in sorted(tuple(n.split(',')) for n in listing):
                        if last is not None and (ev[1] < last[1] or ev == last):
                            continue
                        expect.append(','.join(ev))
                        last = ev
                ctx.count('trace_reader_run_checked')
                if delivered != expect:
                    missing = [e for e in expect if e not in delivered]
                    ctx.violation('trace-reader-run-drops-events' if missing else 'trace-reader-run-differs',
                                  '%s: reading history then live events should deliver %d events, the reader delivered %d; '
                                  'e.g. %s' % (inst, len(expect), len(delivered), (missing or delivered)[0]),
                                  case=dict(case=idx, archived=len(want), live=len(live_now)))
                if not set(want) <= set(handed):
                    miss = sorted(set(want) - set(handed))
                    ctx.violation('trace-reader-misses-archived-events', '%s: %d archived events in present snapshots %s, the reader was '
                                  'handed %d; missing e.g. %s' % (inst, len(want), sorted(per_inst[inst]), len(set(handed) & set(want)), miss[0]),
                                  case=dict(case=idx))
            # the server-trace reader (ServerTraceLoop, what `treadmill admin trace-server` style consumers use): every
            # archived event of a server that sits in a present /server-trace.history snapshot is handed to it, and the
            # whole reader delivers history (oldest snapshot first) then live events by its ordering rule - whether the
            # server is configured, was removed, or was removed and configured again since its events were archived
            present_s = set(srv.children(z.SERVER_TRACE_HISTORY))
            order_s = sorted(present_s)
            per_srv = {}
            for path, snap in archived.items():
                if os.path.dirname(snap) == z.SERVER_TRACE_HISTORY and os.path.basename(snap) in present_s:
                    per_srv.setdefault(os.path.basename(path).split(',')[0], {}).setdefault(os.path.basename(snap), []).append(os.path.basename(path))
            live_srv = {}
            for p_ in live_sets()[2]:
                live_srv.setdefault(os.path.basename(p_).split(',')[0], []).append(os.path.basename(p_))
            for name in sorted(set(per_srv) | set(live_srv)):
                status = servers_cfg.get(name, 'never-configured')
                handed = []
                loop = server_zk.ServerTraceLoop(srv.client('server-trace-reader'), name, None)
                loop._process_events = lambda events, _ctx, handed=handed: handed.extend(events)     # pylint: disable=protected-access
                loop._process_db_events(None)          # pylint: disable=protected-access
                want = sorted(n for names in per_srv.get(name, {}).values() for n in names)
                ctx.count('server_trace_reader_checked')
                if want:
                    ctx.count('server_trace_reader_archived_events_of_%s_server' % status.replace('-', '_'))
                srv.child_order = 'sorted'
                try:
                    delivered = []
                    loop2 = server_zk.ServerTraceLoop(srv.client('server-trace-reader-2'), name, None)
                    loop2._process_event = (                    # pylint: disable=protected-access
                        lambda oname, ts, src, etype, edata, _ctx, delivered=delivered:
                        delivered.append(','.join([oname, ts, src, etype, edata])))
                    loop2.run(snapshot=True)
                finally:
                    srv.child_order = 'hash'
                expect, last = [], None
                for listing in [per_srv.get(name, {}).get(sn, []) for sn in order_s] + [live_srv.get(name, [])]:
                    for ev in sorted(tuple(n.split(',')) for n in listing):
                        if last is not None and (ev[1] < last[1] or ev == last):
                            continue
                        expect.append(','.join(ev))
                        last = ev
                if delivered != expect:
                    missing = [e for e in expect if e not in delivered]
                    ctx.violation('server-trace-reader-run-drops-events' if missing else 'server-trace-reader-run-differs',
                                  '%s (%s): reading history then live events should deliver %d events, the reader delivered %d; '
                                  'e.g. %s' % (name, status, len(expect), len(delivered), (missing or delivered or expect)[0]),
                                  case=dict(case=idx, server=status, archived=len(want), live=len(live_srv.get(name, []))))
                if not set(want) <= set(handed):
                    miss = sorted(set(want) - set(handed))
                    ctx.violation('server-trace-reader-misses-archived-events', '%s (%s): %d archived events in present snapshots %s, the '
                                  'reader was handed %d; missing e.g. %s' % (name, status, len(want), sorted(per_srv[name]),
                                                                            len(set(handed) & set(want)), miss[0]),
                                  case=dict(case=idx, server=status))
            # the lookup by name (trace.app.zk.list_traces, behind `treadmill admin trace <app>`): an instance that is
            # scheduled, has a live finished record, or whose finished record sits in a present /finished.history
            # snapshot is found by the bare application name, by an explicit wildcard and by its own instance id
            fin_archived = {os.path.basename(path) for path, snap in archived.items()
                            if os.path.dirname(snap) == z.FINISHED_HISTORY and os.path.basename(snap) in present_f}
            sched_now = set(srv.children(z.SCHEDULED))
            lrng = ctx.case_rng(idx, 'list-traces')
            for app in sorted({i.split('#')[0] for i in insts}):
                mine = lambda names, app=app: {n for n in names if n.split('#')[0] == app}      # pylint: disable=unnecessary-lambda-assignment
                live_part = mine(sched_now) | mine(live_f)
                arch_part = mine(fin_archived)
                if live_part and arch_part - live_part:
                    ctx.count('list_traces_app_with_live_and_archived_instances')
                lookups = [(app, 'application-name'), (app + '#*', 'wildcard')]
                if arch_part:
                    one = lrng.choice(sorted(arch_part))
                    lookups.append((one, 'instance-id'))
                for pattern, form in lookups:
                    listed = set(app_zk.list_traces(srv.client('trace-lister'), pattern))
                    ctx.count('list_traces_checked')
                    scope = (live_part | arch_part) if form != 'instance-id' else {pattern}
                    missing = sorted(scope - listed)
                    if missing:
                        where = 'archived-finished-record' if missing[0] in arch_part and missing[0] not in live_part else 'live-instance'
                        ctx.violation('list-traces-misses-%s:by-%s' % (where, form),
                                      'list_traces(%r) returned %d of the %d instances that are scheduled, finished or archived in a '
                                      'present snapshot; missing e.g. %s (%d live, %d archived)' % (
                                          pattern, len(listed & scope), len(scope), missing[0], len(live_part), len(arch_part)),
                                      case=dict(case=idx, form=form))
            tempfile.tempdir = tmp
            # every write is a crash point
            cut_points = range(1, total + 1)
            if bulky:
                cut_points = sorted({1, 2, 3, total // 2, total - 1, total} & set(range(1, total + 1)))
            for k in cut_points:
                srv.restore(base)
                del srv.log[log0:]
                cl = srv.client('archiver-cut-%d' % k)
                cl.crash_at = k
                try:
                    archiver(cl)
                except zkfake.Crash:
                    pass
                evaluate('crash-cut', k, total)
                ctx.count('cuts')
                if nb and 1 < k < total:
                    ctx.count('cuts_mid_run')
                    ctx.nontrivial_key((ctx.shard, idx, k))
            ctx.done(case_desc=None, nontrivial=False, evals=total + 1,
                     sample=dict(case=idx, instances=len(insts), scheduled=len(scheduled), live_events=len(before[0]),
                                 finished=len(before[1]), server_events=len(before[2]), batch=batch, writes=total,
                                 snapshots_created=nb) if idx == 0 else None)
        finally:
            env.VClock.uninstall()
            tempfile.tempdir = old_tmp
            shutil.rmtree(tmp, ignore_errors=True)
