"""C05 - identities unique, in range, held only by placed instances."""
from ._sched_common import LEVEL, ASSUMPTIONS, BUDGET, make_run

RULE = ('history generator of C01 biased to identity groups (count 0-6; grow, shrink, shrink to zero, delete, '
        're-create) under capacity pressure; oracle after every cycle per group: identities of placed instances '
        'distinct and < count, every placed member holds one, unplaced members hold none, available+held == '
        'range(count). In the Master-level histories the STORED placement is examined before every write of every '
        'publication: no identity is recorded for two instances of one group (a successor restores both). Every 8th case '
        'runs the real Master.run_loop() on two threads (vf/master/realloop.py, see C09) with identity groups resized / '
        'squeezed by the operator at the joints of the start-up sequence, while the master is busy with a batch of '
        'events, and across a second master; at idle no placed member holds an identity outside the configured range '
        'or one held twice. Non-trivial: group churn or a group member evicted/removed in the history.')
REQUIRED_REACH = {'*': ['evictions', 'tracker_rejected', 'stored_identities_checked_at_cut', 'real_loop_cases',
                        'real_loop_identity_group_resized', 'real_loop_second_master_started']}


def _tweak(pf, rng):
    pf.p_identity = 0.75
    pf.weights = {'group': 7, 'del_group': 2, 'add_app': 14, 'regroup': 4, 'del_server': 4, 'del_app': 6}
    if rng.random() < 0.35:
        # leases that run into the reboot date: renewals that fail ahead of group members in the same queue
        pf.p_lease = 0.7
        pf.weights.update({'renew': 8, 'valid_until': 5, 'clock': 7})


run = make_run(['C05'], _tweak)
