"""C05 - identities unique, in range, held only by placed instances."""
from ._sched_common import LEVEL, ASSUMPTIONS, BUDGET, make_run

RULE = ('history generator of C01 biased to identity groups (count 0-6; grow, shrink, shrink to zero, delete, '
        're-create) under capacity pressure; oracle after every cycle per group: identities of placed instances '
        'distinct and < count, every placed member holds one, unplaced members hold none, available+held == '
        'range(count). Non-trivial: group churn or a group member evicted/removed in the history.')
REQUIRED_REACH = {'*': ['evictions', 'tracker_rejected']}


def _tweak(pf, rng):
    pf.p_identity = 0.75
    pf.weights = {'group': 7, 'del_group': 2, 'add_app': 14, 'regroup': 4, 'del_server': 4, 'del_app': 6}


run = make_run(['C05'], _tweak)
