"""C19 - accepted reservations never exceed partition capacity or trait limits."""
import copy
import sys
import traceback

LEVEL = 'exploration'
RULE = ('sequences of 10-40 reservation requests (create / update / delete; ids tenant/alloc/cell over 2 cells and 1-3 '
        'partitions, some without a partition record; memory/disk spelled \\d+[KkMmGg], cpu \\d+%; traits from a small '
        'set, in half of the cases some of them named with punctuation (%, :, ., +, space, braces, non-ASCII) or 32 characters long '
        '(common.json#/trait admits any string up to 32); names with capitals; some requests with "partition": null (admitted by the '
        'schema; bound by: accepted => fits the partition the reservation is stored in afterwards, refused => input error and '
        'directory unchanged); partitions with 0-4 per-trait limits, redefined now and then - also below what is already '
        'promised; updates with or without the optional traits field) issued to the '
        'real api.allocation.API().reservation with the real JSON-schema validation, over the real admin objects '
        '(CellAllocation / Partition to_entry/from_entry, _diff_entries) on an in-memory directory. Oracle per request: an '
        'independent sum (own unit parser) over the harness mirror of the stored reservations of the same cell+partition, '
        'the replaced one excluded, per dimension and per limited trait the reservation carries once accepted (the '
        'traits of the request, or - for an update naming none - the stored ones): fits => accepted and '
        'stored as requested; does not fit => exc.InvalidInputError and directory unchanged; any other exception type '
        'is a violation. Non-trivial: the sequence contains a decision where an existing reservation shares a limited '
        'trait with the request, or an update of an existing reservation; distinct by hash of the request kinds/decisions.')
ASSUMPTIONS = ['in-memory LDAP directory under the real treadmill.admin._ldap.Admin (vf/api/ldapfake.py): add/delete/modify/search replaced; in two of three cases instead real ldap3 connections (non-raising, as _connect_to_uri makes them) on the mock directory ldap3 ships (MOCK_SYNC), made to return attribute subtypes (options) like a directory does, under the unmodified Admin - one connection, or a separate write connection',
               'context.GLOBAL.admin._conn set to a real AdminLdapBackend on that directory',
               'schema-invalid requests are outside the domain (a jsonschema ValidationError counts as an input error)']
BUDGET = {'quick': (150, 30.0), 'thorough': (4000, 240.0)}
REQUIRED_REACH = {'*': ['accepted', 'rejected_capacity', 'decisions_with_shared_limited_trait', 'updates_decided', 'rejected_trait_limit',
                        'rejected_trait_limit_of_trait_named_with_punctuation', 'null_partition_requests_answered',
                        'null_partition_updates_of_reservation_outside_default',
                        'rejected_for_less_than_1M_over_the_free_capacity', 'rejected_for_less_than_1M_over_the_free_trait_limit',
                        'accepted_with_a_size_that_is_not_whole_megabytes']}

TRAITS = ['ssd', 'gpu', 'big', 'x86']
# a trait name is any string of up to 32 characters (common.json#/trait): names with punctuation, a 32-character name
ODD_TRAITS = ['spot-50%', '100%', 'a%sb', '%d', 'gen.2', 'tier:1', 'x_y+z', 'rack 7', 'T' * 32, '{0}', 'né']
MANY_TRAITS = TRAITS + ['t%02d' % i for i in range(14)]       # a partition may limit many traits (more than ten, more than sixteen)
UNIT = {'K': 1024, 'M': 1024 ** 2, 'G': 1024 ** 3, 'T': 1024 ** 4}
DECIMAL = {'K': 1000, 'M': 1000 ** 2, 'G': 1000 ** 3, 'T': 1000 ** 4}


def own_bytes(s):
    """Own reading of a size: <n>[KMGT] binary, <n>[KMGT]B decimal, any case, bare number = bytes."""
    s = s.strip().upper()
    if s[-1] == 'B' and len(s) > 1 and s[-2] in DECIMAL:
        return int(s[:-2]) * DECIMAL[s[-2]]
    if s[-1] in UNIT:
        return int(s[:-1]) * UNIT[s[-1]]
    return int(s.rstrip('B'))


def spell_capacity(rng, mb):
    """Partition capacities and trait limits are free-form strings in the directory (not bound by the
    reservation schema): decimal units in either case, terabytes, plain bytes."""
    c = rng.randrange(10)
    if c == 0:
        return '%d%s' % (mb, rng.choice(['MB', 'Mb', 'mb']))           # decimal megabytes
    if c == 1 and mb >= 1024:
        return '%d%s' % (mb // 1024, rng.choice(['GB', 'Gb', 'gb']))   # decimal gigabytes
    if c == 2 and mb >= 2048:
        return '%d%s' % (max(1, mb // (1024 * 1024)) if mb >= 1024 * 1024 else 1, rng.choice(['T', 't', 'TB', 'tb']))
    if c == 3:
        return '%d' % (mb * 1024 * 1024)                               # bytes
    return spell_bytes(rng, mb)


def own_cpu(s):
    return int(s.strip().rstrip('%'))


def spell_bytes(rng, mb):
    c = rng.randrange(5)
    if c == 0 and mb % 1024 == 0:
        return '%d%s' % (mb // 1024, rng.choice('Gg'))
    if c == 1:
        return '%d%s' % (mb * 1024, rng.choice('Kk'))
    return '%d%s' % (mb, rng.choice('Mm'))


def _site(tb):
    frames = traceback.extract_tb(tb)
    for fr in reversed(frames):
        if '/treadmill/' in fr.filename:
            return fr.name
    return frames[-1].name


def run(ctx):
    import jsonschema
    from treadmill import context, exc
    from treadmill.admin import exc as admin_exc
    from treadmill.api import allocation as api_alloc
    from ..api import ldapfake

    for idx, rng in ctx.cases():
        # the directory under the real Admin: the harness' own in-memory one (wire operations of Admin replaced), or
        # - one layer lower - ldap3's mock directory under real ldap3 connections (Admin entirely real), with one
        # connection or with a separate connection to the write server
        layer = ('own', 'ldap3-mock', 'ldap3-mock-write-connection')[idx % 3]
        be = ldapfake.make_backend() if layer == 'own' else ldapfake.make_mock_backend(layer.endswith('write-connection'))
        ctx.count('cases_directory_' + layer)
        context.GLOBAL.admin._conn = be        # pylint: disable=protected-access
        api = api_alloc.API().reservation
        directory = be._ldap_conn
        cells = ['c1', rng.choice(['c2', 'NY-Cell2', 'Z9'])]       # cell names may contain capitals
        # the traits of this installation: plain names, or some of them with punctuation / of maximal length
        tnames = list(TRAITS)
        if rng.random() < 0.5:
            for i, odd in zip(rng.sample(range(4), rng.randint(1, 3)), rng.sample(ODD_TRAITS, 3)):
                tnames[i] = odd
        odd_names = set(tnames) - set(TRAITS)
        many_tnames = tnames + MANY_TRAITS[4:]
        parts = ['_default', 'p1', 'p2'][:rng.randint(1, 3)]
        pcap = {}

        def define_partition(cell, p, shrink=False):
            roomy = rng.random() < 0.5       # partition roomy, trait limits binding
            k = 1 if shrink else 8
            cap = dict(cpu=rng.choice([100, 400, 1000]) * (k if roomy else 1),
                       memory=rng.choice([1024, 4096, 16384]) * (k if roomy else 1),
                       disk=rng.choice([1024, 4096, 16384]) * (k if roomy else 1))
            limits = []
            many = roomy and rng.random() < 0.2
            for t in (rng.sample(many_tnames, rng.randint(11, 18)) if many else
                      rng.sample(tnames, rng.choice([0, 1, 2, 3, 4] if roomy else [0, 0, 1, 2, 3]))):
                limits.append(dict(trait=t, cpu='%d%%' % rng.choice([0, 100, 200, 500, 800]),
                                   memory=spell_capacity(rng, rng.choice([0, 512, 2048, 8192])),
                                   disk=spell_capacity(rng, rng.choice([0, 512, 2048, 8192]))))
            rec = dict(cpu='%d%%' % cap['cpu'], memory=spell_capacity(rng, cap['memory']),
                       disk=spell_capacity(rng, cap['disk']), limits=limits)
            if (cell, p) in pcap:
                if rng.random() < 0.5:
                    # the way the admin CLI changes capacity and per-trait limits: an update of the record (a list of
                    # limits that became shorter - or empty - replaces the stored one)
                    be.partition().update([p, cell], rec)
                    ctx.count('partition_updated_in_place' + ('_limits_emptied' if not limits and pcap[(cell, p)]['limits'] else ''))
                else:
                    be.partition().replace([p, cell], rec)
            else:
                be.partition().create([p, cell], rec)
            pcap[(cell, p)] = dict(cpu=cap['cpu'], memory=own_bytes(rec['memory']), disk=own_bytes(rec['disk']),
                                   limits={l['trait']: dict(cpu=own_cpu(l['cpu']), memory=own_bytes(l['memory']),
                                                            disk=own_bytes(l['disk'])) for l in limits})

        for cell in cells:
            for p in parts:
                if rng.random() < 0.12:
                    continue            # no partition record: zero capacity
                define_partition(cell, p)
        mirror = {}      # (alloc, cell) -> dict(cpu, memory, disk, partition, traits)
        allocs = [rng.choice(['t%d/a%d', 'T%d/Alloc%d', 't%d:sub/a%d', 'top:t%d:x/a%d']) % (rng.randint(0, 1), i) for i in range(rng.randint(2, 5))]
        kinds = []
        nontrivial = False
        for step in range(rng.randint(10, 40)):
            alloc, cell = rng.choice(allocs), rng.choice(cells)
            key = (alloc, cell)
            rid = '%s/%s' % (alloc, cell)
            if pcap and rng.random() < 0.06:
                # the operator redefines a partition: capacity and trait limits may drop below what is
                # already promised (the free capacity the next request is checked against is then negative)
                c2, p2 = rng.choice(sorted(pcap))
                define_partition(c2, p2, shrink=rng.random() < 0.7)
                over = any(sum(m[d] for k, m in mirror.items() if k[1] == c2 and m['partition'] == p2) > pcap[(c2, p2)][d]
                           for d in ('cpu', 'memory', 'disk'))
                ctx.count('partition_redefined_overcommitted' if over else 'partition_redefined')
                kinds.append('repartition')
            if key in mirror and rng.random() < 0.12:
                api.delete(rid)
                del mirror[key]
                kinds.append('delete')
                ctx.count('deletes')
                continue
            if key in mirror and rng.random() < 0.07:
                # a client retries its create (or a second client races it): the directory refuses the duplicate
                dup = dict(cpu='0%', memory='0M', disk='0M', partition=mirror[key]['partition'])
                before = copy.deepcopy(directory.store)
                try:
                    api.create(rid, dup)
                    ctx.violation('duplicate-create-accepted', 'create %s for an existing reservation was accepted' % rid,
                                  case=dict(step=step, id=rid))
                    break
                except (exc.InvalidInputError, admin_exc.AlreadyExistsResult):
                    ctx.count('duplicate_creates_refused')
                if directory.store != before:
                    ctx.violation('store-changed-on-reject', 'duplicate create %s refused but the directory changed' % rid,
                                  case=dict(step=step, id=rid))
                    break
                kinds.append('create:duplicate')
            verb = 'update' if key in mirror else 'create'
            scale = rng.choice([1, 1, 1, 2, 4])
            rsrc = dict(cpu='%d%%' % (rng.choice([0, 10, 50, 100, 200, 300]) * scale),
                        memory=spell_bytes(rng, rng.choice([0, 128, 512, 1024, 2048, 4096]) * scale),
                        disk=spell_bytes(rng, rng.choice([0, 128, 512, 1024, 2048, 4096]) * scale))
            if rng.random() < 0.75 or verb == 'update' and rng.random() < 0.8:
                rsrc['partition'] = rng.choice(parts)
            null_partition = False
            if rng.random() < (0.12 if verb == 'update' else 0.04):
                # the schema admits "partition": null (common.json#/partition is string | null)
                rsrc['partition'] = None
                null_partition = True
            if rng.random() < 0.7:
                rsrc['traits'] = rng.sample(tnames, rng.choice([0, 1, 2, 2, 3, 4]))
                if rng.random() < 0.3:
                    rsrc['traits'] += rng.sample(MANY_TRAITS[4:], rng.randint(1, 3))
            if rng.random() < 0.3:
                rsrc['rank'] = rng.randint(0, 100)
            edge_part = rsrc.get('partition') or ('_default' if verb == 'create' and not null_partition else None)
            if edge_part is not None and rng.random() < 0.2:
                # a request sized to what is left: memory or disk spelled in kilobytes (not a whole number of megabytes
                # as a rule), a little below, exactly at, or a little above the free capacity of the partition - or of a
                # limited trait the request names - next to the reservations already there
                cap_ = pcap.get((cell, edge_part), dict(cpu=0, memory=0, disk=0, limits={}))
                others_ = [m for k, m in mirror.items() if k != key and k[1] == cell and m['partition'] == edge_part]
                dim_ = rng.choice(['memory', 'disk'])
                free_ = cap_[dim_] - sum(o[dim_] for o in others_)
                lim_ = sorted(t for t in rsrc.get('traits', []) if t in cap_['limits'])
                if lim_ and rng.random() < 0.5:
                    t_ = rng.choice(lim_)
                    free_ = min(free_, cap_['limits'][t_][dim_] - sum(o[dim_] for o in others_ if t_ in o['traits']))
                kb_ = free_ // 1024 + rng.choice([-1000, -1, 0, 0, 1, 1, 300, 577, 1000, 1023])
                if kb_ >= 0:
                    rsrc[dim_] = '%d%s' % (kb_, rng.choice('Kk'))
                    if rng.random() < 0.6:
                        # ... and modest in the other dimensions, so that this one decides
                        rsrc['cpu'] = '0%'
                        rsrc['disk' if dim_ == 'memory' else 'memory'] = '0M'
                    ctx.count('requests_in_K_sized_to_the_free_capacity')
            # ---- independent decision
            partition = rsrc.get('partition')
            if partition is None and not null_partition:
                partition = '_default' if verb == 'create' else None
            req = dict(cpu=own_cpu(rsrc['cpu']), memory=own_bytes(rsrc['memory']), disk=own_bytes(rsrc['disk']))
            # the traits the reservation carries once accepted: the request's, or - for an update that
            # names none (absent, or an empty list, which the directory update does not clear) - the stored ones
            carried = list(rsrc.get('traits') or [])
            kept = ''
            if verb == 'update' and not carried and mirror[key]['traits']:
                carried = list(mirror[key]['traits'])
                kept = ':update-keeps-stored-traits:%s' % ('empty-list' if 'traits' in rsrc else 'absent')

            over = {}        # when the decision is 'reject': the deciding dimension and by how much the request exceeds what is free

            def decide(partition):
                """Does the reservation, as it will be stored, fit `partition` of the cell next to the others there?"""
                cap = pcap.get((cell, partition), dict(cpu=0, memory=0, disk=0, limits={}))
                others = [m for k, m in mirror.items() if k != key and k[1] == cell and m['partition'] == partition]
                shared, limiting = False, None
                for dim in ('cpu', 'disk', 'memory'):
                    if req[dim] > cap[dim] - sum(o[dim] for o in others):
                        over['by'] = (dim, req[dim] - (cap[dim] - sum(o[dim] for o in others)))
                        return 'reject', dim, shared, limiting
                for t in carried:
                    if t in cap['limits']:
                        sh = [o for o in others if t in o['traits']]
                        shared = shared or bool(sh)
                        for dim in ('cpu', 'disk', 'memory'):
                            if req[dim] > cap['limits'][t][dim] - sum(o[dim] for o in sh):
                                why = '%s:trait' % dim
                                over['by'] = (dim, req[dim] - (cap['limits'][t][dim] - sum(o[dim] for o in sh)))
                                if kept and t not in (rsrc.get('traits') or []):
                                    why += kept
                                return 'reject', why, shared, t
                return 'accept', None, shared, limiting

            expect = None
            why = None
            shared = False
            limiting = None
            if partition is not None:
                expect, why, shared, limiting = decide(partition)
            before = copy.deepcopy(directory.store)
            outcome, err = 'accept', None
            try:
                getattr(api, verb)(rid, copy.deepcopy(rsrc))
            except exc.InvalidInputError as e:
                outcome, err = 'reject', e
            except jsonschema.exceptions.ValidationError as e:
                outcome, err = 'schema', e
            except Exception as e:      # noqa
                outcome, err = 'exception', e
                et, ev, tb = sys.exc_info()
                site = _site(tb)
            kinds.append('%s:%s' % (verb, outcome))
            case = dict(step=step, verb=verb, id=rid, rsrc=rsrc, expect=expect, why=why,
                        partition_record=pcap.get((cell, partition)),
                        others=[dict(id='%s/%s' % k, **{x: m[x] for x in ('cpu', 'memory', 'disk', 'partition', 'traits')})
                                for k, m in mirror.items() if k != key and k[1] == cell and m['partition'] == partition])
            if shared:
                ctx.count('decisions_with_shared_limited_trait')
                nontrivial = True
            if verb == 'update':
                ctx.count('updates_decided')
                nontrivial = True
            if outcome == 'exception':
                mech = 'exception:%s@%s' % (type(err).__name__, site)
                if null_partition:
                    mech += ':null-partition'
                elif partition is None:
                    mech += ':update-without-partition'
                ctx.violation(mech, '%s %s %r raised %s: %s' % (verb, rid, rsrc, type(err).__name__, err), case=case)
                break
            if outcome == 'schema':
                if partition is None and not null_partition:
                    ctx.count('schema_rejected_update_without_partition')
                    continue
                ctx.violation('schema-rejected-valid-request', '%s %s %r: %s' % (verb, rid, rsrc, str(err)[:200]), case=case)
                break
            null_sfx = ''
            if null_partition:
                # what a null partition means is the product's business; the statement binds the outcome: a request that
                # is accepted fits the partition the reservation is stored in afterwards (as the directory says), and a
                # refusal is an input error that leaves the directory alone
                ctx.count('null_partition_requests_answered')
                if verb == 'update' and mirror[key]['partition'] != '_default':
                    ctx.count('null_partition_updates_of_reservation_outside_default')
                if outcome == 'reject':
                    ctx.count('null_partition_requests_rejected')
                    if directory.store != before:
                        ctx.violation('store-changed-on-reject', '%s %s rejected but the directory changed' % (verb, rid), case=case)
                        break
                    continue
                ctx.count('null_partition_requests_accepted')
                partition = (api.get(rid) or {}).get('partition')
                expect, why, shared, limiting = decide(partition)
                null_sfx = ':request-with-null-partition'
                case.update(expect=expect, why=why, stored_in_partition=partition, partition_record=pcap.get((cell, partition)),
                            others=[dict(id='%s/%s' % k, **{x: m[x] for x in ('cpu', 'memory', 'disk', 'partition', 'traits')})
                                    for k, m in mirror.items() if k != key and k[1] == cell and m['partition'] == partition])
            if expect is None:
                # update without partition got through validation and the check: nothing to compare against
                ctx.count('update_without_partition_answered')
                if outcome == 'accept':
                    old = mirror[key]
                    mirror[key] = dict(cpu=own_cpu(rsrc['cpu']), memory=own_bytes(rsrc['memory']), disk=own_bytes(rsrc['disk']),
                                       partition=old['partition'], traits=list(rsrc.get('traits', old['traits'])))
                continue
            if outcome == 'accept' and expect == 'reject':
                ctx.violation('accepted-but-does-not-fit:%s' % why.split(':')[0] + (':trait-limit' if 'trait' in why else '') +
                              (':' + ':'.join(why.split(':')[2:]) if why.count(':') > 1 else '') + null_sfx,
                              '%s %s %r accepted although %s does not fit%s' % (
                                  verb, rid, rsrc, why, ' partition %r where it is stored now' % partition if null_sfx else ''), case=case)
                break
            if outcome == 'reject' and expect == 'accept':
                ctx.violation('rejected-but-fits' + (':shared-limited-trait' if shared else ''),
                              '%s %s %r rejected (%s) although it fits' % (verb, rid, rsrc, err), case=case)
                break
            if outcome == 'reject':
                ctx.count('rejected_trait_limit' if 'trait' in why else 'rejected_capacity')
                if over['by'][0] != 'cpu' and 0 < over['by'][1] < 1024 * 1024:
                    ctx.count('rejected_for_less_than_1M_over_the_free_' + ('trait_limit' if 'trait' in why else 'capacity'))
                if limiting in odd_names:
                    ctx.count('rejected_trait_limit_of_trait_named_with_punctuation')
                if directory.store != before:
                    ctx.violation('store-changed-on-reject', '%s %s rejected but the directory changed' % (verb, rid), case=case)
                    break
                continue
            ctx.count('accepted')
            if any(own_bytes(rsrc[d_]) % (1024 * 1024) for d_ in ('memory', 'disk')):
                ctx.count('accepted_with_a_size_that_is_not_whole_megabytes')
            old = mirror.get(key, {})
            mirror[key] = dict(cpu=own_cpu(rsrc['cpu']), memory=own_bytes(rsrc['memory']), disk=own_bytes(rsrc['disk']),
                               partition=partition, traits=list(rsrc['traits']) if 'traits' in rsrc else list(old.get('traits', [])))
            got = api.get(rid)
            m = mirror[key]
            if got is None or own_cpu(got['cpu']) != m['cpu'] or own_bytes(got['memory']) != m['memory'] or \
                    own_bytes(got['disk']) != m['disk'] or got.get('partition') != m['partition']:
                ctx.violation('stored-differs-from-request', '%s %s %r stored as %r' % (verb, rid, rsrc, got), case=case)
                break
            # the traits a stored reservation carries are what the directory says (an update with an empty
            # trait list leaves the stored traits as they were: an LDAP-encoding matter, C15, not C19)
            if sorted(got.get('traits', [])) != sorted(m['traits']):
                ctx.count('stored_traits_differ_from_request')
                m['traits'] = list(got.get('traits', []))
        ctx.done(case_desc=kinds, nontrivial=nontrivial,
                 sample=dict(case=idx, partitions={'%s/%s' % k: v for k, v in pcap.items()}, requests=kinds) if nontrivial else None,
                 evals=len(kinds))
