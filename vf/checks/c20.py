"""C20 - the app monitor converges to the target count without overshoot."""
import math
import shutil
import tempfile
import time

from .. import env, zkfake

LEVEL = 'exploration'
RULE = ('the real sproc.appmonitor._run_sync loop (its ChildrenWatch / ExistingDataWatch watches on the in-memory ZooKeeper) '
        'runs 25-70 evaluations per history; time.sleep is rebound to "advance the virtual clock (1 s, or jumps of 30 s-2 h) '
        'and apply the next scripted disturbances": instances dying, monitor count/policy changes (targets 0-12, and in one history of ten one application with a target of 101-250 - the schema admits 0..1000 - whose instances die by the dozen under a clock moving in small steps; fifo/lifo/'
        'unset; a count-only change keeps the configured policy), monitors created and deleted, the connection of the monitor '
        'dropping and coming back (SUSPENDED/CONNECTED, nothing reconfigured), and the REST boundary failing with each handled class (NotFound, BadRequest, '
        'Validation) or an unhandled one or the API unreachable for all retries, for the next create of an application or for the one after 1-2 served ones, for creates and deletes, connections refused before anything is processed, and a reply '
        'lost after the request was processed, and instances of other applications exiting on their own while a request is in flight (the /scheduled watch fires in the middle of an evaluation; the evaluation is judged against the listing it started with), and an evaluation that runs between two statements of the /scheduled watch callback (LINE event local to the callback; the update concerns an application nobody monitors, so old and new listing agree on every monitored one). requests.post is replaced by a stand-in for the cell API that records what the '
        'server processes and dispatches to masterapi.create_apps / delete_apps; the real restclient (status handling, retry '
        'loop) runs above it. Oracle per evaluation and monitor from the recorded calls: '
        'count requested (all create requests the API processed in the evaluation taken together) <= target - current; <= floor of an independent token bucket (2*target/h, cap 2*target, reset on '
        'reconfiguration, debited with every create the API accepted and answered); on surplus exactly current-target instances deleted, oldest first (fifo/unset) '
        'or newest first (lifo) - the policy being the one the operator configured last, recorded by the harness; never create and delete for one application in one evaluation; no call for suspended '
        '(until the deadline) or deleted monitors; bounded progress: once faults stop and the budget is full, current == '
        'target within 2 evaluations. Non-trivial: a history with a handled failure (suspension), a scale-down and a '
        'rate-limited evaluation; distinct by hash of the per-evaluation call kinds.')
ASSUMPTIONS = ['in-memory ZooKeeper fake; requests.post replaced (HTTP boundary; kerberos auth object and the retry sleep of restclient stubbed) and dispatched to masterapi on the same ZooKeeper',
               'time.time / time.sleep rebound: virtual clock with zero tick, the loop is stopped by the sleep hook after N evaluations',
               'alerts are written by the real alert.create into a temp dir']
BUDGET = {'quick': (40, 30.0), 'thorough': (800, 240.0)}
REQUIRED_REACH = {'*': ['evaluations', 'creates_ok', 'scale_down_calls', 'rate_limited', 'handled_failures', 'suspended_evaluations',
                        'monitors_deleted', 'converged_histories', 'evaluations_creating_more_than_100_instances',
                        'faults_hitting_a_later_request', 'rate_limited_with_target_above_100',
                        'evaluations_in_the_last_second_of_a_suspension_off_target', 'monitors_configured_to_the_schema_maximum',
                        'instances_started_by_hand']}


TOOL = 4


class _Stop(BaseException):
    pass


class _Resp:
    text = 'err'

    def json(self):
        return {'message': 'injected'}


def run(ctx):
    from treadmill import context, restclient
    from treadmill import zknamespace as z
    from treadmill import zkutils
    from treadmill.scheduler import masterapi
    from treadmill.sproc import appmonitor

    import requests
    import types
    real_sleep, real_post, real_reeval = time.sleep, requests.post, appmonitor.reevaluate
    real_rc_time, real_auth = restclient.time, restclient._krb_auth         # pylint: disable=protected-access
    import sys
    mon = sys.monitoring
    def _find_code(code, name):
        for c in code.co_consts:
            if hasattr(c, 'co_consts'):
                if c.co_name == name:
                    return c
                r = _find_code(c, name)
                if r is not None:
                    return r
        return None
    watch_code = _find_code(appmonitor._run_sync.__code__, '_scheduled_watch')          # pylint: disable=protected-access
    mon_watch_code = _find_code(appmonitor._run_sync.__code__, '_monitor_data_watch')   # pylint: disable=protected-access
    for idx, rng in ctx.cases():
        clock = env.VClock(tick=0.0)
        clock.install()
        srv = zkfake.ZkServer(clock=clock.peek)
        srv.keep_log = False
        srv.child_order, srv.order_salt = 'hash', str(idx)
        zk = srv.client('appmonitor')
        admin = srv.client('admin')
        for p in (z.SCHEDULED, z.APPMONITORS, z.TRACE):
            admin.ensure_path(p)
        for shard in z.trace_shards():
            admin.ensure_path(shard)
        zkutils.put(admin, z.path.appmonitor(), {})
        context.GLOBAL.cell = 'vfcell'
        context.GLOBAL.zk._conn = zk       # pylint: disable=protected-access
        alerts = tempfile.mkdtemp(prefix='vf-c20-')
        apps = ['proid.app%d' % i for i in range(rng.randint(1, 4))]
        # one history in ten runs an application at scale: targets above 100 (the schema admits 0..1000), instances dying
        # by the dozen, the clock moving in small steps so that a budget of hundreds of instances is what binds
        large = apps[0] if rng.random() < 0.1 else None
        ref = {}          # name -> dict(count, policy, tokens, last)
        susp = {}         # name -> deadline
        calls = []        # calls of the current evaluation
        fail_next = {}    # name -> [create requests still served before the fault, kind of failure, was delayed]
        fail_delete = [0]
        refuse = [0]          # the next N connections are refused before anything is processed
        drop_reply = [False]  # the next processed create loses its reply
        die_mid = [False]     # instances of other applications exit while the next request is in flight
        n_eval = [0]
        total = rng.randint(25, 70) if large is None else rng.randint(20, 36)
        kinds = []
        flags = dict(handled=False, scaledown=False, limited=False)
        quiet_from = total          # evaluations >= this index: no faults, budget refilled
        violated = [False]
        race = dict(armed=False, busy=False, n=0, at=0)
        last_args = []
        maxed = []        # evaluations before which the large application was configured to the schema maximum

        intent = {}       # name -> the scale policy the operator configured last (a count-only update keeps it)

        def configure(name, count, policy):
            if policy is not None:
                intent[name] = policy
            masterapi.update_appmonitor(admin, name, count, policy)

        def drop_monitor(name):
            masterapi.delete_appmonitor(admin, name)
            intent.pop(name, None)
            ctx.count('monitors_deleted')

        seen = {}         # name -> mzxid of the monitor node last seen

        def observe_monitors():
            """The monitor's input: /app-monitors/<name> nodes.  A node whose
            content was (re)written is a (re)configuration: full budget from
            the time of the write."""
            import json as _json
            present = set(srv.children(z.APPMONITORS))
            for name in list(ref):
                if name not in present:
                    del ref[name]
                    seen.pop(name, None)
            for name in sorted(present):
                node = srv.nodes[z.path.appmonitor(name)]
                if seen.get(name) != node.mzxid:
                    seen[name] = node.mzxid
                    try:
                        data = _json.loads(node.data.decode())
                        count = data['count']
                    except Exception:      # noqa
                        continue
                    ref[name] = dict(count=count, policy=intent.get(name), tokens=2.0 * count,
                                     last=node.mtime / 1000.0, rate=2.0 * count / 3600.0, czxid=node.czxid)

        class _Reply:
            """What requests.post returns."""
            def __init__(self, status, body=None):
                self.status_code = status
                self._body = body if body is not None else {'message': 'injected'}
                self.content = b'{}'
                self.text = 'err'

            def json(self):
                return self._body

        def fake_requests_post(url, json=None, data=None, **_kw):
            """The cell API behind the REST boundary (requests.post): the real restclient (status handling,
            retry loop) runs above it.  A call is recorded when the server processes it."""
            payload = json if json is not None else data
            path = url[len('http://api'):]
            drop = drop_reply[0]
            if die_mid[0]:
                # while this request is in flight, instances of OTHER applications exit on their own (the /scheduled
                # watch of the monitor fires in the middle of its evaluation, which works on the listing it started with)
                die_mid[0] = False
                mine = path[len('/instance/'):].partition('?')[0] if not path.startswith('/instance/_bulk') else \
                    (payload['instances'][0].rpartition('#')[0] if payload['instances'] else None)
                for other in apps:
                    cur_ = scheduled_of(other)
                    if other != mine and cur_ and rng.random() < 0.8:
                        k_ = rng.randint(1, len(cur_))
                        gone = cur_[:k_] if rng.random() < 0.5 else (cur_[-k_:] if rng.random() < 0.5 else rng.sample(cur_, k_))
                        masterapi.delete_apps(admin, gone, 'test')
                        ctx.count('instances_exited_during_a_request')
            if refuse[0] > 0:
                refuse[0] -= 1
                ctx.count('connections_refused_before_processing')
                if path.startswith('/instance/_bulk/delete'):
                    calls.append(('delete-failed', None, list(payload['instances'])))
                else:
                    name_, _, q_ = path[len('/instance/'):].partition('?count=')
                    calls.append(('create-failed:other', name_, int(q_)))
                raise requests.exceptions.ConnectionError('refused (injected): nothing was processed')
            if path.startswith('/instance/_bulk/delete'):
                inst = list(payload['instances'])
                calls.append(('delete', None, inst))
                if fail_delete[0]:
                    fail_delete[0] -= 1
                    calls[-1] = ('delete-failed', None, inst)
                    return _Reply(500)
                masterapi.delete_apps(admin, inst, 'monitor')
                return _Reply(200, {})
            name, _, q = path[len('/instance/'):].partition('?count=')
            k = int(q)
            kind = None
            armed = fail_next.get(name)
            if armed is not None:
                if armed[0] > 0:
                    armed[0] -= 1           # the fault is armed for a later request: this one is served
                    armed[2] = True
                else:
                    kind = armed[1]
                    del fail_next[name]
                    if armed[2]:
                        ctx.count('faults_hitting_a_later_request')
            if kind == 'unreachable':
                # the API goes away before this request is processed and stays away for all its retries
                refuse[0] = 6
                ctx.count('connections_refused_before_processing')
                calls.append(('create-failed:other', name, k))
                raise requests.exceptions.ConnectionError('refused (injected): nothing was processed')
            if kind is not None:
                calls.append(('create-failed:' + kind, name, k))
                return _Reply({'notfound': 404, 'badrequest': 400, 'validation': 424}.get(kind, 500))
            calls.append(('create', name, k))
            if k > 0:
                masterapi.create_apps(admin, name, {'memory': '1G'}, k, 'monitor')
            if drop:
                # the API processed the request; the connection drops while the reply is read
                drop_reply[0] = False
                calls[-1] = ('create-dropped', name, k)
                ctx.count('replies_dropped_after_processing')
                raise requests.exceptions.ChunkedEncodingError('connection broken (injected): the request WAS processed')
            return _Reply(200, {'instances': []})

        def scheduled_of(name):
            return sorted(c for c in srv.children(z.SCHEDULED) if c.rpartition('#')[0] == name)

        def viol(mech, msg, witness=None):
            violated[0] = True
            ctx.violation(mech, msg, witness=witness, case=dict(history=idx, evaluation=n_eval[0], kinds=kinds[-12:]))

        def reevaluate(api_url, alert_f, state, zkclient, last_waited):
            last_args[:] = [(api_url, alert_f, state, zkclient, last_waited)]
            now = clock.peek()
            before = {n: scheduled_of(n) for n in set(apps) | set(ref)}
            del calls[:]
            observe_monitors()
            active = {}
            maybe = set()
            for name in [x for x in susp if x not in ref]:
                del susp[name]
            for name, r in ref.items():
                if name in susp and susp[name][0] > now:
                    if susp[name][1] == r['czxid']:
                        if susp[name][0] - now < 1.0 and len(before.get(name, [])) != r['count']:
                            ctx.count('evaluations_in_the_last_second_of_a_suspension_off_target')
                        continue
                    # deleted and re-created while suspended: keeping or dropping the suspension are both fine
                    maybe.add(name)
                else:
                    susp.pop(name, None)
                cap = 2.0 * r['count']
                if r['tokens'] < cap:
                    r['tokens'] = min(r['tokens'] + r['rate'] * (now - r['last']), cap)
                r['last'] = now
                active[name] = r
            out = real_reeval(api_url, alert_f, state, zkclient, last_waited)
            n_eval[0] += 1
            ctx.count('evaluations')
            per = {}
            for kind, name, arg in calls:
                if kind.startswith('delete'):
                    owners = {i.rpartition('#')[0] for i in arg}
                    if not arg:
                        owners = {None}
                    for o in owners:
                        per.setdefault(o, []).append((kind, [i for i in arg if i.rpartition('#')[0] == o]))
                else:
                    per.setdefault(name, []).append((kind, arg))
            kinds.append(sorted('%s:%s' % (n, c[0]) for n, cs in per.items() for c in cs))
            for name, cs in per.items():
                if name is None:
                    viol('delete-call-without-instances', 'bulk delete issued with an empty instance list: %r' % (calls,))
                    continue
                if name not in ref:
                    viol('call-for-deleted-monitor', 'evaluation %d issued %r for %s which has no monitor' % (n_eval[0], cs, name))
                    continue
                if name not in active:
                    viol('call-for-suspended-monitor', 'evaluation %d issued %r for %s suspended until %.1f (now %.1f)' % (
                        n_eval[0], cs, name, susp.get(name, (0,))[0], now))
                    continue
                ck = {c[0].split(':')[0].split('-')[0] for c in cs}
                if 'create' in ck and 'delete' in ck:
                    viol('create-and-delete-in-one-evaluation', '%s: %r' % (name, cs))
            for name, r in active.items():
                cur = before.get(name, [])
                cs = per.get(name, [])
                creates = [c for c in cs if c[0].startswith('create')]
                deletes = [c for c in cs if c[0].startswith('delete')]
                # the REST client re-sends a request that was answered with a server error (nothing processed);
                # at most one create and one delete per evaluation may have been processed
                # (several creates of one evaluation are judged together below: what the API processed so far counts
                # against what is missing and against the budget)
                if len([c for c in deletes if c[0] == 'delete']) > 1 or \
                        len([c for c in creates if c[0] != 'create' and not c[0].endswith(':other')]) > 1:
                    viol('repeated-call-in-one-evaluation', '%s: %r' % (name, cs))
                if r['count'] > len(cur):
                    needed = r['count'] - len(cur)
                    budget = math.floor(r['tokens'] + 1e-9)
                    budget_at_start = r['tokens']
                    if deletes:
                        viol('delete-while-below-target', '%s target %d current %d: %r' % (name, r['count'], len(cur), deletes))
                    asked = 0          # instances the API processed for this monitor earlier in this evaluation
                    for kind, k in creates:
                        if asked + k > needed:
                            viol('overshoot:more-than-missing', '%s: asked %d%s, target %d, current %d' % (
                                name, k, ' after %d in the same evaluation' % asked if asked else '', r['count'], len(cur)))
                        if asked + k > budget:
                            viol('overshoot:rate-budget', '%s: asked %d%s with an independent budget of %.4f tokens at the start of the evaluation (target %d)' % (
                                name, k, ' after %d in the same evaluation' % asked if asked else '', budget_at_start, r['count']),
                                 witness=dict(tokens=budget_at_start, asked=k, asked_before=asked, target=r['count'], current=len(cur)))
                        if k <= 0:
                            viol('non-positive-request', '%s: asked %d' % (name, k))
                        if kind in ('create', 'create-dropped'):
                            asked += k
                        if kind == 'create':
                            r['tokens'] -= k
                            ctx.count('creates_ok')
                        elif kind == 'create-dropped':
                            # processed, but the monitor only saw a broken connection: it cannot account for it
                            ctx.count('creates_processed_reply_lost')
                        elif kind.split(':')[1] in ('notfound', 'badrequest', 'validation'):
                            susp[name] = (now + 300.0, r['czxid'])
                            ctx.count('handled_failures')
                            flags['handled'] = True
                        else:
                            ctx.count('unhandled_failures')
                    if asked > 100:
                        ctx.count('evaluations_creating_more_than_100_instances')
                    if not creates:
                        if name in maybe:
                            ctx.count('maybe_suspended_skipped')
                        elif math.floor(r['tokens'] - 1e-6) >= 1:      # a bucket a rounding error short of 1 may wait
                            viol('no-request-with-budget', '%s: target %d current %d, budget %.3f but nothing requested' % (
                                name, r['count'], len(cur), r['tokens']))
                        elif budget >= 1:
                            ctx.count('rounding_boundary_waits')
                        else:
                            ctx.count('rate_limited')
                            if r['count'] > 100:
                                ctx.count('rate_limited_with_target_above_100')
                            flags['limited'] = True
                elif r['count'] < len(cur):
                    surplus = len(cur) - r['count']
                    pol = r['policy'] or 'fifo'
                    want = cur[:surplus] if pol == 'fifo' else cur[len(cur) - surplus:]
                    if creates:
                        viol('create-while-above-target', '%s: %r' % (name, creates))
                    if not deletes and name in maybe:
                        ctx.count('maybe_suspended_skipped')
                    elif not deletes:
                        viol('surplus-not-deleted', '%s: target %d, %d scheduled, no delete issued' % (name, r['count'], len(cur)))
                    for kind, inst in deletes:
                        ctx.count('scale_down_calls')
                        flags['scaledown'] = True
                        if sorted(inst) != sorted(want):
                            viol('wrong-surplus:%s' % pol, '%s target %d policy %s scheduled %s: deleted %s, expected %s' % (
                                name, r['count'], pol, cur, inst, want))
                else:
                    if cs:
                        viol('call-at-target', '%s at target %d: %r' % (name, r['count'], cs))
            for name in ref:
                if name not in active:
                    ctx.count('suspended_evaluations')
            return out

        def sleep_hook(_secs):
            i = n_eval[0]
            if i >= total + 3 or violated[0]:
                raise _Stop()
            if i >= quiet_from:
                # faults stop: full budget, suspensions over; expect convergence within 2 evaluations
                if i == quiet_from:
                    fail_next.clear()
                    fail_delete[0] = 0
                    refuse[0] = 0
                    drop_reply[0] = False
                    die_mid[0] = False
                    clock.advance(7200.0)
                else:
                    clock.advance(1.0)
                if i == quiet_from + 2:
                    observe_monitors()
                    for name, r in ref.items():
                        cur = scheduled_of(name)
                        if len(cur) != r['count']:
                            viol('not-converged', '%s: %d scheduled, target %d, two fault-free evaluations with a full budget' % (
                                name, len(cur), r['count']))
                    if not violated[0]:
                        ctx.count('converged_histories')
                return
            jumps = [1, 1, 1, 1, 5, 30, 120, 300, 301, 1800, 3600, 7200] if large is None else [1, 1, 1, 1, 5, 30, 120, 300, 301]
            now_ = clock.peek()
            ending = sorted({dl for n_, (dl, _cz) in susp.items() if n_ in ref and dl >= now_ + 1.0})
            if ending and rng.random() < 0.2:
                # the clock has sub-second resolution and the loop does not run on whole seconds: the next evaluation falls
                # within a second of the moment a suspension ends (before it, exactly at it, just after it).  Eighths of a
                # second: exact in binary and in the millisecond stamps of the ZooKeeper nodes.
                clock.set(max(now_ + 1.0, rng.choice(ending) + rng.choice([-0.875, -0.5, -0.25, -0.125, 0.0, 0.125])))
                ctx.count('clock_set_within_a_second_of_a_suspension_deadline')
            else:
                clock.advance(rng.choice(jumps) if rng.random() < 0.35 else 1.0)
            for _ in range(rng.choice([0, 1, 1, 2] if large is None else [1, 2, 2, 3])):
                op = rng.choice(['die', 'die', 'die', 'count', 'count', 'policy', 'delmon', 'newmon', 'fail', 'fail', 'faildel', 'flap', 'refuse', 'drop', 'midreq', 'midreq', 'race', 'race', 'race-monitor', 'race-monitor', 'purge-and-fail', 'start'])
                name = rng.choice(apps)
                if large is not None and rng.random() < 0.6:
                    name = large
                    op = rng.choice(['die', 'die', 'die', 'die', 'fail', 'fail', 'fail', 'count', 'drop', 'refuse', 'policy', 'start'])
                if op == 'die':
                    cur = scheduled_of(name)
                    if len(cur) > 300:
                        # (an application running at the schema maximum loses instances by the dozen, not all at once: cost)
                        masterapi.delete_apps(admin, rng.sample(cur, rng.randint(1, 40)), 'test')
                    elif cur:
                        masterapi.delete_apps(admin, cur if name == large and rng.random() < 0.6 else rng.sample(cur, rng.randint(1, len(cur))), 'test')
                elif op == 'count' and name == large:
                    if rng.random() < 0.3:
                        # (1000 is the largest count the schema admits)
                        count_ = rng.choice([0, 101, 120, 250, 1000, 1000])
                        if count_ == 1000 and maxed:
                            count_ = 250          # (once per history: cost)
                        configure(name, count_, None)
                        if count_ == 1000:
                            maxed.append(n_eval[0])
                            ctx.count('monitors_configured_to_the_schema_maximum')
                elif op == 'count':
                    configure(name, rng.choice([0, 1, 2, 3, 5, 8, 12]), None)
                elif op == 'policy' and name in ref:
                    configure(name, ref[name]['count'], rng.choice(['fifo', 'lifo']))
                elif op == 'delmon' and name in ref and rng.random() < 0.4:
                    drop_monitor(name)
                elif op == 'newmon' and name not in ref:
                    configure(name, rng.choice([1, 2, 4, 6]), rng.choice([None, 'fifo', 'lifo']))
                elif op == 'start':
                    # somebody starts instances of the application by hand (not through the monitor)
                    masterapi.create_apps(admin, name, {'memory': '1G'}, rng.randint(1, 3), 'test')
                    ctx.count('instances_started_by_hand')
                elif op == 'fail':
                    # the create request that fails is the next one for this application, or the one after 1-2 served ones
                    fail_next[name] = [rng.choice([0, 0, 1, 1, 2]), rng.choice(['notfound', 'badrequest', 'validation', 'other', 'unreachable']), False]
                elif op == 'faildel':
                    fail_delete[0] = 1
                elif op == 'refuse':
                    refuse[0] = rng.choice([1, 2, 4, 7])
                elif op == 'drop':
                    drop_reply[0] = True
                elif op == 'midreq':
                    die_mid[0] = True
                elif op == 'race' and last_args:
                    raced_listing_update()
                elif op == 'race-monitor' and last_args:
                    raced_reconfiguration()
                elif op == 'purge-and-fail':
                    # the monitor of a suspended application is deleted, and in the evaluation that forgets its suspension
                    # another application's create is answered with a suspending error
                    now_ = clock.peek()
                    gone = sorted(n_ for n_, (dl, _cz) in susp.items() if dl > now_ + 5 and n_ in ref)
                    others = sorted(n_ for n_ in ref if n_ not in gone and n_ not in susp)
                    if gone and others:
                        drop_monitor(rng.choice(gone))
                        other = rng.choice(others)
                        cur_ = scheduled_of(other)
                        if cur_ and len(cur_) >= ref[other]['count']:
                            masterapi.delete_apps(admin, cur_[:len(cur_) - ref[other]['count'] + 1], 'test')
                        fail_next[other] = [0, rng.choice(['notfound', 'badrequest', 'validation']), False]
                        ctx.count('suspended_monitor_deleted_while_another_is_about_to_fail')
                elif op == 'flap':
                    # the monitor's connection drops and comes back: no monitor was reconfigured
                    zk.flap()
                    ctx.count('connection_flaps')

        def line_cb(code, _line):
            # the main loop gets the CPU between two statements of a watch callback (which runs on kazoo's thread)
            # and evaluates: one real evaluation, judged like any other
            if not race['armed'] or race['busy'] or not last_args or code is not race.get('code', watch_code):
                return
            race['n'] += 1
            if race['n'] != race['at']:
                return
            race['busy'] = True
            srv.sync_delivery = False        # kazoo delivers the next notification after this callback returned
            try:
                ctx.count('evaluations_inside_a_listing_update')
                args = last_args[0]
                reevaluate(*args)
                n_eval[0] -= 1               # (the loop's own evaluations drive the phases of the history)
                last_args[:] = [args]
            finally:
                race['busy'] = False

        def raced_listing_update():
            """An instance of an application nobody monitors appears or goes: every monitored application has the
            same instances before and after, so the evaluation that runs while the new listing is being taken
            over is judged against the one listing both views agree on."""
            noise = rng.choice(['aaa.noise', 'proid.zz', 'zzz.noise'])
            cur_ = scheduled_of(noise)
            race.update(armed=True, n=0, at=rng.randint(1, 7), code=watch_code)
            try:
                if cur_ and rng.random() < 0.4:
                    masterapi.delete_apps(admin, cur_[:1], 'test')
                else:
                    masterapi.create_apps(admin, noise, {'memory': '1G'}, 1, 'test')
            finally:
                race['armed'] = False
                srv.sync_delivery = True
                srv.deliver()

        def raced_reconfiguration():
            """The operator re-submits the configuration of a monitor that is suspended right now; the main loop evaluates
            between two statements of that monitor's data watch callback.  A suspended monitor is left alone by the
            evaluation whatever its configuration, so the raced evaluation is judged like any other; what the
            following evaluations do with the suspension is the point."""
            now_ = clock.peek()
            cands = sorted(n_ for n_, (dl, cz) in susp.items() if dl > now_ + 5 and n_ in ref and ref[n_]['czxid'] == cz)
            if not cands:
                return
            name_ = rng.choice(cands)
            race.update(armed=True, n=0, at=rng.randint(1, 9), code=mon_watch_code)
            try:
                configure(name_, ref[name_]['count'], None)
                ctx.count('suspended_monitor_reconfigured_under_a_raced_evaluation')
            finally:
                race['armed'] = False
                srv.sync_delivery = True
                srv.deliver()

        quiet_from = total
        try:
            for name in apps:
                if name == large:
                    configure(name, rng.choice([101, 110, 130]), rng.choice([None, None, 'fifo', 'lifo']))
                elif rng.random() < 0.8:
                    configure(name, rng.choice([1, 2, 3, 5, 8, 12]), rng.choice([None, None, 'fifo', 'lifo']))
                if rng.random() < 0.5:
                    masterapi.create_apps(admin, name, {'memory': '1G'}, rng.randint(1, 14), 'test')
            time.sleep = sleep_hook
            requests.post = fake_requests_post
            # the retry loop of the REST client sleeps between attempts: virtual time, not an evaluation
            restclient.time = types.SimpleNamespace(time=time.time, sleep=clock.advance)
            restclient._krb_auth = lambda: None        # pylint: disable=protected-access
            appmonitor.reevaluate = reevaluate
            mon.use_tool_id(TOOL, 'vf-c20')
            mon.register_callback(TOOL, mon.events.LINE, line_cb)
            mon.set_local_events(TOOL, watch_code, mon.events.LINE)
            mon.set_local_events(TOOL, mon_watch_code, mon.events.LINE)
            try:
                appmonitor._run_sync('http://api', alerts, False)     # pylint: disable=protected-access
            except _Stop:
                pass
            finally:
                mon.set_local_events(TOOL, watch_code, 0)
                mon.set_local_events(TOOL, mon_watch_code, 0)
                mon.register_callback(TOOL, mon.events.LINE, None)
                mon.free_tool_id(TOOL)
        finally:
            time.sleep, requests.post, appmonitor.reevaluate = real_sleep, real_post, real_reeval
            restclient.time, restclient._krb_auth = real_rc_time, real_auth      # pylint: disable=protected-access
            env.VClock.uninstall()
            shutil.rmtree(alerts, ignore_errors=True)
        nt = flags['handled'] and flags['scaledown'] and flags['limited']
        ctx.done(case_desc=kinds, nontrivial=nt,
                 sample=dict(history=idx, evaluations=n_eval[0], calls_per_evaluation=kinds[:25]) if nt else None,
                 evals=n_eval[0])
