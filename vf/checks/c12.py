"""C12 - the node's manifest cache mirrors what is placed on the node."""
import os
import shutil
import sys
import tempfile
import traceback

from .. import zkfake

LEVEL = 'fault_enumeration'
RULE = ('a real EventMgr on a temp root and the in-memory ZooKeeper holding /placement/<host>/* (identity 0-3/None, expires, '
        'chosen ctime) and /scheduled/* (manifests of 0.1-40 KB); prior cache contents generated: stale files of instances no '
        'longer placed (regular files, or symbolic links to a file, to nothing or to a directory), missing files, files older / newer than the placement, .ready, leftover dot-prefixed temp files; '
        'placement or manifest nodes randomly missing. (1) convergence: after _synchronize(zk, expected, check_existing) no '
        'non-dot name outside the placement, every placed instance with both nodes has a file, every file (re)written by the '
        'call parses to manifest+placement data+task. (2) fault enumeration: sys.monitoring LINE events local to '
        'fs.write_safe and EventMgr._cache give every statement boundary of the write path, and os.replace / os.fchmod / '
        'tempfile.NamedTemporaryFile / file close give the syscall boundaries; at EVERY such point of a write (a) the '
        'directory is read the way another process - or a crash at that instant - sees it: each non-dot file must be a '
        'complete old or complete new manifest; (b) in a second pass an OSError is raised there: afterwards no partial '
        'non-dot file and no temp file of that write is left; (c) in a third pass, for a failing syscall boundary, LINE events are switched on globally at the failure and the directory is read at every statement executed anywhere until the call ends (what is done about a failure - clean-up, retry, fall-back - must not expose a partial manifest either). Non-trivial: a failpoint strictly inside a write of a manifest '
        'larger than the stdio buffer, or a convergence case with stale+missing+outdated entries; distinct by '
        '(case, app, point). 1 case in 4 stores the manifests as byte-identical legacy YAML (replicas of one application). '
        '(3) service loop: the real EventMgr.run() with its presence DataWatch and placement ChildrenWatch; time.sleep '
        '(the heartbeat) applies the next scripted change - instances placed (JSON or shared YAML manifest), evicted one '
        'by one down to an empty node, presence lost / regained, start with stale files and nothing placed, a connection '
        'loss while a watch-triggered synchronisation reads a manifest (half of the time with a log handler whose flush fails as well), an instance evicted between the agent\'s read of its placement and of its manifest (the notification is queued behind the running callback; a read issued from the main thread runs beside the callback thread), a placement whose notification arrives one heartbeat late, a placement node the master takes away just before the agent reads it and puts back before the agent\'s next request - and after every change the cache must mirror the '
        'placement. Watch notifications are delivered on a separate thread (as kazoo does); os._exit is intercepted as '
        'the death of the process, after which a new agent is started on a new session (the supervisor); a '
        'service that exits four times in a row before reaching a heartbeat is checked as it stands. Every other shard runs under the C locale without '
        'UTF-8 mode (text files are ASCII); manifests may contain any text a JSON document can (non-ASCII, characters outside the BMP, multi-line '
        'scripts, tabs, leading / trailing blanks, 1500-character values, text that looks like a YAML scalar or indicator); cache files are read with the node\'s own reader '
        '(appcfg.manifest.read(path, "yaml")) and with a plain YAML reader, which must agree. Distinct by '
        '(case, app, point).')
ASSUMPTIONS = ['in-memory ZooKeeper fake; real filesystem under a temp dir', 'EventMgr._hostname set by the harness',
               'what another process (or the disk after a kill) sees at an instant is what the kernel has: the harness reads the directory from inside the hook without flushing the writer\'s buffers',
               'sys.monitoring LINE events as source-free failpoints (statement granularity)']
BUDGET = {'quick': (22, 20.0), 'thorough': (900, 260.0)}
REQUIRED_REACH = {'*': ['sync_calls', 'files_written_checked', 'extra_removed', 'outdated_rewritten', 'uptodate_kept',
                        'crash_views', 'failpoints_raised', 'syscall_boundaries', 'big_manifest_points', 'subsecond_ctime_cases',
                        'service_loop_checks', 'service_loop_evicted_to_empty', 'service_loop_empty_placement_checked',
                        'legacy_yaml_replica_cases', 'views_while_a_failure_is_handled',
                        'files_written_checked_with_text:outside_bmp', 'files_written_checked_with_text:layout',
                        'files_written_checked_with_text:yaml_lookalike', 'service_loop_files_checked_with_text:outside_bmp',
                        'stale_entry_was_a_link_to_directory', 'stale_entry_was_a_dangling_link', 'stale_entry_was_a_link_to_file']}

TOOL = 3


def SHARD_ENV(shard, _seed):      # pylint: disable=invalid-name
    """Every other shard runs the node agent the way a daemon started from a bare init environment runs:
    C locale, no UTF-8 mode, no locale coercion (text files are then written in ASCII)."""
    if shard % 2:
        return {'LC_ALL': 'C', 'LANG': 'C', 'PYTHONUTF8': '0', 'PYTHONCOERCECLOCALE': '0'}
    return {}


# manifests are JSON documents: any text is legal in a value (the app schema puts no pattern on environ values or commands)
TEXT_BMP = ['Z\u00fcrich', '\u6771\u4eac', 'caf\u00e9 \u2013 bar']
TEXT_ASTRAL = ['\U0001F600 deploy', '\U00020BB7\u91ce\u5bb6', 'ok \U0001F44D\U0001F3FD', 'math \U0001D54F']      # outside the BMP: emoji, CJK extension B
TEXT_LAYOUT = ['line1\nline2\n', 'a\tb', ' leading', 'trailing ', 'x\n\n  y', 'w' * 1500]
TEXT_YAMLISH = ['yes', 'null', '~', '1e3', '1:30', '0x1F', '012', 'a: b', '- x', '# c', '"q"', "it's", '{a}', '[1]', '&a', '*a', '!t', '%d', '@x', '`y`', '']


def text_classes(content):
    """Which classes of text the values of a manifest contain."""
    vals = [e.get('value') for e in content.get('environ', [])] + [sv.get('command') for sv in content.get('services', [])]
    out = set()
    for v in vals:
        if not isinstance(v, str):
            continue
        if any(ord(c) > 0xFFFF for c in v):
            out.add('outside_bmp')
        elif any(ord(c) > 0x7F for c in v):
            out.add('non_ascii')
        if v in TEXT_LAYOUT or '\n' in v:
            out.add('layout')
        if v in TEXT_YAMLISH:
            out.add('yaml_lookalike')
    return out


def gen_manifest(rng, big=False):
    man = {'memory': '%dM' % rng.choice([100, 512]), 'cpu': '%d%%' % rng.choice([10, 100]), 'disk': '1G',
           'services': [{'name': 'web', 'command': '/bin/sleep %d' % rng.randint(1, 99), 'restart': {'limit': 5, 'interval': 60}}],
           'endpoints': [{'name': 'http', 'port': rng.choice([0, 8000])}],
           'environ': [{'name': 'K%d' % i, 'value': 'v' * rng.randint(1, 30)} for i in range(rng.randint(0, 4))],
           'proid': 'proid', 'affinity': 'proid.web'}
    if rng.random() < 0.3:
        man['identity'] = rng.choice([None, 7])          # the placement's value must win
    if rng.random() < 0.25:
        # manifests are JSON documents: any text is legal in a value
        man['environ'].append({'name': 'CITY', 'value': rng.choice(TEXT_BMP)})
    if rng.random() < 0.3:
        for i in range(rng.randint(1, 3)):
            man['environ'].append({'name': 'TXT%d' % i, 'value': rng.choice(rng.choice([TEXT_ASTRAL, TEXT_ASTRAL, TEXT_LAYOUT, TEXT_YAMLISH]))})
    if rng.random() < 0.1:
        # a service started by a small shell script
        man['services'][0]['command'] = '#!/bin/sh\necho "%s"\nexec /bin/sleep %d\n' % (rng.choice(TEXT_BMP + TEXT_ASTRAL), rng.randint(1, 99))
    if big:
        man['environ'] += [{'name': 'BIG%d' % i, 'value': 'x' * 200} for i in range(rng.randint(60, 200))]
    return man


def node_read(path):
    """The node's own reader of a cache file (what appcfg.manifest.load starts with)."""
    from treadmill.appcfg import manifest as app_manifest
    return app_manifest.read(path, 'yaml')


class _Stop(BaseException):
    pass


class _ProcessExit(BaseException):
    """os._exit() of the service process (its supervisor starts it again)."""
    def __init__(self, code):
        super().__init__(code)
        self.code = code


def service_loop_case(ctx, idx, rng):
    """(3) the real EventMgr.run() loop with its presence DataWatch and placement ChildrenWatch on the
    in-memory ZooKeeper; time.sleep (the heartbeat) is rebound to "apply the next scripted change":
    instances placed (manifest as JSON or as legacy YAML shared by replicas), evicted one by one down
    to an empty node, presence lost / regained, a start with stale cache files and nothing placed.
    After every change (watches are delivered synchronously) the cache must mirror the placement."""
    import time as _time
    import yaml as _yaml
    from treadmill import context, eventmgr
    from treadmill import zknamespace as z
    from treadmill import zkutils
    host = 'node1'
    root = tempfile.mkdtemp(prefix='vf-c12s-')
    real_sleep = _time.sleep
    try:
        import threading
        import kazoo.exceptions
        srv = zkfake.ZkServer()
        srv.keep_log = False
        adm = srv.client('admin')
        adm.ensure_path(z.SCHEDULED)
        adm.ensure_path(z.SERVER_PRESENCE)
        adm.ensure_path(z.PLACEMENT)
        cache = eventmgr.EventMgr(root).tm_env.cache_dir
        os.makedirs(cache, exist_ok=True)
        current = {'zk': None}
        exited = []
        fault = [False]
        real_exit = os._exit

        def fake_exit(code):
            raise _ProcessExit(code)

        import logging
        full_disk = {'armed': False}

        class _FullDiskLog(logging.Handler):
            def emit(self, record):
                pass

            def flush(self):
                if full_disk['armed']:
                    raise OSError(28, 'No space left on device (injected: log flush)')
        log_handler = _FullDiskLog()
        logging.getLogger().addHandler(log_handler)
        flick = {'armed': False, 'gone': None}
        midread = {'armed': False}

        def on_op(client, op, path):
            if client is current['zk'] and flick['gone'] is not None:
                # ... and puts it back before the agent's next request reaches ZooKeeper (e.g. the re-read of the
                # children the removal triggered): the next listing names the instance again, now readable
                a_, data_ = flick['gone']
                flick['gone'] = None
                zkutils.put(adm, z.path.placement(host, a_), data_)
                placed[a_] = flick.pop('exp')
                log.append(('placement-node-back', a_))
            if flick['armed'] and client is current['zk'] and op == 'get' and path.startswith(z.path.placement(host) + '/'):
                # the master takes the placement node of a listed instance away just before the agent reads it
                # (nothing can be cached for it) ...
                flick['armed'] = False
                a_ = path.rsplit('/', 1)[1]
                if a_ in placed and adm.exists(path):
                    flick['gone'] = (a_, zkutils.get(adm, path))
                    flick['exp'] = placed.pop(a_)
                    adm.delete(path)
                    log.append(('placement-node-gone-before-read', a_))
                    ctx.count('service_loop_placement_flickered_during_sync')
            if midread['armed'] and client is current['zk'] and op == 'get' and path.startswith(z.SCHEDULED + '/'):
                # the instance is evicted between the agent's read of its placement and its read of the manifest.  The
                # notification is queued behind the callback that is running (kazoo delivers one at a time); a read
                # issued from the agent's MAIN thread, however, runs beside the callback thread, which handles the
                # eviction at once
                midread['armed'] = False
                a_ = path.rsplit('/', 1)[1]
                if a_ in placed and adm.exists(z.path.placement(host, a_)):
                    del placed[a_]
                    adm.delete(z.path.placement(host, a_))
                    log.append(('evicted-between-two-reads', a_, 'main-thread' if threading.current_thread() is threading.main_thread() else 'callback-thread'))
                    ctx.count('service_loop_evicted_between_two_reads')
                    if threading.current_thread() is threading.main_thread():
                        pump()
            if fault[0] and client is current['zk'] and op == 'get' and path.startswith(z.SCHEDULED + '/'):
                fault[0] = False
                ctx.count('service_loop_connection_loss_injected')
                raise kazoo.exceptions.ConnectionLoss('injected')
        srv.on_op = on_op

        def pump():
            """Watch notifications reach the agent on its ZooKeeper callback thread, not on its main thread."""
            def body():
                try:
                    srv.deliver()
                except _ProcessExit as e:
                    exited.append(e.code)
                except SystemExit:
                    ctx.count('service_loop_callback_thread_ended_silently')      # what threading does with SystemExit
            t = threading.Thread(target=body)
            t.start()
            t.join()
            if exited:
                raise _ProcessExit(exited.pop())
        shared = gen_manifest(rng, False)
        placed = {}           # instance -> expected content
        counter = [0]
        steps = rng.randint(8, 16)
        n_step = [0]
        log = []
        stale = []
        if rng.random() < 0.5:
            # an agent that restarts with files of instances that are no longer placed here
            for i in range(rng.randint(1, 3)):
                n = 'proid.old#%010d' % i
                stale.append(n)
                with open(os.path.join(cache, n), 'w') as f:
                    f.write('old: content\n')
        start_with_node = rng.random() < 0.7
        if start_with_node:
            adm.ensure_path(z.path.placement(host))
        if rng.random() < 0.7:
            adm.create(z.path.server_presence(host), b'{}', ephemeral=True)

        def place(notify=True):
            counter[0] += 1
            a = 'proid.web#%010d' % counter[0]
            yaml_payload = rng.random() < 0.5
            man = dict(shared) if yaml_payload else gen_manifest(rng, False)
            if yaml_payload:
                adm.create(z.path.scheduled(a), _yaml.safe_dump(man, default_flow_style=False).encode())
            else:
                zkutils.put(adm, z.path.scheduled(a), man)
            pdata = rng.choice([{'identity': rng.choice([0, 1, 3]), 'identity_count': 4, 'expires': 1700000000.5 + counter[0]},
                                {'expires': 1700000000.5 + counter[0]}, {}, None])
            exp = dict(man)
            exp['task'] = a[a.index('#') + 1:]
            if pdata:
                exp.update(pdata)
            placed[a] = exp
            zkutils.put(adm, z.path.placement(host, a), pdata)
            log.append(('place', a, 'yaml' if yaml_payload else 'json', pdata))
            if notify:
                pump()

        def evict(a):
            del placed[a]
            adm.delete(z.path.placement(host, a))
            log.append(('evict', a))
            pump()

        def check(when):
            ctx.count('service_loop_checks')
            node = adm.exists(z.path.placement(host)) is not None
            names = sorted(n for n in os.listdir(cache) if not n.startswith('.'))
            if not node:
                return        # the agent has not seen a placement node yet: nothing was synchronised
            case = dict(case=idx, when=when, log=log[-12:])
            for n in names:
                if n not in placed:
                    ctx.violation('cache-names-unplaced-instance:service-loop%s' % (':nothing-placed' if not placed else ''),
                                  '%s is in the cache but not placed on the node (%d placed) after %s' % (n, len(placed), when), case=case)
            for a, exp in placed.items():
                path = os.path.join(cache, a)
                if not os.path.exists(path):
                    ctx.violation('placed-instance-without-cache-file:service-loop', '%s is placed, its manifest exists, no cache file after %s' % (a, when), case=case)
                    continue
                try:
                    got = node_read(path)
                except Exception as err:       # noqa
                    ctx.violation('written-manifest-unreadable', '%s: the node\'s reader cannot load the cache file after %s: %s: %s' % (
                        a, when, type(err).__name__, str(err)[:200]), case=case)
                    continue
                for cls in text_classes(exp):
                    ctx.count('service_loop_files_checked_with_text:' + cls)
                if got != exp:
                    diff = sorted(k for k in set(got) | set(exp) if got.get(k) != exp.get(k))
                    ctx.violation('written-manifest-differs:%s' % diff[0], '%s: fields %s differ (file %r, expected %r) after %s' % (
                        a, diff[:4], {d: got.get(d) for d in diff[:4]}, {d: exp.get(d) for d in diff[:4]}, when), case=case)
            if not placed:
                ctx.count('service_loop_empty_placement_checked')

        def sleep_hook(_secs):
            n_step[0] += 1
            if n_step[0] > steps:
                raise _Stop()
            if midread.get('late'):
                # the notification of the placement made just before the last heartbeat arrives only now
                midread.update(armed=False, late=False)
                pump()
            check('heartbeat %d' % n_step[0])
            if adm.exists(z.path.placement(host)) is None:
                if rng.random() < 0.6:
                    adm.ensure_path(z.path.placement(host))
                    log.append(('placement-node',))
                    pump()
                return
            op = rng.choice(['place', 'place', 'place2', 'evict', 'evict', 'evict-all', 'presence', 'fault', 'flicker', 'evict-mid-read', 'place-late-notice'])
            if op == 'place-late-notice':
                # an instance is placed right before the agent's main loop wakes up; the watch notification reaches the
                # callback thread a moment later (whatever the main thread reads about the instance meanwhile may be
                # overtaken by its eviction)
                place(notify=False)
                midread.update(armed=True, late=True)
                ctx.count('service_loop_placements_noticed_late')
                return
            if op == 'evict-mid-read':
                midread['armed'] = True
                place()
                midread['armed'] = False
                pump()
                check('evict-mid-read')
                return
            if op == 'flicker':
                flick['armed'] = True
                place()
                flick['armed'] = False
                if flick['gone'] is not None:
                    # the agent asked nothing more: the master puts the node back anyway
                    on_op(current['zk'], 'noop', '/')
                    pump()
                check('flicker')
                return
            if op == 'fault':
                # the connection drops while a synchronisation triggered by a placement event reads a manifest:
                # the callback fails, the process exits, its supervisor restarts it and the restart synchronises
                fault[0] = True
                log.append(('connection-loss-armed',))
                # (half of the time the log sits on a disk that is full as well: flushing a log handler fails)
                full_disk['armed'] = rng.random() < 0.5
                if full_disk['armed']:
                    ctx.count('service_loop_faults_with_failing_log_flush')
                try:
                    place()
                finally:
                    fault[0] = False
                    full_disk['armed'] = False
            elif op == 'place':
                place()
            elif op == 'place2':
                place()
                check('a placement')
                place()
            elif op == 'evict' and placed:
                evict(rng.choice(sorted(placed)))
            elif op == 'evict-all' and placed:
                for a in sorted(placed):
                    evict(a)
                    check('an eviction')
                ctx.count('service_loop_evicted_to_empty')
            elif op == 'presence':
                if adm.exists(z.path.server_presence(host)):
                    adm.delete(z.path.server_presence(host))
                else:
                    adm.create(z.path.server_presence(host), b'{}', ephemeral=True)
                log.append(('presence',))
                pump()
            check(op)

        _time.sleep = sleep_hook
        os._exit = fake_exit
        srv.sync_delivery = False
        try:
            in_a_row, last_exit_step = 0, -1
            for incarnation in range(64):
                zk = srv.client('eventmgr-%d' % incarnation)
                current['zk'] = zk
                context.GLOBAL.zk._conn = zk       # pylint: disable=protected-access
                mgr = eventmgr.EventMgr(root)
                mgr._hostname = host           # pylint: disable=protected-access
                try:
                    mgr.run(once=False)
                except _Stop:
                    break
                except _ProcessExit:
                    ctx.count('service_loop_process_exits')
                    log.append(('process-exit-and-restart',))
                    srv.expire(zk.sid)
                    del exited[:]
                    in_a_row = in_a_row + 1 if last_exit_step == n_step[0] else 1
                    last_exit_step = n_step[0]
                    if in_a_row >= 4:
                        # the service dies again and again before it reaches a heartbeat: restarting does not help,
                        # what is placed never gets its cache file
                        check('four restarts in a row without reaching a heartbeat')
                        break
                    continue
                except Exception:      # noqa
                    et, ev, tb = sys.exc_info()
                    ctx.violation('exception:%s@run' % et.__name__, str(ev), witness=traceback.format_exc()[-800:], case=dict(case=idx, log=log[-12:]))
                    break
        finally:
            _time.sleep = real_sleep
            os._exit = real_exit
            srv.sync_delivery = True
            srv.on_op = None
            logging.getLogger().removeHandler(log_handler)
        if stale:
            ctx.count('service_loop_started_with_stale_files')
        ctx.count('service_loop_cases')
        ctx.done(case_desc=('loop', idx, len(log)), nontrivial=False, evals=n_step[0])
    finally:
        _time.sleep = real_sleep
        os._exit = real_exit if 'real_exit' in dir() else os._exit
        shutil.rmtree(root, ignore_errors=True)


def run(ctx):
    import yaml as _yaml
    from treadmill import eventmgr, fs
    from treadmill import zknamespace as z
    from treadmill import zkutils
    import tempfile as _tf
    mon = sys.monitoring
    host = 'node1'

    def load(path):
        # the way the node reads its cache (appcfg.manifest.load -> read(event, 'yaml')), and the way any other YAML
        # reader does: both must see the same document
        got = node_read(path)
        with open(path) as f:
            plain = _yaml.safe_load(f.read())
        if plain != got:
            raise ValueError('the node\'s reader and a plain YAML reader disagree on %s' % os.path.basename(path))
        return got

    for idx, rng in ctx.cases():
        service_loop_case(ctx, idx, ctx.case_rng(idx, 'loop'))
        root = tempfile.mkdtemp(prefix='vf-c12-')
        try:
            srv = zkfake.ZkServer()
            srv.keep_log = False
            zk = srv.client('eventmgr')
            adm = srv.client('admin')
            for p in (z.SCHEDULED, z.path.placement(host)):
                adm.ensure_path(p)
            mgr = eventmgr.EventMgr(root)
            mgr._hostname = host           # pylint: disable=protected-access
            cache = mgr.tm_env.cache_dir
            os.makedirs(cache, exist_ok=True)
            apps = ['proid.web#%010d' % i for i in rng.sample(range(1000), rng.randint(3, 9))]
            import time as _time
            now = _time.time()
            expected_content = {}
            placed, state = [], {}
            # 1 case in 4: the instances are replicas of one application whose manifest was stored by an
            # older release as YAML (zkutils.get falls back to YAML): byte-identical payloads
            shared_yaml = gen_manifest(rng, False) if rng.random() < 0.25 else None
            if shared_yaml is not None:
                ctx.count('legacy_yaml_replica_cases')
            for a in apps:
                kind = rng.choice(['missing', 'missing', 'outdated', 'outdated', 'uptodate', 'uptodate', 'extra', 'no-placement-node', 'no-manifest'])
                subsecond = rng.random() < 0.5       # placement re-created within the same second as the file
                big = rng.random() < 0.3
                man = gen_manifest(rng, big) if shared_yaml is None else dict(shared_yaml)
                pdata = {'identity': rng.choice([None, 0, 0, 1, 3]), 'identity_count': rng.choice([None, 4]),
                         'expires': rng.choice([0, now + 3600.5])}
                if shared_yaml is not None and rng.random() < 0.4:
                    pdata = {'expires': pdata['expires']} if rng.random() < 0.5 else {}
                if rng.random() < 0.1:
                    pdata = None
                state[a] = dict(kind=kind, big=big and shared_yaml is None)
                if kind != 'extra':
                    placed.append(a)
                if kind not in ('no-placement-node', 'extra'):
                    zkutils.put(adm, z.path.placement(host, a), pdata)
                    ct = now + 1000 if kind == 'outdated' else now - 1000
                    srv.set_ctime(z.path.placement(host, a), ct * 1000)
                    state[a]['subsecond'] = subsecond and kind in ('outdated', 'uptodate')
                if kind != 'no-manifest' and shared_yaml is not None:
                    adm.create(z.path.scheduled(a), _yaml.safe_dump(man, default_flow_style=False).encode())
                elif kind != 'no-manifest':
                    zkutils.put(adm, z.path.scheduled(a), man)
                exp = dict(man)
                exp['task'] = a[a.index('#') + 1:]
                if pdata is not None:
                    exp.update(pdata)
                expected_content[a] = exp
                if kind in ('outdated', 'uptodate', 'extra'):
                    with open(os.path.join(cache, a), 'w') as f:
                        f.write('old: content\nof: %s\n' % a)
                    if state[a].get('subsecond'):
                        # the placement node was (re)created a fraction of a second after / before the file
                        fct = os.stat(os.path.join(cache, a)).st_ctime
                        delta = rng.choice([0.05, 0.3, 0.6]) if kind == 'outdated' else -rng.choice([0.05, 0.3, 0.6])
                        srv.set_ctime(z.path.placement(host, a), int(round((fct + delta) * 1000)))
                        ctx.count('subsecond_ctime_cases')
            if rng.random() < 0.6:
                # the stale entry of an instance that is no longer placed is not always a regular file: what an
                # operator, a restore or another release left under the name may be a symbolic link - to a file, to
                # nothing, or to a directory (the instance's old container directory)
                gone = 'proid.gone#%010d' % rng.randrange(1000)
                form = rng.choice(['link-to-file', 'dangling-link', 'link-to-directory', 'link-to-directory'])
                prior = os.path.join(root, 'vf-prior')
                os.makedirs(prior, exist_ok=True)
                dest = os.path.join(prior, gone)
                if form == 'link-to-file':
                    with open(dest, 'w') as f:
                        f.write('old: content\nof: %s\n' % gone)
                elif form == 'link-to-directory':
                    os.makedirs(os.path.join(dest, 'data'))
                os.symlink(dest, os.path.join(cache, gone))
                state[gone] = dict(kind='extra', big=False, form=form)
                ctx.count('stale_entry_was_a_' + form.replace('-', '_'))
            if rng.random() < 0.5:
                open(os.path.join(cache, '.ready'), 'w').close()
            if rng.random() < 0.4:
                open(os.path.join(cache, '.%s-leftover' % apps[0]), 'w').close()
            old = {a: 'old' for a in apps}

            def acceptable(name):
                """Complete versions a reader may legitimately see under an instance's name."""
                path = os.path.join(cache, name)
                try:
                    got = load(path)
                except Exception as err:       # noqa
                    return False, 'unparsable: %s' % err
                if got == {'old': 'content', 'of': name}:
                    return True, 'old'
                if got == expected_content.get(name):
                    return True, 'new'
                return False, 'partial or wrong content (%d bytes, %d keys of %d)' % (
                    os.path.getsize(path), len(got) if isinstance(got, dict) else -1, len(expected_content.get(name, {})))

            def reader_view(tag, point):
                bad = []
                for name in os.listdir(cache):
                    if name.startswith('.'):
                        continue
                    ok, what = acceptable(name)
                    if not ok:
                        bad.append((name, what))
                if bad:
                    ctx.violation('partial-manifest-visible:%s' % tag,
                                  'at %s a reader (or a crash) sees %s: %s' % (point, bad[0][0], bad[0][1]),
                                  case=dict(case=idx, point=point, state=state.get(bad[0][0])))
                return not bad

            # ---------------- (1) convergence
            before = {n: os.lstat(os.path.join(cache, n)).st_ino for n in os.listdir(cache)}
            check_existing = rng.random() < 0.6
            expected = list(placed)
            rng.shuffle(expected)
            try:
                mgr._synchronize(zk, expected, check_existing=check_existing)     # pylint: disable=protected-access
            except Exception:      # noqa
                et, ev, tb = sys.exc_info()
                ctx.violation('exception:%s@_synchronize' % et.__name__, str(ev), witness=traceback.format_exc()[-800:], case=dict(case=idx))
                continue
            ctx.count('sync_calls')
            names = [n for n in os.listdir(cache) if not n.startswith('.')]
            case = dict(case=idx, check_existing=check_existing, state=state)
            for n in names:
                if n not in placed:
                    form_ = (state.get(n) or {}).get('form')
                    ctx.violation('cache-names-unplaced-instance' + (':stale-entry-was-a-' + form_ if form_ else ''),
                                  '%s is in the cache but not placed (%s)' % (n, state.get(n)), case=case)
            for a in apps:
                k = state[a]['kind']
                path = os.path.join(cache, a)
                if k == 'extra':
                    ctx.count('extra_removed')
                    continue
                if k in ('missing', 'outdated', 'uptodate') and not os.path.exists(path):
                    ctx.violation('placed-instance-without-cache-file:' + k, '%s has placement and manifest nodes but no cache file' % a, case=case)
                    continue
                if k in ('no-placement-node', 'no-manifest'):
                    continue
                rewritten = before.get(a) != os.lstat(path).st_ino
                if k == 'missing' or (k == 'outdated' and check_existing):
                    if not rewritten:
                        ctx.violation('outdated-file-not-rewritten', '%s (%s) was not rewritten' % (a, k), case=case)
                    if k == 'outdated':
                        ctx.count('outdated_rewritten')
                if rewritten:
                    try:
                        got = load(path)
                    except Exception as err:       # noqa
                        ctx.violation('written-manifest-unreadable', '%s: the node\'s reader cannot load the file written by the synchronisation: %s: %s' % (
                            a, type(err).__name__, str(err)[:200]), case=case)
                        continue
                    ctx.count('files_written_checked')
                    for cls in text_classes(expected_content[a]):
                        ctx.count('files_written_checked_with_text:' + cls)
                    if got != expected_content[a]:
                        diff = sorted(kk for kk in set(got) | set(expected_content[a]) if got.get(kk) != expected_content[a].get(kk))
                        ctx.violation('written-manifest-differs:%s' % diff[0], '%s: fields %s differ (file %r, expected %r)' % (
                            a, diff[:4], {d: got.get(d) for d in diff[:4]}, {d: expected_content[a].get(d) for d in diff[:4]}), case=case)
                elif k == 'uptodate':
                    ctx.count('uptodate_kept')
            kinds = {s['kind'] for s in state.values()}
            nt_conv = {'extra', 'missing', 'outdated'} <= kinds
            ctx.done(case_desc=('conv', idx, sorted((a, s['kind']) for a, s in state.items())), nontrivial=nt_conv,
                     sample=dict(case=idx, check_existing=check_existing, entries={a: s['kind'] for a, s in state.items()}) if nt_conv else None)

            # ---------------- (2) every point of one write
            cands = [a for a in apps if state[a]['kind'] in ('missing', 'outdated', 'uptodate')]
            if not cands:
                continue
            target = rng.choice(cands)
            tpath = os.path.join(cache, target)
            codes = [fs.write_safe.__code__, eventmgr.EventMgr._cache.__code__]       # pylint: disable=protected-access

            def reset_target():
                for n in os.listdir(cache):
                    if n.startswith('.' + target):
                        os.unlink(os.path.join(cache, n))
                with open(tpath, 'w') as f:
                    f.write('old: content\nof: %s\n' % target)
                if state[target]['kind'] == 'missing' and rng.random() < 0.5:
                    os.unlink(tpath)

            def with_hooks(on_point):
                """Run one _cache() of the target with `on_point(label)` called at every
                statement boundary of the write path and around every syscall boundary."""
                counter = [0]
                orig = dict(replace=os.replace, fchmod=os.fchmod, ntf=_tf.NamedTemporaryFile)

                def line_cb(code, line):
                    if code.co_filename == __file__:
                        return              # the harness' own statements (global LINE events of pass (c))
                    counter[0] += 1
                    on_point('line:%s:%d' % (code.co_name, line), counter[0])

                def wrap(name, fn):
                    def w(*a, **kw):
                        counter[0] += 1
                        on_point('before:' + name, counter[0])
                        res = fn(*a, **kw)
                        counter[0] += 1
                        on_point('after:' + name, counter[0])
                        return res
                    return w
                os.replace = wrap('os.replace', orig['replace'])
                os.fchmod = wrap('os.fchmod', orig['fchmod'])
                _tf.NamedTemporaryFile = wrap('NamedTemporaryFile', orig['ntf'])
                mon.use_tool_id(TOOL, 'vf-c12')
                mon.register_callback(TOOL, mon.events.LINE, line_cb)
                for c in codes:
                    mon.set_local_events(TOOL, c, mon.events.LINE)
                try:
                    mgr._cache(zk, target)          # pylint: disable=protected-access
                finally:
                    for c in codes:
                        mon.set_local_events(TOOL, c, 0)
                    mon.set_events(TOOL, 0)
                    mon.register_callback(TOOL, mon.events.LINE, None)
                    mon.free_tool_id(TOOL)
                    os.replace, os.fchmod, _tf.NamedTemporaryFile = orig['replace'], orig['fchmod'], orig['ntf']
                return counter[0]

            # (a) crash / reader view at every point
            reset_target()
            points = []

            def view(label, n):
                points.append(label)
                ctx.count('crash_views')
                if label.startswith(('before:', 'after:')):
                    ctx.count('syscall_boundaries')
                if state[target]['big']:
                    ctx.count('big_manifest_points')
                if reader_view('crash-or-reader-view', '%s (point %d of the write of %s)' % (label, n, target)):
                    if state[target]['big'] and label != points[0]:
                        ctx.nontrivial_key((ctx.shard, idx, target, n))
            total = with_hooks(view)
            reader_view('after-write', 'end of write')
            ctx.done(evals=total)

            # (b) an OSError at every point where an I/O error can really occur: a syscall boundary
            # failing ('before:*') or a statement of the write path that performs I/O (not plain
            # assignments or the binding half of a multi-line `with`)
            import linecache
            import re as _re

            class Injected(OSError):
                pass

            def can_fail(label):
                if label.startswith('before:'):
                    return True
                if not label.startswith('line:'):
                    return False
                _l, fn, ln = label.split(':')
                code = codes[0] if fn == 'write_safe' else codes[1]
                text = linecache.getline(code.co_filename, int(ln))
                return bool(_re.search(r'\b(func|os\.\w+|replace|zkutils\.\w+|fs\.write_safe|tmpfile\.flush)\(', text)) \
                    and 'rm_safe(' not in text and 'makedirs' not in text
            eligible = [k for k in range(1, total + 1) if k <= len(points) and can_fail(points[k - 1])]
            # plus: the disk filling up in the middle of the manifest (partial data reaches the temp file)
            for limit in (0, 700, 5000):
                reset_target()
                orig_ntf = _tf.NamedTemporaryFile

                def ntf(*a, limit=limit, **kw):
                    res = orig_ntf(*a, **kw)
                    real_write = res.file.write
                    sofar = [0]

                    def write(data):
                        if sofar[0] + len(data) > limit:
                            real_write(data[:max(0, limit - sofar[0])])
                            res.file.flush()
                            raise Injected(28, 'No space left on device (injected after %d bytes)' % limit)
                        sofar[0] += len(data)
                        return real_write(data)
                    res.write = write
                    return res
                _tf.NamedTemporaryFile = ntf
                fired = [False]
                try:
                    mgr._cache(zk, target)          # pylint: disable=protected-access
                except Injected:
                    fired[0] = None
                    ctx.count('failpoints_raised')
                    ctx.count('midwrite_failures')
                finally:
                    _tf.NamedTemporaryFile = orig_ntf
                if fired[0] is not None and len(_yaml.safe_dump(expected_content[target])) > limit + 64:
                    # the disk did fill up, yet the call reported success: then the file must be there and complete
                    ok_, what_ = acceptable(target) if os.path.exists(tpath) else (False, 'missing')
                    if not ok_ or what_ != 'new':
                        ctx.violation('write-fault-swallowed', 'the disk filled up %d bytes into the manifest of %s, _cache returned '
                                      'normally, and the cache file is %s' % (limit, target, what_), case=dict(case=idx, limit=limit))
                reader_view('after-failed-write', 'after the disk filled up %d bytes into the manifest' % limit)
                left = [n for n in os.listdir(cache) if n.startswith('.' + target)]
                if left:
                    ctx.violation('temp-file-left-after-failed-write', 'disk full after %d bytes left %s behind' % (limit, left),
                                  case=dict(case=idx, limit=limit))
            for k in eligible:
                reset_target()

                def fail(label, n, k=k):
                    if n == k:
                        raise Injected(5, 'injected I/O error at %s' % label)
                try:
                    with_hooks(fail)
                    if can_fail(points[k - 1]) and points[k - 1].startswith(('before:', 'line:write_safe')):
                        ok_, what_ = acceptable(target) if os.path.exists(tpath) else (False, 'missing')
                        if not ok_ or what_ != 'new':
                            ctx.violation('write-fault-swallowed', 'an I/O error injected at %s did not propagate out of _cache and the '
                                          'cache file of %s is %s' % (points[k - 1], target, what_), case=dict(case=idx, point=k))
                except Injected:
                    ctx.count('failpoints_raised')
                except Exception:      # noqa
                    et, ev, tb = sys.exc_info()
                    ctx.violation('exception-after-injected-failure:%s' % et.__name__, '%s at point %d (%s)' % (ev, k, points[k - 1] if k <= len(points) else '?'),
                                  case=dict(case=idx, point=k))
                where = points[k - 1] if k <= len(points) else '?'
                ok = reader_view('after-failed-write', 'after an I/O error injected at %s (point %d)' % (where, k))
                left = [n for n in os.listdir(cache) if n.startswith('.' + target)]
                if left:
                    ctx.violation('temp-file-left-after-failed-write', 'I/O error injected at %s left %s behind' % (where, left),
                                  case=dict(case=idx, point=k, where=where))
            # (c) a failing write seen by a reader: from the instant a syscall of the write path fails until the call
            # ends, EVERY statement executed anywhere in the process (LINE events switched on globally at the failure)
            # is a point at which another process - or a crash - reads the directory: what is done about the
            # failure (clean-up, a retry, a fall-back) must not expose a partial manifest either
            for k in [k_ for k_ in eligible if points[k_ - 1].startswith('before:')]:
                reset_target()
                st = dict(active=False, busy=False, seen=0)

                def fail_then_watch(label, n, k=k, st=st):
                    if n == k:
                        st['active'] = True
                        mon.set_events(TOOL, mon.events.LINE)
                        raise Injected(5, 'injected I/O error at %s' % label)
                    if not st['active'] or st['busy'] or n < k or st['seen'] >= 400:
                        return
                    st['busy'] = True
                    try:
                        st['seen'] += 1
                        ctx.count('views_while_a_failure_is_handled')
                        reader_view('while-a-failure-is-handled', 'statement %d after an I/O error injected at %s (%s)' % (
                            n - k, points[k - 1], label))
                    finally:
                        st['busy'] = False
                try:
                    with_hooks(fail_then_watch)
                except Injected:
                    ctx.count('failpoints_raised')
                except Exception:      # noqa
                    pass               # (reported by pass (b))
                finally:
                    try:
                        mon.set_events(TOOL, 0)
                    except ValueError:
                        pass           # tool already freed by with_hooks
            ctx.done(evals=total)
        finally:
            shutil.rmtree(root, ignore_errors=True)
