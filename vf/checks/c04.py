"""C04 - affinity limits at every level; counters equal recounts."""
from ._sched_common import LEVEL, ASSUMPTIONS, BUDGET, make_run

RULE = ('history generator of C01 biased to finite limits on server/rack/pod/cell levels shared per affinity name, '
        'topologies of depth 1-2 and capacity pressure; oracle after every cycle: for every node of the tree and '
        'affinity, leaf recount <= min declared limit for that level, and node.affinity_counters == recount. '
        'In the Master-level histories, before every write of every publication (init_schedule / reschedule) the STORED '
        'placement - what a master that stops there leaves to a successor that restores records verbatim - is recounted '
        'the same way (per server / rack / pod / cell and affinity name against the limits the recorded instances carry). '
        'Non-trivial: a finite limit on a bucket level and an eviction in the history.')
REQUIRED_REACH = {'*': ['evictions', 'put_restore', 'put_evict', 'stored_affinity_headroom_checked_at_cut']}


def _tweak(pf, rng):
    pf.p_limits = 0.85
    pf.depths = (1, 2, 2)
    pf.weights = {'add_app': 16}


run = make_run(['C04'], _tweak)
