"""C02 - an instance that fits an eligible up server is not left pending."""
from .. import env
from ..sched import celldrv, engine, probe
from ..sched import engine as cengine
from ._sched_common import LEVEL, ASSUMPTIONS as _A

ASSUMPTIONS = _A + ['probe cycles run in forked children of the quiescent cell (parent state serves many probes)',
                    'the probe goes into a fresh allocation directly under its partition root, so it re-orders no other pair of instances']
RULE = ('(every 4th case runs the same experiment at Master level: a real Master on the in-memory ZooKeeper is driven to a quiescent state, the probe is submitted with masterapi.create_apps into the default allocation of a fresh proid and one reschedule() runs in a forked child) a generated history (as C01) is run to a quiescent state (a cycle that changes nothing, <= 6 attempts, else '
        'discarded and counted); then 8 probes per state (demand = free vector of a random server, +-1 in one '
        'dimension, small, or clone-shaped after a pending instance; rank before/inside/after the queue; traits, '
        'lease, affinity limits, identity group variants) are each submitted in a forked child and one cycle is run. '
        'Oracle: a leaf scan over the harness record (up, partition, own traits, now+lease<valid_until, demand <= '
        'capacity - recounted demand, recounted affinity head-room at server and every ancestor, a free identity) '
        'says it fits => the probe must be placed. Non-trivial: the scan found a fit and (a server is not up, or a '
        'server was removed/reloaded earlier in the history, or the feasibility tracker was consulted).')
BUDGET = {'quick': (260, 40.0), 'thorough': (2500, 280.0)}
REQUIRED_REACH = {'*': ['probe_fits', 'probe_fits_placed', 'probe_tracker_consulted', 'quiescent_states', 'quiescent_master_states', 'master_probe_fits', 'identity_exhaustion_probes']}
PROBES = 8


def master_case(ctx, idx, rng):
    """Master level: quiescent real Master on the fake ZooKeeper, probes submitted with masterapi.create_apps."""
    from ..master import crash, drv as mdrv, engine as mengine
    h = mengine.MHistory(ctx, rng, mdrv.MProfile(p_restart=0.3), [])
    try:
        h.run()
        if h.aborted:
            ctx.count('history_aborted')
            return
        d = h.d
        # (half of the cases) the last thing the operator did: a server with a trait nobody knew, then an allocation that
        # requires it - both events are still pending when the master gets to them
        new_trait = None
        if not getattr(d, 'master_died', None) and rng.random() < 0.5:
            d.rng = ctx.case_rng(idx, 'newtrait')
            new_trait = d.op_new_trait_then_allocation()
        quiet = False
        for _ in range(6):
            d.settle_delivery()
            d.sync_H()
            d.last_placement = None
            d.master.reschedule()
            d.master.check_placement_integrity()
            pl = d.last_placement or []
            if all(p[1] == p[3] and p[2] == p[4] for p in pl) and not d.deliver():
                quiet = True
                break
        if not quiet:
            ctx.count('not_quiescent_discarded')
            return
        ctx.count('quiescent_states')
        ctx.count('quiescent_master_states')
        d.settle_delivery()
        d.sync_H()
        H = d.H
        for k in range(PROBES):
            prng = ctx.case_rng(idx, 'mprobe%d' % k)
            d.rng = prng
            man, demand = d.gen_manifest()
            man.pop('identity_group', None)
            man.pop('schedule_once', None)
            man['priority'] = prng.choice([1, 10, 50, 100])
            # where the probe goes: the default allocation of a fresh proid, or (a third; always for the first probes
            # after a trait was introduced) an application name that the allocations in force assign to an existing
            # allocation - one without a utilisation cap on its path, whose required traits the probe inherits
            app_id, akey = 'probe.p', ('_default', ('_default', 'probe'))
            ta = getattr(d, 'trait_alloc', None) if new_trait else None
            if ta is not None and k < 3:
                names = [ta['app_id']]
            elif prng.random() < 0.35:
                names = [prng.choice(d.appnames)]
            else:
                names = []
            for nm in names:
                if any(mdrv.glob_match(b, nm) for b in d.Z['blacklist']):
                    continue            # a blacked-out application is not placed whatever fits
                for pat, _p, key in d.assignments:
                    if pat == nm or (pat.endswith('*') and nm.startswith(pat[:-1])):
                        path_ok = all((H.allocs.get((key[0], key[1][:i])) or {}).get('maxutil') is None
                                      for i in range(1, len(key[1]) + 1))
                        if path_ok and key in H.allocs:
                            app_id, akey = nm, key
                        break
            atraits = H.allocs[akey]['traits'] if akey in H.allocs else 0
            cands = [s for s in sorted(H.servers) if H.servers[s]['label'] == akey[0]
                     and (H.servers[s]['traits'] & atraits) == atraits]
            mode = prng.choice(['free', 'free', 'free-1', 'free+1', 'asis'])
            if mode.startswith('free') and cands:
                s = prng.choice(cands)
                srvobj = d.master.servers.get(s)
                if srvobj is not None:
                    free = [int(x) for x in srvobj.free_capacity]
                    demand = [max(0, x) for x in free]
                    i = prng.randrange(3)
                    if mode == 'free-1':
                        demand[i] = max(0, demand[i] - 1)
                    elif mode == 'free+1':
                        demand[i] += 1
                    man.update(memory='%dM' % demand[0], cpu='%d%%' % demand[1], disk='%dM' % demand[2])
            lease = mdrv.own_secs(man.get('lease', '0s'))
            spec = dict(name='probe', demand=demand, traits=mdrv.trait_bits(man.get('traits')) | atraits, lease=lease,
                        affinity=mdrv.aff_of(man), limits=dict(man.get('affinity_limits', {})), group=None,
                        alloc=akey)
            if app_id != 'probe.p':
                ctx.count('master_probe_into_existing_allocation')
                if ta is not None and app_id == ta['app_id']:
                    ctx.count('master_probe_into_allocation_requiring_just_introduced_trait')
            # reboot time unknown for a server (no published record) -> do not claim a fit for leased probes there
            if lease:
                for s in H.servers.values():
                    if not s['valid_until']:
                        s['valid_until'] = 0
            h.drv = d            # leaf_scan reads h.drv.H / h.drv.cell
            d.cell = d.master.cell
            fit, _ident = probe.leaf_scan(h, spec, h.clock.peek())

            def child():
                d.srv.before_write = None
                d.cutter = None
                ids = d.api.create_apps(d.admin, app_id, man, 1)
                d.Z['apps'][ids[0]] = dict(man=dict(man), demand=demand)
                d.settle_delivery()
                cengine.MON.reset_cycle()
                d.master.reschedule()
                app = d.master.cell.apps.get(ids[0])
                return dict(server=app.server if app else None, known=app is not None,
                            rejected=ids[0] in cengine.MON.tracker_rejected, consulted=cengine.MON.tracker_consulted)
            res = crash.in_child(child)
            if res is None or 'harness_error' in res:
                ctx.count('probe_child_died')
                if res:
                    ctx.notes.append(res['harness_error'] + res.get('tb', ''))
                continue
            desc = dict(history=idx, level='master', probe=dict(manifest=man, demand=demand, app=app_id, allocation=list(akey)),
                        fits_on=fit, result=res)
            if res['consulted']:
                ctx.count('probe_tracker_consulted')
            if fit is not None:
                ctx.count('probe_fits')
                ctx.count('master_probe_fits')
                if res['server'] is not None:
                    ctx.count('probe_fits_placed')
                else:
                    mech = 'fits-but-skipped-by-feasibility-tracker' if res['rejected'] else 'fits-but-left-pending'
                    ctx.violation(mech + ':master', 'probe %s fits on %s but was left pending' % (desc['probe'], fit),
                                  witness=desc, case=dict(ops=d.ops[-40:], probe=desc))
            else:
                ctx.count('probe_no_fit')
            churn = any(op[0] in ('server_delete', 'server_cap', 'server_attrs', 'restart', 'cell_event', 'presence_up') for op in d.ops)
            ctx.done(case_desc=(idx, k, desc['probe']), nontrivial=bool(fit is not None and churn), sample=None)
    finally:
        env.VClock.uninstall()
    h.absorb_counters()


def relevel_case(ctx, idx, rng):
    """Directed: one rack of 2-4 empty servers; two instances of one application limit themselves to one per rack (the
    second stays pending); a third instance of the application - its manifest limits it per SERVER instead - is submitted
    to the quiescent cell.  Independent scan: an empty up server of its partition has room and the probe limits only
    the server level, where the count is 0 - it fits."""
    import time as _time
    from treadmill import scheduler as sch
    sch.DIMENSION_COUNT = 3
    clock = env.VClock()
    clock.install()
    try:
        cell = sch.Cell('cell')
        rack = sch.Bucket('rack:r0', traits=0)
        rack.level = 'rack'
        cell.add_node(rack)
        n = rng.randint(2, 4)
        for i in range(n):
            rack.add_node(sch.Server('s%d' % i, [10, 10, 10], traits=0, valid_until=clock.peek() + 100000))
        alloc = cell.partitions[None].allocation
        demand = [rng.randint(1, 3) for _ in range(3)]
        level_a, level_p = rng.choice([(('rack',), 'server'), (('cell',), 'server'), (('cell',), 'rack'),
                                       (('server', 'rack'), 'server'), (('rack', 'cell'), 'server'), (('server', 'cell'), 'server')])
        how = 'other-levels' if len(level_a) == 1 else 'fewer-levels'
        apps = [sch.Application('foo.app#%010d' % i, 50, list(demand), 'foo.app', affinity_limits={lv: 1 for lv in level_a}) for i in (1, 2)]
        for a in apps:
            cell.add_app(alloc, a)
        cell.schedule()
        cell.schedule()
        if [bool(a.server) for a in apps] != [True, False]:
            ctx.count('relevel_directed_setup_differs')
            return
        probe_ = sch.Application('foo.app#%010d' % 3, 50, [x + rng.choice([0, 1]) for x in demand], 'foo.app',
                                 affinity_limits={level_p: 2 if level_p == 'rack' else 1})
        cell.add_app(alloc, probe_)
        cengine.MON.install()
        cengine.MON.reset_cycle()
        cell.schedule()
        ctx.count('probe_same_affinity_limits_on_%s_directed' % how.replace('-', '_'))
        ctx.count('probe_fits')
        if probe_.server is None:
            ctx.violation('fits-but-skipped-by-feasibility-tracker:same-affinity-limits-on-' + how,
                          'rack of %d servers, %s (limit 1 on %r) on %s, its twin pending; %s with limits on %r only and '
                          'demand %s was left pending although %d servers are empty' % (
                              n, apps[0].name, level_a, apps[0].server, probe_.name, level_p, list(probe_.demand), n - 1),
                          case=dict(ops=[('directed-relevel', n, demand, level_a, level_p)]))
        else:
            ctx.count('probe_fits_placed')
        ctx.done(case_desc=('relevel-directed', n, demand, level_a, level_p), nontrivial=True)
    finally:
        env.VClock.uninstall()


def lease_boundary_case(ctx, idx, rng):
    """Directed: a quiescent cell of 1-3 up servers at a fractional time; a probe with a lease that fits one of them with
    less than a second to spare (now + lease < reboot time by 0.2-0.9 s, far more than the clock moves during the cycle):
    that server has the required lifetime, room and head-room, so the probe is placed."""
    from treadmill import scheduler as sch
    sch.DIMENSION_COUNT = 3
    clock = env.VClock(base=1700000000.0 + rng.choice([0.25, 0.5, 0.75, 0.9]), tick=1e-5)
    clock.install()
    try:
        cell = sch.Cell('cell')
        rack = sch.Bucket('rack:r0', traits=0)
        rack.level = 'rack'
        cell.add_node(rack)
        lease = rng.choice([60, 3600, 86400])
        spare = rng.choice([0.2, 0.4, 0.6, 0.9])
        n = rng.randint(1, 3)
        fit = rng.randrange(n)
        for i in range(n):
            vu = clock.peek() + lease + (spare if i == fit else -rng.choice([1, 30, lease / 2.0]))
            rack.add_node(sch.Server('s%d' % i, [10, 10, 10], traits=0, valid_until=vu))
        alloc = cell.partitions[None].allocation
        cell.schedule()
        probe_ = sch.Application('foo.app#%010d' % 1, 50, [rng.randint(0, 3) for _ in range(3)], 'foo.app', lease=lease)
        cell.add_app(alloc, probe_)
        t0 = clock.peek()
        cell.schedule()
        moved = clock.peek() - t0
        ctx.count('probe_with_lease_ending_less_than_a_second_before_the_reboot')
        if moved >= spare / 2:
            ctx.count('lease_boundary_clock_moved_too_far_discarded')
            return
        ctx.count('probe_fits')
        if probe_.server is None:
            ctx.violation('fits-but-left-pending:lifetime-within-a-second',
                          'at t=%.3f a probe with lease %ss was left pending although s%d is up, empty and reboots %.1fs after '
                          'the lease ends (the cycle moved the clock by %.4fs)' % (t0, lease, fit, spare, moved),
                          case=dict(ops=[('directed-lease-boundary', n, lease, spare, fit)]))
        else:
            ctx.count('probe_fits_placed')
        ctx.done(case_desc=('lease-boundary-directed', n, lease, spare, t0 % 1), nontrivial=True)
    finally:
        env.VClock.uninstall()


def run(ctx):
    for idx, rng in ctx.cases():
        if idx % 40 == 1:
            relevel_case(ctx, idx, rng)
            continue
        if idx % 40 == 2:
            lease_boundary_case(ctx, idx, rng)
            continue
        if idx % 4 == 3:
            master_case(ctx, idx, rng)
            continue
        pf = celldrv.Profile()
        pf.pressure = (0.6, 1.6)
        pf.p_identity = 0.5
        pf.weights = {'del_server': 4, 'del_app': 6, 'group': 5, 'regroup': 2}
        if rng.random() < 0.3:
            pf.n_ops = (25, 45)
        h = engine.History(ctx, rng, pf, [])
        try:
            h.run()
            if h.aborted:
                ctx.count('history_aborted')
                continue
            # the operator adds a required trait no server of the partition offers to an allocation that has a placed
            # instance (an 'allocations' event: the Allocation object is changed in place, every instance re-loaded)
            retraited = False
            Hh = h.drv.H
            if Hh.trait_bits and rng.random() < 0.5:
                pm = {n: a.server for n, a in sorted(h.drv.cell.apps.items()) if a.server}
                cands = [n for n in pm if n in Hh.apps and Hh.apps[n]['alloc'][1] and not Hh.apps[n]['traits']
                         and not Hh.allocs[(Hh.apps[n]['alloc'][0], tuple(Hh.apps[n]['alloc'][1]))]['traits']]
                if cands:
                    x = rng.choice(cands)
                    key = (Hh.apps[x]['alloc'][0], tuple(Hh.apps[x]['alloc'][1]))
                    offered = 0
                    for sv in Hh.servers.values():
                        if sv['label'] == key[0]:
                            offered |= sv['traits']
                    missing = [b for b in Hh.trait_bits if not offered & b]
                    if missing:
                        h.drv.op_alloc_update(key, dict(Hh.allocs[key], traits=missing[0]), force=True)
                        retraited = True
                        ctx.count('allocation_given_unoffered_trait_before_probes')
            if not probe.settle(h):
                ctx.count('not_quiescent_discarded')
                continue
            ctx.count('quiescent_states')
            churn = any(op[0] in ('del_server', 'replace_server') for op in h.drv.ops)
            notup = any(s['state'] != 'up' for s in h.drv.H.servers.values())
            for k in range(PROBES):
                prng = ctx.case_rng(idx, 'probe%d' % k)
                h.drv.rng = prng
                spec, rank = probe.gen_probe(h, prng, k, force_mode='clone-traitless' if retraited and k < 2 else None)
                now = h.clock.peek()
                fit, ident_free = probe.leaf_scan(h, spec, now)
                res = probe.run_probe_child(h, spec, rank, decoys=prng.random() < 0.3)
                # undo generator side effects on the parent's model
                if res is None:
                    ctx.count('probe_child_died')
                    continue
                desc = dict(history=idx, probe=dict(demand=spec['demand'], traits=spec['traits'], lease=spec['lease'],
                                                    affinity=spec['affinity'], limits=spec['limits'], group=spec['group'],
                                                    partition=spec['alloc'][0], rank=rank, priority=spec['priority']),
                            fits_on=fit, identity_free=ident_free, result=res)
                if 'error' in res:
                    ctx.violation('exception-in-probe-cycle', res['error'], res.get('tb'),
                                  case=dict(ops=h.drv.ops[-60:], probe=desc))
                    continue
                if res.get('decoys') == 'disturbed':
                    ctx.count('probe_decoys_disturbed_discarded')      # not the quiescent cell of the statement
                    continue
                if res.get('decoys') == 'planted':
                    ctx.count('probe_behind_incomparable_pending_decoys')
                if res['consulted']:
                    ctx.count('probe_tracker_consulted')
                must = fit is not None and ident_free
                if must:
                    ctx.count('probe_fits')
                    if res['server'] is not None:
                        ctx.count('probe_fits_placed')
                    else:
                        if res['rejected']:
                            mech = 'fits-but-skipped-by-feasibility-tracker'
                            shapes = []
                        else:
                            mech = 'fits-but-left-pending'
                        if spec.get('relevel'):
                            mech += ':same-affinity-limits-on-' + spec['relevel']
                        ctx.violation(mech, 'probe %s fits on %s but was left pending' % (desc['probe'], fit),
                                      witness=desc, case=dict(ops=h.drv.ops[-60:], probe=desc))
                else:
                    ctx.count('probe_no_fit')
                    if res['server'] is not None:
                        ctx.count('probe_no_fit_placed_by_eviction')
                ctx.done(case_desc=(idx, k, desc['probe']),
                         nontrivial=bool(must and (churn or notup or res['consulted'])),
                         sample=desc if must and res['consulted'] else None)
            # identity conservation seen from outside: every identity the harness counts free can be used
            H, cell = h.drv.H, h.drv.cell
            for g in sorted(H.groups):
                held = {a.identity for n, a in cell.apps.items()
                        if n in H.apps and H.apps[n]['group'] == g and a.identity is not None and a.server}
                free = len(set(range(H.groups[g])) - held)
                labels = sorted({s['label'] for s in H.servers.values() if s['state'] == 'up'})
                if not free or not labels:
                    continue
                res = probe.identity_exhaustion_probe(h, g, free, labels[0])
                ctx.count('identity_exhaustion_probes')
                if res is None:
                    ctx.count('probe_child_died')
                elif 'error' in res:
                    ctx.violation('exception-in-probe-cycle', res['error'], case=dict(ops=h.drv.ops[-60:]))
                elif len(res['placed']) != free:
                    ctx.violation('free-identity-unavailable', 'group %s: %d identities are held by nobody, but only %d of %d '
                                  'zero-demand instances of the group were placed (available=%s)' % (
                                      g, free, len(res['placed']), free, res['available']),
                                  witness=res, case=dict(ops=h.drv.ops[-60:], group=g, free=free))
                ctx.done(case_desc=(idx, 'idprobe', g, free), nontrivial=True)
        finally:
            env.VClock.uninstall()
        h.absorb_counters()
