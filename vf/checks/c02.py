"""C02 - an instance that fits an eligible up server is not left pending."""
from .. import env
from ..sched import celldrv, engine, probe
from ._sched_common import LEVEL, ASSUMPTIONS as _A

ASSUMPTIONS = _A + ['probe cycles run in forked children of the quiescent cell (parent state serves many probes)',
                    'the probe goes into a fresh allocation directly under its partition root, so it re-orders no other pair of instances']
RULE = ('a generated history (as C01) is run to a quiescent state (a cycle that changes nothing, <= 6 attempts, else '
        'discarded and counted); then 8 probes per state (demand = free vector of a random server, +-1 in one '
        'dimension, small, or clone-shaped after a pending instance; rank before/inside/after the queue; traits, '
        'lease, affinity limits, identity group variants) are each submitted in a forked child and one cycle is run. '
        'Oracle: a leaf scan over the harness record (up, partition, own traits, now+lease<valid_until, demand <= '
        'capacity - recounted demand, recounted affinity head-room at server and every ancestor, a free identity) '
        'says it fits => the probe must be placed. Non-trivial: the scan found a fit and (a server is not up, or a '
        'server was removed/reloaded earlier in the history, or the feasibility tracker was consulted).')
BUDGET = {'quick': (120, 30.0), 'thorough': (2500, 280.0)}
REQUIRED_REACH = {'*': ['probe_fits', 'probe_fits_placed', 'probe_tracker_consulted', 'quiescent_states']}
PROBES = 8


def run(ctx):
    for idx, rng in ctx.cases():
        pf = celldrv.Profile()
        pf.pressure = (0.6, 1.6)
        if rng.random() < 0.3:
            pf.n_ops = (25, 45)
        h = engine.History(ctx, rng, pf, [])
        try:
            h.run()
            if h.aborted:
                ctx.count('history_aborted')
                continue
            if not probe.settle(h):
                ctx.count('not_quiescent_discarded')
                continue
            ctx.count('quiescent_states')
            churn = any(op[0] in ('del_server', 'replace_server') for op in h.drv.ops)
            notup = any(s['state'] != 'up' for s in h.drv.H.servers.values())
            for k in range(PROBES):
                prng = ctx.case_rng(idx, 'probe%d' % k)
                h.drv.rng = prng
                spec, rank = probe.gen_probe(h, prng, k)
                now = h.clock.peek()
                fit, ident_free = probe.leaf_scan(h, spec, now)
                res = probe.run_probe_child(h, spec, rank)
                # undo generator side effects on the parent's model
                if res is None:
                    ctx.count('probe_child_died')
                    continue
                desc = dict(history=idx, probe=dict(demand=spec['demand'], traits=spec['traits'], lease=spec['lease'],
                                                    affinity=spec['affinity'], limits=spec['limits'], group=spec['group'],
                                                    partition=spec['alloc'][0], rank=rank, priority=spec['priority']),
                            fits_on=fit, identity_free=ident_free, result=res)
                if 'error' in res:
                    ctx.violation('exception-in-probe-cycle', res['error'], res.get('tb'),
                                  case=dict(ops=h.drv.ops[-60:], probe=desc))
                    continue
                if res['consulted']:
                    ctx.count('probe_tracker_consulted')
                must = fit is not None and ident_free
                if must:
                    ctx.count('probe_fits')
                    if res['server'] is not None:
                        ctx.count('probe_fits_placed')
                    else:
                        if res['rejected']:
                            mech = 'fits-but-skipped-by-feasibility-tracker'
                            shapes = []
                        else:
                            mech = 'fits-but-left-pending'
                        ctx.violation(mech, 'probe %s fits on %s but was left pending' % (desc['probe'], fit),
                                      witness=desc, case=dict(ops=h.drv.ops[-60:], probe=desc))
                else:
                    ctx.count('probe_no_fit')
                    if res['server'] is not None:
                        ctx.count('probe_no_fit_placed_by_eviction')
                ctx.done(case_desc=(idx, k, desc['probe']),
                         nontrivial=bool(must and (churn or notup or res['consulted'])),
                         sample=desc if must and res['consulted'] else None)
        finally:
            env.VClock.uninstall()
        h.absorb_counters()
