"""C17 - presence registration never touches nodes owned by another session."""
import shutil
import tempfile

from ..zkproto import scenario as _scenario
from ..zkproto import world as _world

LEVEL = 'exploration'
RULE = (
    'One case = one scenario + one interleaving. Scenario (seeded): 2-5 successive containers of one instance '
    '(shapes move / same / pingpong / same3 / move-stay / stay-move / random, or two instances handing on one '
    'identity) on two hosts, 0-2 endpoints, optional identity; client actions put(c) and del(c) partially ordered '
    '(put(c_i) before put(c_i+1) and before del(c_i); del(c_i) and put(c_i+1) unordered); request ids are formatted as the '
    'runtime does (appcfg.manifest_unique_name: unique id padded to 13 characters) - random 13-character ids, or in about '
    '30% of the scenarios base-62 ids as gen_uniqueid emits them, zero-padded, with the newer container\'s significant '
    'digits ending in the older one\'s (00000000000a1 / 0000000000ba1) or differing only in letter case; in 40% of the two-instance '
    'scenarios with an identity group the first instance holds identity 0 and the second is a surplus instance without an '
    'identity (registered under the group\'s placeholder node), the holder\'s runtime cleans its identity registration up '
    '(it may touch its own identity node only) and another runtime registers a further identity-less instance through '
    'EndpointPresence under its own session (it may not rewrite a node another session holds); 0-2 auxiliary calls '
    '(EndpointPresence.unregister_running/_endpoints/_identity, presence.kill_node, trace.app.zk._unschedule; run '
    'atomically); in about a third of the scenarios each: the event daemon of a host publishes a terminal event '
    '(finished / killed / aborted) of a container through trace.app.zk.publish - often a stale one, published after the '
    'newer container was placed elsewhere - with a connection loss at one single ZooKeeper request of the publish '
    '(ordinal 1-6 or none; R5 applies to its _unschedule); a runtime that talks to ZooKeeper itself registers a '
    'container through EndpointPresence.register() under a session of its own, on the container\'s server name or the '
    'other one, while the host\'s presence service or an earlier runtime session may still own the nodes (its waits '
    'are points where an earlier runtime session may end; a refused registration ends the session, a successful one '
    'lives until the scheduler ends it): it applies no set/delete to a presence node another session owns; '
    'a budget of 0-2 session expiries and 0-1 process crashes that keep the session. Interleaving: '
    'two REAL PresenceResourceService processes (two hostnames, two sessions of the in-memory ZooKeeper) behind the '
    'REAL ResourceService._on_created/_on_deleted/_check_requests; each request handler, each kazoo watch callback '
    'and each handler.spawn() is its own thread of control (greenlet) that parks at the start of every ZooKeeper '
    'operation, a seeded scheduler picks which one proceeds (exactly one runs at a time, no sleeps; per case one of '
    'three policies: uniform, one host running ahead, read-to-write windows stretched); a session expiry / crash can be chosen '
    'at any such point: ephemerals vanish, watches fire, the parked handlers of that process die, a fresh process '
    '(new session, or the kept one after a crash) re-reads all still-open requests in shuffled directory order. '
    'After the last action a seeded number of further steps still allows faults, then faults stop and the run is '
    'drained to quiescence. Oracle (independent reference model over the operation history, never the service\'s '
    'own dict): R1 every set/delete a service applies to an existing /running/*, /endpoints/*/*, '
    '/identity-groups/*/* node is applied by the node\'s owner session (judged on the node table at the instant '
    'the operation is applied); R2 every such node a service creates is ephemeral and owned by the creating '
    'session; R3 a create that met a foreign owner ends with a watch armed on that node or a retry queued; R4 the '
    'delete request of container c deletes no node that a still-open newer container registered (registration = '
    'the create, or the read by which _safe_create found its own node, observed at the boundary); R5 '
    'unregister_* deletes only nodes whose content names its hostname, _unschedule deletes /scheduled/<i> only '
    'while /placement/<host>/<i> exists; R6 bounded progress: once faults and client actions stopped the run '
    'reaches quiescence within 400 steps and every open create request is then answered or waits, with a watch '
    'armed, for a node a live foreign session still owns; plus: no exception escapes a handler, a watch callback '
    'or an auxiliary call. Non-trivial = the run contained contention or a fault: a create met an existing node '
    '(own or foreign), or a delete request ran next to a newer registration, or a session expired / process '
    'crashed while requests were open. Distinct = hash of (scenario shape, sequence of scheduler choices); '
    'distinct_nontrivial therefore counts distinct non-trivial interleavings.')
ASSUMPTIONS = [
    'in-memory ZooKeeper fake (vf.zkfake): sessions, ephemerals with owner session in kazoo ZnodeStat, one-shot '
    'watches, kazoo\'s real DataWatch recipe; operations are atomic and totally ordered (the real server\'s '
    'linearisation), watch events of one client are delivered in order, one at a time, at scheduler-chosen moments',
    'inotify + poll loop of ResourceService._run replaced by a per-process FIFO of request events (created / '
    'modified on retry_request / deleted) in file-system order; one request handler at a time per process as in the '
    'real single-threaded loop; the request/reply files and links are real (temp directory)',
    'PresenceResourceService subclassed only to supply zkclient; retry_request / on_create_request / '
    'on_delete_request are wrapped transparently (call the original, record)',
    'threads of the real system (service main loop, kazoo callback thread, handler.spawn threads) are greenlets '
    'switched only at ZooKeeper operations and at contended kazoo locks; logcontext\'s thread-local stack is swapped per task',
    'process exit on session loss + supervisor restart modelled as: parked handlers never perform another '
    'ZooKeeper operation, new process object with a new session (or the saved session id after a crash)',
    'sysinfo.hostname and trace.app.zk._HOSTNAME rebound to the simulated host name; utils.sys_exit rebound to raise',
    'the master is a stand-in that writes /scheduled/<instance> and /placement/<host>/<instance> when a container is started',
    'auxiliary clients (EndpointPresence.unregister_*, kill_node, _unschedule, trace.app.zk.publish, '
    'EndpointPresence.register of a runtime session) run at request granularity (atomically); time.sleep of '
    'presence._create_ephemeral_with_retry and of kazoo\'s KazooRetry (zkutils.with_retry) do not sleep; an injected '
    'connection loss of a publish request means the request never reaches the server',
]
BUDGET = {'quick': (2500, 28.0), 'thorough': (40000, 300.0)}
REQUIRED_REACH = {'*': [
    'owner_checks', 'deletes_by_owner', 'ephemeral_creates_checked', 'create_met_foreign_owner',
    'create_met_own_node', 'waits', 'waits_resolved', 'watch_events_delivered', 'expiries',
    'process_deaths_mid_request', 'restarts_replaying_several_requests', 'old_cleanup_next_to_newer_same_host',
    'old_cleanup_next_to_newer_other_host', 'aux_deletes', 'unschedule_deletes', 'interleavings',
    'stale_terminal_events_published', 'stale_terminal_events_with_connection_loss_on_read_request',
    'stale_terminal_events_with_connection_loss_on_write_request',
    'runtime_registration_next_to_live_session_of_same_server', 'runtime_registration_create_met_foreign_owner',
    'runtime_registrations_succeeded', 'runtime_registrations_refused',
    'old_cleanup_next_to_newer_same_host_with_related_unique_ids',
]}


def run_case(rng, tier, count, script=None, scn=None, base=None):
    """Build and run one case; returns the closed world."""
    if scn is None:
        scn = _scenario.generate(rng, tier)
    w = _world.World(rng, scn, count, script=script, base=base)
    try:
        w.run()
    finally:
        w.close()
    return w


def run(ctx):
    base = tempfile.mkdtemp(prefix='vf-')
    try:
        _run(ctx, base)
    finally:
        shutil.rmtree(base, ignore_errors=True)


def _run(ctx, base):
    seen = set()
    for idx, rng in ctx.cases():
        local = {}

        def count(name, n=1, _l=local):
            _l[name] = _l.get(name, 0) + n
            ctx.count(name, n)

        # the two servers: one name a proper prefix of the other, or the same short name in two DNS domains
        _scenario.HOSTS = ('node1', 'node10') if idx % 3 else ('node7.dc1.example.com', 'node7.dc2.example.com')
        if not idx % 3:
            ctx.count('cases_same_short_hostname')
        w = run_case(rng, ctx.tier, count, base=base)
        desc = _scenario.describe(w.scn)
        if w.scn.get('unique_ids'):
            ctx.count('cases_related_zero_padded_unique_ids')
            if local.get('old_cleanup_next_to_newer_same_host'):
                ctx.count('old_cleanup_next_to_newer_same_host_with_related_unique_ids')
        ctx.count('interleavings')
        if w.trace_hash() not in seen:
            seen.add(w.trace_hash())
            ctx.count('distinct_choice_sequences')
            ctx.count('distinct_sequences:' + w.scn['shape'])
        ctx.count('zk_operations', w.sched.ops)
        nontrivial = bool(
            local.get('create_met_foreign_owner') or local.get('create_met_own_node')
            or local.get('old_cleanup_next_to_newer_same_host') or local.get('old_cleanup_next_to_newer_other_host')
            or local.get('expiries_with_open_requests') or local.get('process_deaths_mid_request'))
        for mech, msg, witness, at in w.violations:
            ctx.violation(
                mech, msg,
                witness=dict(detail=witness, at_choice=at, history_tail=w.oracle.tail(30)),
                case=dict(scenario=w.scn, policy=w.policy, ops=w.trace[:at], choices_in_case=len(w.trace)))
        ctx.done(case_desc=dict(scn=desc, interleaving=w.trace_hash()), nontrivial=nontrivial,
                 sample=dict(scenario=desc, choices=w.trace) if idx < 2 else None)
