"""C14 - node VIPs, firewall rule files and endpoint specs have exactly one owner."""
from ..owndb import contend, netsvc, osproxy, seqdb

LEVEL = 'exploration'
RULE = (
    '(The boundary may also answer one stat / lstat / readlink / listdir of an operation - for the collector in 30% of its failpoint runs - with a transient EIO; an operation may fail with it or go on, every link it removes on the way is judged; os.path.exists of the three modules goes through the same boundary.) '
    'Five kinds of cases, chosen per case from the case rng. (vip|rule|spec) 25-70 (thorough: 25-140) generated operations on the real '
    'VipMgr / RuleMgr / EndpointsMgr over a real temp directory: 3-7 owners (unique container names; endpoint owners '
    'are incarnations of 1-3 instances; an owner path is a directory, a link to a directory or a regular file) appear and disappear (owner path created / removed) at random points and never '
    'come back; create (automatic and picked IPs in a /30../27 network driven to exhaustion and back, optionally a '
    'second pool on the same directory; 3-9 rule names / 2-5 spec names per instance shared by all owners; in 45% of '
    'the rule cases about half of the rules live in site chains whose names are not of the TM_* word form - a dash, as '
    'iptables allows and create_rule accepts - the read-back get_rules is judged on names of its documented grammar only), release '
    'by the holder, by another owner, of a free entry, by an owner whose path is gone, unlink_all patterns, '
    'garbage_collect, read-back (list/get_rules/get_specs), initialize. Oracle: the reference model entry->owner '
    '(vf/owndb/model.py) is replayed and compared with the directory listing after EVERY operation (free entry is '
    'bound; held entry stays, create_rule by another live owner raises; release by the holder removes, by anyone else '
    'changes nothing; automatic IPs are host addresses of the cidr, picked ones refused outside it; collection removes '
    'exactly the entries whose owner path does not exist). In half of these cases 45% of the operations carry 1-2 '
    'failpoints at the os.listdir/stat/readlink/symlink/unlink boundaries of the module under test (before/after the '
    'n-th call), where operations of OTHER actors run (holder releases, another owner creates the same entry, an owner '
    'path disappears, a new owner appears and creates, a collection, and the two-stage release-then-create around one '
    'call); then every single link creation/removal is judged when it happens (a release may remove only the '
    "caller's entry, a collection only an entry whose owner path does not exist at that moment), plus the required "
    'effects at the end. (netsvc) 40-120 (thorough: 40-220) steps on the real NetworkResourceService in the role of ResourceService: '
    'start = initialize, on_create_request for every existing request, synchronize; ordered delivery of '
    'created/modified/deleted notifications; stops, and kills at a random call into the kernel model (5-15% of the '
    'calls in 2/3 of the cases); oracle in vf/owndb/netsvc.py (per-step allowed change of vips/, answered owners keep '
    'their address across restarts, same address on every further answer, nothing of a vanished owner after '
    'synchronize). (contend) 4-7 (quick) / 8-16 (thorough) forked processes on one vips/ (/29../27) and one rules/ '
    '(1-4 rule names) directory, in half of the runs with a process looping garbage_collect; merged '
    '(owner, op, entry, t_call, t_ret) history: no entry with overlapping definite hold intervals of two owners, no live '
    'holder loses its link. Non-trivial: (vip|rule|spec) a create hit an entry held by another owner AND (a non-owner '
    'release happened OR a collection had both entries to reclaim and entries to keep), or the network was exhausted '
    'and allocated from again, or another actor changed the directory inside an operation; (netsvc) a restart over '
    'existing entries with a repeated request and a reclaimed address, or exhaustion and back; (contend) some entry '
    'was held by several owners in turn, creates were refused and foreign releases were issued. Distinct by the hash '
    'of the executed operation list with results.')
ASSUMPTIONS = [
    'os / glob globals of treadmill.vipfile, rulefile, endpoints rebound to a forwarding proxy (vf/owndb/osproxy.py): '
    'every call reaches the real os on a real temp directory; listdir/glob results are returned in a seeded order '
    '(POSIX leaves it unspecified); failpoints run other actors\' operations between two system calls',
    'owners are paths created/removed by the harness: a directory (3 owners in 5), a link to a directory (as '
    '<svc>/resources/<id> links to request dirs) or a regular file (a pid / state file) - the databases store the '
    'path and take its existence for the life of the owner',
    'NetworkResourceService: subproc.check_call/invoke (ip link/addr, brctl, ipset) -> link/bridge/ipset state model '
    '(vf/owndb/kernel.py); netdev._SYSFS_NET -> temp tree mirrored from the model (netdev\'s readers run for real); '
    'netdev._proc_sys_write recorded; _TM_CIDR set to a /30../27 network; a kill = BaseException at the k-th call '
    'into the model, the in-memory service is dropped, files and kernel model stay',
    'the harness plays services.ResourceService: ordered delivery of request notifications, start-up protocol, '
    'sweep of dangling request links; exceptions of on_create/on_delete_request are answers (as ResourceService '
    'turns them into _error replies), exceptions of initialize/synchronize are violations',
    'contention: forked children use the real os module; CLOCK_MONOTONIC orders calls of different processes',
]
BUDGET = {'quick': (56, 38.0), 'thorough': (520, 285.0)}
REQUIRED_REACH = {'*': [
    'ops_vip_create', 'ops_rule_create', 'ops_spec_create', 'ops_vip_gc', 'ops_rule_gc', 'ops_spec_gc',
    'create_conflicts', 'create_conflicts_holder_is_file', 'create_conflicts_holder_is_link', 'release_by_nonowner', 'release_by_owner', 'gc_mixed', 'rule_gc_dead_owner_site_chain',
    'vip_exhausted_raises', 'vip_alloc_after_exhaustion',
    'failpoints_fired', 'nested_ops', 'interleaved_gc', 'interleaved_create_ok',
    'netsvc_restarts_with_entries', 'netsvc_repeated_request_same_ip', 'netsvc_synchronize_reclaimed',
    'netsvc_exhausted_refused', 'netsvc_ip_released',
    'contend_runs', 'contend_entries_held_by_several_owners', 'contend_foreign_releases', 'contend_creates_refused',
]}

KINDS = ['vip'] * 26 + ['rule'] * 24 + ['spec'] * 22 + ['netsvc'] * 14 + ['contend'] * 14


def run(ctx):
    sampled = set()

    def want_sample(kind):
        # the runner keeps the first two samples of a shard and three per run: vary the kind with the shard
        if sampled or KINDS[(ctx.shard * 23) % len(KINDS)] != kind:
            return False
        sampled.add(kind)
        return True

    osproxy.install()
    try:
        for idx, rng in ctx.cases():
            kind = rng.choice(KINDS)
            ctx.count('cases_' + kind)
            if kind == 'contend':
                desc, nontrivial = contend.run(ctx, rng, ctx.tier)
                ctx.done(case_desc=dict(kind=kind, plan=desc), nontrivial=nontrivial,
                         sample=dict(kind=kind, plan=desc) if nontrivial and want_sample(kind) else None)
            elif kind == 'netsvc':
                case = netsvc.NetSvcCase(ctx, rng, ctx.tier)
                try:
                    case.open()
                    case.run(rng.randint(40, 120 if ctx.tier == 'quick' else 220))
                finally:
                    case.close()
                ctx.done(case_desc=dict(kind=kind, net=case.desc(), ops=case.log), nontrivial=case.nontrivial(),
                         sample=(dict(kind=kind, net=case.desc(), first_steps=case.log[:30])
                                 if case.nontrivial() and want_sample(kind) else None))
            else:
                eng = seqdb.Engine(ctx, rng, kind, ctx.tier, ctx.case_rng(idx, 'fp'), with_fp=rng.random() < 0.5)
                try:
                    eng.run(rng.randint(25, 70 if ctx.tier == 'quick' else 140))
                finally:
                    eng.close()
                ctx.done(case_desc=dict(kind=kind, db=eng.ad.desc(), ops=eng.log), nontrivial=eng.nontrivial(),
                         sample=(dict(kind=kind, db=eng.ad.desc(), first_ops=eng.log[:25])
                                 if eng.nontrivial() and 'interleaved' in eng.flags and want_sample(kind) else None))
    finally:
        osproxy.uninstall()
