"""C16 - what a container start registers on the host is removed when it finishes."""
import random
import socket

from ..runtime_net import gen, oracle
from ..runtime_net.host import Host, Container
from ..runtime_net.kernel import HarnessError

LEVEL = 'exploration'
RULE = ('One case = one host (real LinuxAppEnvironment / RuleMgr / EndpointsMgr / network service client on a temp root, '
        'IP sets created by the real iptables.ipsets_ensure_exist on a kernel model, foreign rule files / endpoint specs / '
        'set entries of other containers pre-seeded, among them an older generation of an instance of the history) and a '
        'random history over 2-4 containers: manifests drawn inside etc/schema/app.json (0-5 [thorough 0-8] tcp/udp endpoints, '
        'type infra, port 0, duplicate ports/names, ephemeral tcp/udp ports, passthrough host names and literals with aliases, in 30% of the lists an IPv4 literal with zero-padded octets, '
        'vring on/off, shared or private network, shared_ip, all four environments), written as event files and normalised by '
        'the real appcfg.configure.load_runtime_manifest (manifest.load + LinuxRuntime.manifest); in 60% of the cases two '
        'containers carry the SAME instance name with different unique ids. Operations interleave randomly: start (network '
        'request, real allocate_network_ports on a loopback address, real save_app, real _run._unshare_network; 15% are cut by a '
        'process kill, a failing ipset call or one of the four resource services (cgroup, localdisk, network, presence - the last is asked when the private network is set up already) not answering in time; a start that ends with an exception leaves data/aborted with the reason `treadmill sproc run` records), finish (real _finish.finish reading state.json back, or load_app_safe + '
        '_cleanup_network directly; 45% of the containers first get one or two finish attempts that are interrupted - a kill at '
        'a boundary step, a failing ipset / conntrack call, the open(2) of state.json or of the reply.yml of the network request failing once with a transient error (ENFILE / EIO; the attempt counts as failed when it ends with an exception and is run again as the cleanup supervisor does, an attempt that RETURNS is judged as a completed finish), a second cleanup worker finishing the same container at the same moment and getting ahead of this one inside ResourceServiceClient.delete of one of the four services (its real delete runs between the removal of the request link and the renaming of the request directory by this worker), or a kill right after the network request link was removed, which '
        'lets the network service hand the VIP (lowest free address, as VipMgr does) to the next container - while other '
        'containers start and finish in between, then the complete run - 15% of these while the restarted network service re-processes that very request (the real ResourceService._on_created around the daemon stand-in; the finish runs inside on_create_request); followed by 0-2 immediate repeats), and late repeats of '
        'the finish of already finished containers (after their VIP has been handed to a newer container). Oracle (snapshot arithmetic over rules/, endpoints/ and the IP-set model, '
        'written from the statement): D(A) = snapshot after A\'s start minus snapshot before it; after a completed finish of A '
        'the snapshot equals the one before that finish minus exactly D(A) (nothing added, nothing outside D(A) removed, nothing '
        'of D(A) left); an interrupted finish removes nothing outside D(A); a repeated finish changes nothing; after all finishes '
        'the snapshot equals the initial one. Also: recorded real/ephemeral ports lie in the range of the environment class and '
        'are distinct among live containers; every rule file name parses back (RuleMgr.get_rule) to a rule that formats to the '
        'same name. Non-trivial: at least one private-network container finished while another private-network container was '
        'live, and the starts of the case registered rule files, endpoint specs and set entries; distinct by (manifests, names, '
        'operations, foreign entries).')
ASSUMPTIONS = [
    '1 container in 8 has the linux runtime\'s standard services (sshd service, ssh infra endpoint) stripped after load, so that manifests without any infra endpoint are driven too',
    'treadmill.subproc.invoke/check_call/check_output replaced by a kernel-state model: ipset (named typed sets, -exist '
    'semantics, restore), conntrack -D (return code 0 or 1 at random), iptables/ip logged only; subproc.resolve returns fixed paths',
    'treadmill.newnet.create_newnet replaced by a recorder (would unshare the network namespace)',
    'the network service daemon is played by the harness: it answers each request link with a distinct VIP (lowest free of a '
    '4-address pool, so addresses are reused after a finish), veth, gateway and the host address; the client side '
    '(ResourceServiceClient.put/wait/get/delete, ResourceService.clt_new_request/clt_del_request) is the repository\'s code',
    'plugin_manager.load/load_all replaced (no entry points in the sandbox): runtime linux -> LinuxRuntime, firewall plugin '
    'absent (KeyError) or a recording no-op plugin, no app hooks',
    'socket.gethostbyname replaced by a fixed table that is the same at start and at finish (the source carries a FIXME about '
    'resolver instability; that is environmental, not a manifest); numeric input is parsed with inet_aton and answered in '
    'canonical dotted-quad form, as libc\'s gethostbyname does',
    'rrdutils.flush_noexc (unix socket of the rrd daemon) replaced by a no-op',
    'half of the private-network containers are started by the whole treadmill.runtime.linux._run.run(): the cgroup / localdisk / '
    'presence resource services answer at once (the network daemon answers while the container waits for its cgroups), '
    'cgroups.join, image unpack, root volume, mount clean-up, app hooks are no-ops and the final exec ends the call',
    'finishes "via runtime" go through the real LinuxRuntime.finish / RuntimeBase.finish (s6-svok answers "not supervised"; '
    'runtime.linux.runtime._load_config replaced: it uses configparser APIs removed in Python 3.12); a container whose '
    'directory is gone is not finished again (what Cleanup.invoke does)',
    'run() itself is not executed (cgroups, local disk, image unpack, mount namespace, exec of the supervisor): the harness '
    'repeats its network-related statements in the same order around the real functions',
    'the network reply is read with ResourceServiceClient.wait(unique_name, timeout=0) instead of run()\'s wait(unique_name): '
    'same reply, but no inotify watcher (128 instances per user in this sandbox, shared with every other process)',
    'shared-network containers: run() would wait for a network reply nobody writes; the harness supplies the host address',
    'ports are bound with real sockets on 127.0.0.<shard+1>; the global random module is seeded per case',
    'cut points of injected kills: entry of RuleMgr.create_rule/unlink_rule, EndpointsMgr.create_spec/unlink_spec/unlink_all '
    '(signature-transparent wrappers), every subprocess call, create_newnet, return of ResourceService.clt_del_request of the '
    'network service (i.e. between the removal of the request link and the renaming of the request directory)',
    'an unresolvable passthrough host (4% of the passthrough lists) is unresolvable at start and at finish alike',
    'the containers that meet a silent resource service or a second cleanup worker, and 1 in 5 of the others, make their cgroup / '
    'localdisk / presence requests with the real ResourceServiceClient (request directory + link in the service directory); '
    'nobody answers those requests, run() is given the replies by the harness',
    'the network daemon stand-in sweeps request links whose directory is gone (ResourceService._check_requests)',
    'an item of D(A) that an unfinished other container registered as well (it got the VIP A released, after an earlier attempt of '
    'the finish of A had removed the entries of A) is not counted as left by A',
]
BUDGET = {'quick': (110, 30.0), 'thorough': (1500, 260.0)}
HASHSEEDS = [0, 1, 2, 3]
REQUIRED_REACH = {'*': [
    'starts_complete', 'finishes_checked', 'finish_with_live_peer', 'finish_with_live_same_instance_peer',
    'finish_via_finish', 'finish_via_cleanup_network', 'repeat_finish_checked', 'late_repeat_finish_checked',
    'interrupted_finish_attempts', 'resumed_finish_checked', 'aborted_start_then_finish', 'final_state_checked',
    'foreign_items_seeded', 'vip_reused', 'finish_killed_after_vip_release',
    'resumed_finish_while_vip_belongs_to_newer_container',
    'delta_rule_dnat_endpoint_tcp', 'delta_rule_dnat_endpoint_udp', 'delta_rule_snat_endpoint_tcp',
    'delta_rule_snat_endpoint_udp', 'delta_rule_dnat_ephemeral_tcp', 'delta_rule_dnat_ephemeral_udp',
    'delta_rule_passthrough', 'delta_endpoint_spec', 'delta_ipset_vring', 'delta_ipset_infra_endpoint_tcp',
    'delta_ipset_infra_endpoint_udp', 'delta_ipset_infra_ephemeral_tcp', 'delta_ipset_infra_ephemeral_udp',
    'manifest_port0_endpoint', 'manifest_infra_endpoint', 'manifest_shared_network', 'manifest_vring',
    'finish_checked_zero_padded_passthrough_literal', 'finish_reply_read_fault_injected',
    'finish_returned_beside_second_worker', 'finish_second_worker_ahead_at_localdisk',
    'start_aborted_timeout_presence', 'finish_checked_after_timeout_abort_with_network_setup',
]}

# probability that a passthrough list names a host that does not resolve (start aborts, finish must still clean up)
P_UNRESOLVABLE = 0.04

PROD = (32768, 40959)
NONPROD = (40960, 49151)


class _CaseEnd(Exception):
    """A driven operation raised: the case ends (DESIGN 1.6)."""


def _items(items, n=6):
    return sorted([list(i) for i in items])[:n]


def _relation(item, c, containers, initial):
    """Whose entry did the finish of c remove?  (provenance recorded by the harness)"""
    if item in initial:
        return 'pre-existing-entry'
    for o in containers:
        if o is not c and item in o.delta:
            if c.vip_released_by_interrupted_finish and o.vip is not None and o.vip == c.vip:
                # c's earlier, killed finish had already released its VIP; o was given that address since
                return 'vip-successor'
            return 'same-instance-other-uniqueid' if o.name == c.name else 'other-container'
    return 'unowned'


def _check_ports(ctx, c, containers, case):
    state = c.state
    lo, hi = PROD if state['environment'] in ('uat', 'prod') else NONPROD
    mine = {'tcp': [], 'udp': []}
    for ep in state['endpoints']:
        mine[ep['proto']].append(ep['real_port'])
        if ep['port'] == ep['real_port']:
            ctx.count('port_equal_inside_outside')
    for proto in ('tcp', 'udp'):
        mine[proto].extend(state['ephemeral_ports'][proto])
    for proto, ports in mine.items():
        for p in ports:
            if not lo <= p <= hi:
                ctx.violation('port-outside-range:%s' % ('prod' if lo == PROD[0] else 'nonprod'),
                              'port %d of a %s container outside %d-%d' % (p, state['environment'], lo, hi),
                              witness=dict(container=c.idx, proto=proto, port=p), case=case)
        if len(set(ports)) != len(ports):
            ctx.violation('port-duplicate:same-container', 'container %d holds a %s port twice' % (c.idx, proto),
                          witness=dict(container=c.idx, ports=sorted(ports)), case=case)
        for o in containers:
            # live = still holding its sockets (a container whose finish has begun has released its ports)
            if o is c or o.stage != 'started' or not o.sockets or o.state is None or o.shared or c.shared:
                continue
            theirs = [ep['real_port'] for ep in o.state['endpoints'] if ep['proto'] == proto]
            theirs += o.state['ephemeral_ports'][proto]
            both = set(theirs) & set(ports)
            if both:
                ctx.violation('port-duplicate:two-live-containers',
                              '%s ports %s recorded for two live containers' % (proto, sorted(both)),
                              witness=dict(containers=[c.idx, o.idx], ports=sorted(both)), case=case)
    ctx.count('port_checks')


def _padded_literals(manifest):
    """Passthrough entries that are IPv4 literals not written in canonical dotted-quad form."""
    out = []
    for h in (manifest or {}).get('passthrough', []) or []:
        try:
            if h.count('.') == 3 and socket.inet_ntoa(socket.inet_aton(h)) != h:
                out.append(h)
        except OSError:
            pass
    return out


def _check_rule_names(ctx, delta, case):
    from treadmill import rulefile
    for kind, name, _value in delta:
        if kind != 'rule':
            continue
        parsed = rulefile.RuleMgr.get_rule(name)
        back = None
        if parsed is not None:
            back = rulefile.RuleMgr._filenameify(parsed[0], parsed[1])
        ctx.count('rule_names_roundtripped')
        if back != name:
            ctx.violation('rule-name-roundtrip', 'rule file %r parses back to %r' % (name, back),
                          witness=dict(name=name, back=back), case=case)


def _run_case(ctx, idx, rng, tier):
    names, specs, ops = gen.gen_history(rng, tier, P_UNRESOLVABLE)
    ext_ip = '127.0.0.%d' % (ctx.shard + 1)
    foreign = gen.gen_foreign(rng, ext_ip, names)
    pool = gen.vip_pool(rng)
    rc_rng = random.Random(rng.getrandbits(64))
    fw_plugin = rng.random() < 0.4
    py_seed = rng.getrandbits(64)
    case = dict(names=names, manifests=specs, ops=ops, foreign=[list(f) for f in foreign],
                vip_pool=pool, firewall_plugin=fw_plugin)
    flags = dict(peer=False, kinds=set())
    containers = [Container(i, names[i], specs[i]) for i in range(len(names))]
    for c in containers:
        # 1 container in 8 runs without the linux runtime's standard services (no sshd service, no ssh infra
        # endpoint): _unshare_network/_cleanup_network must be symmetric for manifests without an infra endpoint too
        c.strip_linux_services = rng.random() < 0.125
        # half of the private-network containers are started by the whole _run.run() (node boundaries stubbed)
        c.via_run = rng.random() < 0.5
    for c in containers:
        # the containers that meet a silent resource service or a second cleanup worker, and 1 in 5 of the others, make
        # their cgroup / local-disk / presence requests with the real client (files cost ~1 ms each on this /tmp)
        c.real_requests = rng.random() < 0.2 or any(
            o['c'] == c.idx and o.get('cut') and o['cut'][0] in ('timeout', 'other_worker') for o in ops)
    saved_random = random.getstate()
    random.seed(py_seed)
    host = Host(ext_ip, gen.RESOLVER, pool, conntrack_rc=lambda: rc_rng.choice([0, 1]), firewall_plugin=fw_plugin)
    try:
        host.install()
        host.seed_foreign(foreign)
        ctx.count('foreign_items_seeded', sum(1 for f in foreign if f[0] != 'appdir'))
        initial = host.snapshot()
        try:
            for op in ops:
                _run_op(ctx, host, containers, op, initial, case, flags)
            final = host.snapshot()
            ctx.count('final_state_checked')
            if final != initial and not ctx._c16_case_violated:
                for item in final - initial:
                    ctx.violation('final-state-differs:left:%s' % oracle.label(item, None),
                                  'after all finishes the host holds entries it did not hold initially',
                                  witness=dict(left=_items(final - initial)), case=case)
                    break
                for item in initial - final:
                    ctx.violation('final-state-differs:lost:%s' % oracle.label(item, None),
                                  'after all finishes the host misses entries it held initially',
                                  witness=dict(lost=_items(initial - final)), case=case)
                    break
        except _CaseEnd:
            pass
    finally:
        for c in containers:
            c.close_sockets()
        host.close()
        random.setstate(saved_random)
    kinds = flags['kinds']
    nontrivial = flags['peer'] and {'rule', 'spec', 'ipset'} <= kinds
    return case, nontrivial


def _violation(ctx, mech, msg, witness, case):
    ctx._c16_case_violated = True
    ctx.violation(mech, msg, witness=witness, case=case)


def _driven(ctx, fn, where, case, expected=(), witness=None):
    """Run a driven operation; an escaping exception is a violation and ends the case."""
    try:
        return fn()
    except HarnessError:
        raise
    except expected:
        raise
    except Exception as err:      # noqa
        import traceback as _tb
        w = dict(error=repr(err), traceback=_tb.format_exc()[-1500:])
        if witness is not None:
            w.update(witness())
        _violation(ctx, 'exception:%s@%s' % (type(err).__name__, where), '%s raised %r' % (where, err), w, case)
        raise _CaseEnd()


def _finish_witness(host, c):
    def witness():
        left = c.delta & host.snapshot()
        return dict(container=c.idx, name=c.name, stage_before_finish=c.stage,
                    passthrough=(c.manifest or {}).get('passthrough'),
                    hosts_that_do_not_resolve=[h for h in (c.manifest or {}).get('passthrough', [])
                                               if h not in host.resolver and not h[0].isdigit()],
                    registered_by_its_start_and_still_on_the_host=_items(left, 12), count_left=len(left))
    return witness


def _run_op(ctx, host, containers, op, initial, case, flags):
    c = containers[op['c']]
    if op['op'] == 'start':
        _driven(ctx, lambda: host.load(c), 'load_runtime_manifest', case)
        m = c.manifest
        if any(e['port'] == 0 for e in m['endpoints']):
            ctx.count('manifest_port0_endpoint')
        if any(e.get('type') == 'infra' and e['name'] != 'ssh' for e in m['endpoints']):
            ctx.count('manifest_infra_endpoint')
        if m['shared_network']:
            ctx.count('manifest_shared_network')
        if 'vring' in c.spec:
            ctx.count('manifest_vring')
        if m['passthrough']:
            ctx.count('manifest_passthrough')
        if _padded_literals(m):
            ctx.count('manifest_passthrough_zero_padded_literal')
        if c.unresolvable:
            ctx.count('manifest_unresolvable_passthrough_host')
        cut = None
        if op['cut'] is not None and not m['shared_network'] and op['cut'][0] == 'timeout':
            cut = ('timeout', op['cut'][1])
        elif op['cut'] is not None and not m['shared_network']:
            n = gen.estimate_steps(m, len(m['passthrough']))
            cut = (op['cut'][0], 1 + int(op['cut'][1] * (n if op['cut'][0] == 'kill' else max(1, n // 3))))
        before = host.snapshot()
        vips_before = {v for _u, v in host.vip_history}
        try:
            status = _driven(ctx, lambda: host.start(c, cut), 'start', case,
                             expected=(socket.gaierror,) if c.unresolvable else ())
        except socket.gaierror:
            # a passthrough host that does not resolve: the start aborts after having registered rules
            c.close_sockets()
            c.stage = 'aborted'
            status = 'interrupted'
            ctx.count('start_aborted_unresolvable_host')
        after = host.snapshot()
        c.delta = after - before
        if before - after:
            item = sorted(before - after)[0]
            _violation(ctx, 'start-removed-entry:%s' % oracle.label(item, c.state),
                       'the start of a container removed host entries', dict(removed=_items(before - after)), case)
        if c.vip is not None and c.vip in vips_before:
            ctx.count('vip_reused')
        if cut is not None and cut[0] == 'timeout' and status == 'interrupted':
            ctx.count('start_aborted_timeout_%s' % cut[1])
            if c.delta:
                ctx.count('start_aborted_timeout_after_network_setup')
                c.timed_out_after_setup = True
        if status == 'complete':
            ctx.count('starts_complete')
            if not c.shared:
                ctx.count('starts_private_network')
                _check_ports(ctx, c, containers, case)
        else:
            ctx.count('starts_interrupted')
        for item in c.delta:
            ctx.count(oracle.reach_key(item, c.state))
            flags['kinds'].add(item[0])
        _check_rule_names(ctx, c.delta, case)
        return

    if op['op'] == 'finish':
        if c.stage == 'finished':
            # an earlier attempt that was meant to be interrupted ran to its end: this one is a late repeat
            _repeat(ctx, host, c, op['via'], case, 'late_repeat_finish_checked', 'late')
            return
        aborted = c.stage == 'aborted'
        live_peers = [o for o in containers if o is not c and o.stage in ('started', 'aborted')
                      and not o.shared and o.delta]
        cut = None
        if op['cut'] is not None:
            kind, arg = op['cut']
            if kind in ('kill_at', 'ioerror', 'ioerror_reply', 'other_worker'):
                cut = (kind, arg)
            else:
                n = gen.estimate_steps(c.manifest, len(c.manifest['passthrough']))
                cut = (kind, 1 + int(arg * (n if kind == 'kill' else max(1, n // 3))))
        before = host.snapshot()
        vip_held = c.unique in host.vips
        if op.get('during_replay') and cut is None and not c.shared and c.unique in host.vips:
            def replayed_finish():
                res = host.replay_network_requests(during=(c, lambda: host.finish(c, op['via'], None)))
                if 'during' not in res:
                    return host.finish(c, op['via'], None)       # its request was gone already: an ordinary finish
                ctx.count('finish_while_network_service_replays_the_request')
                if res['died']:
                    ctx.count('network_service_died_on_vanished_request')
                return res['during']
            status = _driven(ctx, replayed_finish, 'finish', case, witness=_finish_witness(host, c))
        else:
            status = _driven(ctx, lambda: host.finish(c, op['via'], cut), 'finish', case,
                             witness=_finish_witness(host, c))
        after = host.snapshot()
        if host.io_faults_injected.pop('reply.yml', 0):
            ctx.count('finish_reply_read_fault_injected')
            if status != 'interrupted':
                ctx.count('finish_returned_after_reply_read_fault')
        host.io_faults_injected.clear()
        complete = status != 'interrupted'
        if host.second_worker_fired:
            ctx.count('finish_second_worker_ahead_at_%s' % host.second_worker_fired)
            if complete:
                ctx.count('finish_returned_beside_second_worker')
        suffix = ''
        if not complete:
            suffix = '@interrupted-finish'
            if c.vip_released_by_interrupted_finish:
                suffix = '@interrupted-finish-after-vip-release'
            ctx.count('interrupted_finish_attempts')
            ctx.count('interrupted_finish_by_%s' % cut[0])
            if vip_held and c.unique not in host.vips:
                c.vip_released_by_interrupted_finish = True
                ctx.count('finish_killed_after_vip_release')
        elif c.interrupted_finishes:
            suffix = '@resumed-finish'
            if c.vip_released_by_interrupted_finish:
                suffix = '@resumed-finish-after-vip-release'
                if any(o is not c and o.vip == c.vip and o.stage in ('started', 'aborted') for o in containers):
                    ctx.count('resumed_finish_while_vip_belongs_to_newer_container')
        elif aborted:
            suffix = '@after-aborted-start'
        if host.second_worker_fired and complete:
            suffix += '@second-cleanup-worker-ahead'
        _judge_finish(ctx, c, containers, initial, before, after, complete, suffix, case)
        if not c.shared and live_peers:
            flags['peer'] = True
        if not complete:
            c.interrupted_finishes += 1
            return
        ctx.count('finishes_checked')
        ctx.count('finish_via_%s' % op['via'])
        if _padded_literals(c.manifest) and any(oracle.label(i, None) == 'rule-passthrough' for i in c.delta):
            ctx.count('finish_checked_zero_padded_passthrough_literal')
        if c.interrupted_finishes:
            ctx.count('resumed_finish_checked')
        if aborted:
            ctx.count('aborted_start_then_finish')
            if getattr(c, 'timed_out_after_setup', False) and op['via'] != 'cleanup_network':
                ctx.count('finish_checked_after_timeout_abort_with_network_setup')
        if c.shared:
            ctx.count('finish_shared_network')
        elif live_peers:
            ctx.count('finish_with_live_peer')
            if any(o.name == c.name for o in live_peers):
                ctx.count('finish_with_live_same_instance_peer')
        c.stage = 'finished'
        for _ in range(op['repeat']):
            _repeat(ctx, host, c, op['via'], case, 'repeat_finish_checked', 'immediate')
        return

    if op['op'] == 'refinish':
        _repeat(ctx, host, c, op['via'], case, 'late_repeat_finish_checked', 'late')
        return
    raise HarnessError('unknown op %r' % (op,))


def _judge_finish(ctx, c, containers, initial, before, after, complete, suffix, case):
    added, foreign, leaked = oracle.evaluate_finish(before, after, c.delta, complete)
    for item in sorted(added)[:1]:
        _violation(ctx, 'finish-added-entry:%s%s' % (oracle.label(item, c.state), suffix),
                   'the finish of container %d added host entries' % c.idx,
                   dict(container=c.idx, added=_items(added)), case)
    seen = set()
    for item in sorted(foreign):
        rel = _relation(item, c, containers, initial)
        lab = oracle.label(item, None)
        if rel == 'vip-successor':
            lab = lab.split(':')[0]
        mech = 'removed-foreign-entry:%s:%s%s' % (lab, rel, suffix)
        if mech in seen:
            continue
        seen.add(mech)
        _violation(ctx, mech, 'the finish of container %d (%s) removed an entry it had not registered' % (c.idx, c.name),
                   dict(container=c.idx, removed=_items(foreign), registered_by_its_start=_items(c.delta, 40),
                        vips={o.idx: (o.vip, o.stage, getattr(o, 'via_run', None)) for o in containers},
                        vip_released_by_interrupted_finish=c.vip_released_by_interrupted_finish), case)
    # an item of D(c) that an unfinished other container registered as well (its start found the item absent, i.e. c's
    # own had been removed by an earlier attempt; the container got c's released VIP) belongs to that container now
    mine_still = set()
    for item in leaked:
        if any(o is not c and o.stage in ('started', 'aborted') and item in o.delta for o in containers):
            ctx.count('item_of_finished_container_held_by_live_successor')
        else:
            mine_still.add(item)
    leaked = mine_still
    seen = set()
    for item in sorted(leaked):
        mech = 'left-after-finish:%s%s' % (oracle.label(item, c.state), suffix)
        if mech in seen:
            continue
        seen.add(mech)
        _violation(ctx, mech, 'after the finish of container %d entries registered by its start are still on the host' % c.idx,
                   dict(container=c.idx, left=_items(leaked), state=_state_digest(c)), case)


def _state_digest(c):
    s = c.state or {}
    return dict(endpoints=s.get('endpoints'), ephemeral_ports=s.get('ephemeral_ports'), passthrough=s.get('passthrough'),
                vring=s.get('vring'), network=s.get('network'), environment=s.get('environment'))


def _repeat(ctx, host, c, via, case, counter, when):
    before = host.snapshot()
    _driven(ctx, lambda: host.finish(c, via, None), 'finish(repeated)', case, witness=_finish_witness(host, c))
    after = host.snapshot()
    ctx.count(counter)
    if after != before:
        item = sorted((before - after) | (after - before))[0]
        what = 'removed' if item in before else 'added'
        _violation(ctx, 'repeated-finish-changed-host:%s:%s:%s' % (when, what, oracle.label(item, None)),
                   'a repeated finish of container %d changed the host' % c.idx,
                   dict(container=c.idx, removed=_items(before - after), added=_items(after - before)), case)


def run(ctx):
    for idx, rng in ctx.cases():
        ctx._c16_case_violated = False
        case, nontrivial = _run_case(ctx, idx, rng, ctx.tier)
        ctx.done(case_desc=case, nontrivial=nontrivial,
                 sample=case if nontrivial and idx < 3 else None)
