"""Shared pieces of the Cell-level checks C01, C03, C04, C05, C07, C08."""
from ..sched import celldrv, engine

LEVEL = 'exploration'
ASSUMPTIONS = [
    'Cell-level driver mirrors the call sequences of scheduler.loader (add/remove/reload server, load_app, freeze, identity groups)',
    'virtual clock by rebinding time.time (100us tick per read)',
    'renewal is requested the way scheduler_test.test_renew does (app.renew = True before a cycle), one per cycle, on instances that stay placed; the retry flag the cycle sets is cleared by the harness (production never sets renew)',
    'recording wrappers on Cell._find_placements, Bucket.put, Server.put/restore/remove/renew, PlacementFeasibilityTracker (observe only)',
    'every 4th history runs at Master level: real Master/Loader on ZkBackend on the in-memory ZooKeeper fake, events produced with masterapi, server state and reboot time taken from the records the master publishes',
    'generated inputs stay inside etc/schema/*.json (priority/rank 0..100, non-negative demand, adjustment <= rank)',
]

BUDGET = {'quick': (900, 30.0), 'thorough': (5000, 280.0)}


def make_run(props, tweak=None):
    def profile_for(rng):
        pf = celldrv.Profile()
        if rng.random() < 0.3:
            pf.n_ops = (25, 45)
        if tweak:
            tweak(pf, rng)
        return pf

    def run(ctx):
        engine.run_histories(ctx, props, profile_for)
    return run
