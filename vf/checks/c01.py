"""C01 - no oversubscription; one server per instance; views agree; spellings."""
from ._sched_common import LEVEL, ASSUMPTIONS, BUDGET, make_run

RULE = ('seeded random histories (10-45 cell events: instances added/removed/re-prioritised/moved, servers added/'
        'removed/reloaded with new capacity/label/traits, down/up/frozen, groups, allocation updates, clock steps '
        'to and around retention/lease deadlines) on topologies of depth 0-2 with independent per-dimension '
        'capacities and randomly spelled quantities (1G/1024M/1048576K, 100%/100); oracle after every cycle: '
        'leaf recount of demand <= asked capacity, free == capacity - sum, instance<->server views agree, parsed '
        'quantities equal asked numbers. A history is non-trivial when some cycle left a server >50% used in one '
        'dimension and <50% in another or contained an eviction/restore/reload; distinct by hash of its op kinds.')
REQUIRED_REACH = {'*': ['evictions', 'put_restore', 'reload_restore_ok', 'spelling_server']}
run = make_run(['C01'])
