"""Monitor runtime: per-shard context, sharded runner, three-valued verdict,
evidence writer, known-findings matcher, replay files (DESIGN 1.6)."""
import collections
import hashlib
import importlib
import json
import os
import random
import subprocess
import sys
import tempfile
import time
import traceback

from . import env

VERIF = env.VERIF
NSHARDS = int(os.environ.get('VERIF_SHARDS', str(min(16, os.cpu_count() or 4))))

# property id -> check module (vf.checks.<name>)
MODULES = {}


def register(pid, modname):
    MODULES[pid] = modname


for _i in range(1, 21):
    register('C%02d' % _i, 'vf.checks.c%02d' % _i)


def canon(obj):
    """Canonical JSON text of a case description (for distinctness hashing)."""
    return json.dumps(obj, sort_keys=True, default=_default)


def _default(o):
    try:
        import numpy as np
        if isinstance(o, np.ndarray):
            return o.tolist()
        if isinstance(o, (np.integer,)):
            return int(o)
        if isinstance(o, (np.floating,)):
            return float(o)
    except ImportError:
        pass
    if isinstance(o, (set, frozenset)):
        return sorted(o, key=repr)
    if isinstance(o, bytes):
        return o.decode('latin1')
    if isinstance(o, tuple):
        return list(o)
    return repr(o)


def digest(obj):
    return hashlib.sha1(canon(obj).encode()).hexdigest()[:16]


class Ctx:
    """What a check module sees while running one shard."""

    def __init__(self, pid, tier, seed, shard, nshards, budget_cases, budget_s,
                 only_case=None):
        self.pid = pid
        self.tier = tier
        self.seed = seed
        self.shard = shard
        self.nshards = nshards
        self.budget_cases = budget_cases
        self.budget_s = budget_s
        self.only_case = only_case
        self.t0 = time.perf_counter()
        self.evaluations = 0
        self.case_index = -1
        self.counters = collections.Counter()
        self.nontrivial = set()
        self.samples = []
        self.violations = []
        self.notes = []
        self.hashseed = os.environ.get('PYTHONHASHSEED', '')

    # -- case iteration ---------------------------------------------------
    def cases(self):
        """Yield (index, rng) for each case of this shard, within budget."""
        if self.only_case is not None:
            self.case_index = self.only_case
            yield self.only_case, self.case_rng(self.only_case)
            return
        i = 0
        while i < self.budget_cases and self.elapsed() < self.budget_s:
            self.case_index = i
            yield i, self.case_rng(i)
            i += 1
        if i < self.budget_cases:
            self.counters['_budget_time_cut'] += 1

    def case_rng(self, index, salt=''):
        return random.Random('%s:%d:%d:%d:%s' % (self.pid_family(), self.seed,
                                                  self.shard, index, salt))

    def pid_family(self):
        return self.pid

    def elapsed(self):
        return time.perf_counter() - self.t0

    # -- reporting --------------------------------------------------------
    def count(self, name, n=1):
        self.counters[name] += n

    def done(self, case_desc=None, nontrivial=False, sample=None, evals=1):
        """One case (or `evals` oracle evaluations) finished."""
        self.evaluations += evals
        if nontrivial and case_desc is not None:
            self.nontrivial.add(digest(case_desc))
        if sample is not None and len(self.samples) < 2:
            self.samples.append(sample)

    def nontrivial_key(self, key):
        self.nontrivial.add(digest(key))

    def violation(self, mechanism, message, witness=None, case=None):
        self.counters['_violations'] += 1
        # keep the first few witnesses per mechanism
        n = sum(1 for v in self.violations if v['mechanism'] == mechanism)
        if n >= 3:
            for v in self.violations:
                if v['mechanism'] == mechanism:
                    v['more'] = v.get('more', 0) + 1
                    break
            return
        self.violations.append({
            'mechanism': mechanism,
            'message': message,
            'witness': witness,
            'case': case,
            'shard': self.shard,
            'case_index': self.case_index,
            'hashseed': self.hashseed,
        })

    def result(self):
        return {
            'shard': self.shard,
            'evaluations': self.evaluations,
            'nontrivial': sorted(self.nontrivial),
            'counters': dict(self.counters),
            'samples': self.samples,
            'violations': self.violations,
            'notes': self.notes,
            'wall_s': self.elapsed(),
        }


def shard_main(argv):
    """Entry point of one shard process."""
    pid, tier, seed, shard, nshards, out = argv[:6]
    only = int(argv[6]) if len(argv) > 6 and argv[6] != '-' else None
    seed, shard, nshards = int(seed), int(shard), int(nshards)
    env.bootstrap()
    mod = importlib.import_module(MODULES[pid])
    cases, secs = mod.BUDGET[tier]
    ctx = Ctx(pid, tier, seed, shard, nshards, cases, secs, only_case=only)
    status = 'ok'
    try:
        mod.run(ctx)
    except BaseException:  # harness error: inconclusive, never a verdict
        status = 'harness-error'
        ctx.notes.append(traceback.format_exc())
    res = ctx.result()
    res['status'] = status
    with open(out, 'w') as f:
        json.dump(res, f, default=_default)
    return 0


# ---------------------------------------------------------------------------

def load_known():
    path = os.path.join(VERIF, 'known_findings.json')
    if not os.path.exists(path):
        return []
    with open(path) as f:
        return json.load(f).get('findings', [])


def match_known(known, pid, mechanism):
    import re
    for k in known:
        if k.get('property') != pid or k.get('status', 'known') != 'known':
            continue
        if k['mechanism'] == mechanism or re.fullmatch(k['mechanism'], mechanism):
            return k
    return None


def _killpg(p):
    import signal
    try:
        os.killpg(p.pid, signal.SIGKILL)
    except (ProcessLookupError, PermissionError):
        pass


def run_check(pid, tier, seed, replay=None):
    env.bootstrap()
    mod = importlib.import_module(MODULES[pid])
    t0 = time.perf_counter()
    nshards = getattr(mod, 'NSHARDS', NSHARDS)
    cases, secs = mod.BUDGET[tier]
    hashseeds = getattr(mod, 'HASHSEEDS', None)
    tmpdir = tempfile.mkdtemp(prefix='vf-%s-' % pid)
    procs = []
    shards = range(nshards)
    only = '-'
    if replay is not None:
        shards = [replay['shard']]
        only = str(replay['case_index'])
        seed = replay['seed']
        tier = replay['tier']
    for sh in shards:
        out = os.path.join(tmpdir, 'shard-%d.json' % sh)
        e = dict(os.environ)
        if replay is not None and replay.get('hashseed'):
            e['PYTHONHASHSEED'] = str(replay['hashseed'])
        elif hashseeds:
            e['PYTHONHASHSEED'] = str(hashseeds[(sh + seed) % len(hashseeds)])
        else:
            e['PYTHONHASHSEED'] = '0'
        e['PYTHONDONTWRITEBYTECODE'] = '1'
        shard_env = getattr(mod, 'SHARD_ENV', None)
        if shard_env is not None:
            e.update(shard_env(sh, seed))       # a function of (shard, seed): a replay gets the same environment
        e['PYTHONPATH'] = VERIF + os.pathsep + e.get('PYTHONPATH', '')
        p = subprocess.Popen(
            [sys.executable, '-m', 'vf.shard', pid, tier, str(seed), str(sh),
             str(nshards), out, only],
            cwd=VERIF, env=e, stdout=subprocess.DEVNULL, start_new_session=True,
            stderr=open(os.path.join(tmpdir, 'shard-%d.err' % sh), 'w'))
        procs.append((sh, p, out))
    results = []
    inconclusive = []
    watchdog = secs * 3 + 120
    for sh, p, out in procs:
        left = max(1.0, watchdog - (time.perf_counter() - t0))
        try:
            p.wait(timeout=left)
        except subprocess.TimeoutExpired:
            _killpg(p)
            p.wait()
            inconclusive.append('shard %d: watchdog fired after %.0fs' % (sh, watchdog))
            continue
        _killpg(p)      # reap anything a shard may have left behind (forked children)
        if not os.path.exists(out):
            err = open(os.path.join(tmpdir, 'shard-%d.err' % sh)).read()[-1500:]
            inconclusive.append('shard %d: died rc=%s: %s' % (sh, p.returncode, err))
            continue
        with open(out) as f:
            r = json.load(f)
        if r['status'] != 'ok':
            inconclusive.append('shard %d: %s: %s' % (sh, r['status'], ' | '.join(r['notes'])[-1500:]))
        results.append(r)
    import shutil
    shutil.rmtree(tmpdir, ignore_errors=True)

    # merge
    evaluations = sum(r['evaluations'] for r in results)
    nontrivial = set()
    counters = collections.Counter()
    samples = []
    violations = []
    for r in results:
        nontrivial.update(r['nontrivial'])
        counters.update(r['counters'])
        for s in r['samples']:
            if len(samples) < 3:
                samples.append(s)
        violations.extend(r['violations'])

    # reach requirements
    for name in getattr(mod, 'REQUIRED_REACH', {}).get(tier, getattr(mod, 'REQUIRED_REACH', {}).get('*', [])) if replay is None else []:
        if counters.get(name, 0) <= 0:
            inconclusive.append('deciding counter %s is 0' % name)
    if replay is None and evaluations == 0:
        inconclusive.append('no evaluations')
    if replay is None and len(nontrivial) < 2:
        inconclusive.append('fewer than 2 distinct non-trivial cases')

    known = load_known()
    unknown = []
    known_hits = collections.OrderedDict()
    for v in violations:
        k = match_known(known, pid, v['mechanism'])
        if k is not None:
            known_hits.setdefault(k['mechanism'], (k, []))[1].append(v)
        else:
            unknown.append(v)

    wall = time.perf_counter() - t0
    if replay is None:
        evidence = {
            'property_id': pid,
            'tier': tier,
            'seed': seed,
            'level': mod.LEVEL,
            'coverage': {
                'evaluations': evaluations,
                'distinct_nontrivial': len(nontrivial),
                'rule': mod.RULE,
                'samples': samples,
                'reach': {k: v for k, v in sorted(counters.items())},
                'shards': len(results),
                'known_findings_observed': {m: len(vs) for m, (k, vs) in known_hits.items()},
                'inconclusive': inconclusive,
            },
            'assumptions': list(env.SHIMS) + list(getattr(mod, 'ASSUMPTIONS', [])),
            'wall_s': round(wall, 2),
            'violations': len(unknown),
        }
        evdir = os.environ.get('VERIF_EVIDENCE_DIR') or os.path.join(VERIF, 'evidence')
        os.makedirs(evdir, exist_ok=True)
        with open(os.path.join(evdir, '%s.json' % pid), 'w') as f:
            json.dump(evidence, f, indent=1, default=_default)

    print('%s tier=%s seed=%d shards=%d evaluations=%d distinct_nontrivial=%d wall=%.1fs' % (
        pid, tier, seed, len(results), evaluations, len(nontrivial), wall))
    reach = ' '.join('%s=%d' % kv for kv in sorted(counters.items()) if not kv[0].startswith('_'))
    print('reach: ' + reach)
    for m, (k, vs) in known_hits.items():
        print('KNOWN-FINDING: property=%s %s [mechanism=%s, observed %d times this run]' % (
            pid, k.get('what', ''), m, sum(1 + v.get('more', 0) for v in vs)))
    rc = 0
    if unknown:
        rdir = os.environ.get('VERIF_REPLAY_DIR') or os.path.join(VERIF, 'replays')
        os.makedirs(rdir, exist_ok=True)
        if replay is None:
            for fn in os.listdir(rdir):
                if fn.startswith(pid + '-'):
                    os.unlink(os.path.join(rdir, fn))
        seen = collections.Counter()
        n = 0
        for v in unknown:
            seen[v['mechanism']] += 1
            if seen[v['mechanism']] > 2:
                continue
            path = os.path.join(rdir, '%s-%d-%d.json' % (pid, seed, n))
            n += 1
            if replay is None:
                with open(path, 'w') as f:
                    json.dump({'property': pid, 'tier': tier, 'seed': seed,
                               'shard': v['shard'], 'case_index': v['case_index'],
                               'hashseed': v['hashseed'],
                               'mechanism': v['mechanism'], 'message': v['message'],
                               'witness': v['witness'], 'case': v['case']},
                              f, indent=1, default=_default)
            else:
                path = replay['_path']
            print('VIOLATION property=%s replay=%s' % (pid, path))
            print('  mechanism=%s: %s' % (v['mechanism'], v['message']))
        for why in inconclusive:
            print('INCONCLUSIVE property=%s (besides the violations) %s' % (pid, why[-600:]))
        rc = 1
    elif inconclusive:
        for why in inconclusive:
            print('INCONCLUSIVE property=%s %s' % (pid, why))
        rc = 2
    else:
        print('HELD property=%s on what was observed' % pid)
    return rc


def main(argv=None):
    import argparse
    ap = argparse.ArgumentParser()
    ap.add_argument('property')
    ap.add_argument('--tier', default=os.environ.get('VERIF_TIER', 'quick'),
                    choices=['quick', 'thorough'])
    ap.add_argument('--seed', type=int, default=int(os.environ.get('VERIF_SEED', '0')))
    ap.add_argument('--replay')
    a = ap.parse_args(argv)
    replay = None
    if a.replay:
        with open(a.replay) as f:
            replay = json.load(f)
        replay['_path'] = a.replay
    return run_check(a.property, a.tier, a.seed, replay)
