"""Directed histories for C17 (minimal reproductions / self-test of the oracle).

    cd /verif && /venv/bin/python -m vf.zkproto.demo [name ...]

Each demo is a hand-written scenario plus a *script* of scheduler choices
(prefixes of choice labels); the run is the same machinery as the check, with
the script instead of the random picks.  Prints the violations the oracle
reports and the operation history on presence nodes.
"""
import random
import sys


def _container(cid, gen, instance, host, uniq, ports=(), group=None, identity=None):
    name, no = instance.split('#')
    return {'cid': cid, 'gen': gen, 'instance': instance, 'host': host,
            'rsrc_id': '%s-%s-%s' % (name, no, uniq),
            'endpoints': [{'name': n, 'port': p, 'real_port': rp, 'proto': 'tcp'} for n, p, rp in ports],
            'identity_group': group, 'identity': identity}


def _scn(containers, actions, expiries=0, crashes=0):
    acts = []
    for a in actions:
        a = dict(a)
        a.setdefault('deps', [])
        acts.append(a)
    return {'shape': 'demo', 'hosts': [c['host'] for c in containers], 'containers': containers,
            'actions': acts, 'expiries': expiries, 'crashes': crashes, 'tail': 0}


X = 'proid.app#0000000001'
Y = 'proid.app#0000000002'


def restart_replays_old_after_new():
    """DESIGN section 6 lead: u1 (being cleaned up) and u2 (running) of the same
    instance on one host; the service loses its session, the fresh process
    replays u2 then u1; delete(u1) then removes u2's nodes."""
    cs = [_container('c0', 0, X, 'node1', 'aaaaaaaaaaaa1'), _container('c1', 1, X, 'node1', 'aaaaaaaaaaaa2')]
    scn = _scn(cs, [{'id': 'put:c0', 'kind': 'put', 'cid': 'c0'}, {'id': 'put:c1', 'kind': 'put', 'cid': 'c1'},
                    {'id': 'del:c0', 'kind': 'del', 'cid': 'c0'}], expiries=1)
    script = ['act:put:c0', 'req:node1', 'act:put:c1', 'req:node1', 'run:node1:created:c1',
              'expire:node1', 'boot:node1', 'req:node1', 'req:node1', 'run:node1:created', 'act:del:c0',
              'req:node1', 'run:node1:deleted', 'run:node1:deleted']
    return scn, script, 'replay-order'


def identity_handed_on():
    """Instance X held identity 3 on node1; it is handed to instance Y started
    on the same host while X's clean-up is still pending; delete(X) removes the
    identity node that now names Y."""
    cs = [_container('c0', 0, X, 'node1', 'aaaaaaaaaaaa1', group='proid.grp', identity=3),
          _container('c1', 1, Y, 'node1', 'aaaaaaaaaaaa2', group='proid.grp', identity=3)]
    scn = _scn(cs, [{'id': 'put:c0', 'kind': 'put', 'cid': 'c0'}, {'id': 'put:c1', 'kind': 'put', 'cid': 'c1'},
                    {'id': 'del:c0', 'kind': 'del', 'cid': 'c0'}])
    script = ['act:put:c0', 'req:node1', 'run:node1:created:c0', 'act:put:c1', 'req:node1',
              'run:node1:created:c1', 'run:node1:created:c1', 'run:node1:created:c1', 'act:del:c0',
              'req:node1'] + ['run:node1:deleted:c0'] * 5
    return scn, script, None


def delete_after_owner_changed():
    """_safe_delete reads the node (own), an administrator's kill_node removes
    it, the other host's waiting request registers it, _safe_delete deletes."""
    cs = [_container('c0', 0, X, 'node1', 'aaaaaaaaaaaa1'), _container('c1', 1, X, 'node10', 'aaaaaaaaaaaa2')]
    scn = _scn(cs, [{'id': 'put:c0', 'kind': 'put', 'cid': 'c0'}, {'id': 'put:c1', 'kind': 'put', 'cid': 'c1'},
                    {'id': 'del:c0', 'kind': 'del', 'cid': 'c0'},
                    {'id': 'aux0:unreg_running:node1:c0', 'kind': 'unreg_running', 'cid': 'c0', 'host': 'node1'}])
    script = ['act:put:c0', 'req:node1', 'act:put:c1', 'req:node10', 'run:node10:created:c1',
              'run:node10:created:c1', 'act:del:c0', 'req:node1', 'act:aux0', 'watch:node10', 'run:node10:watch',
              'req:node10', 'run:node1:deleted:c0', 'run:node1:deleted:c0']
    return scn, script, None


def set_after_node_deleted():
    """_safe_create finds its own node with other content, the node is removed
    by unregister_endpoints, the update raises NoNodeError: error reply."""
    cs = [_container('c0', 0, X, 'node1', 'aaaaaaaaaaaa1', ports=[('http', 8000, 40001)]),
          _container('c1', 1, X, 'node1', 'aaaaaaaaaaaa2', ports=[('http', 8000, 40002)])]
    scn = _scn(cs, [{'id': 'put:c0', 'kind': 'put', 'cid': 'c0'}, {'id': 'put:c1', 'kind': 'put', 'cid': 'c1'},
                    {'id': 'aux0:unreg_endpoints:node1:c0', 'kind': 'unreg_endpoints', 'cid': 'c0', 'host': 'node1'}])
    script = ['act:put:c0', 'req:node1', 'run:node1:created:c0', 'act:put:c1', 'req:node1',
              'run:node1:created:c1', 'run:node1:created:c1', 'run:node1:created:c1', 'act:aux0',
              'run:node1:created:c1']
    return scn, script, None


def set_after_owner_changed():
    """_safe_create finds its own endpoint node with other content; an
    administrator unregisters the host's nodes, the other host registers the
    instance; the update then overwrites the other host's endpoint."""
    cs = [_container('c0', 0, X, 'node1', 'aaaaaaaaaaaa1', ports=[('http', 8000, 40001)]),
          _container('c1', 1, X, 'node1', 'aaaaaaaaaaaa2', ports=[('http', 8000, 40002)]),
          _container('c2', 2, X, 'node10', 'aaaaaaaaaaaa3', ports=[('http', 8000, 40003)])]
    scn = _scn(cs, [{'id': 'put:c0', 'kind': 'put', 'cid': 'c0'}, {'id': 'put:c1', 'kind': 'put', 'cid': 'c1'},
                    {'id': 'put:c2', 'kind': 'put', 'cid': 'c2'},
                    {'id': 'aux0:unreg_all:node1:c0', 'kind': 'unreg_all', 'cid': 'c0', 'host': 'node1'}])
    script = ['act:put:c0', 'req:node1', 'run:node1:created:c0', 'act:put:c1', 'req:node1',
              'run:node1:created:c1', 'run:node1:created:c1', 'run:node1:created:c1', 'act:aux0',
              'act:put:c2', 'req:node10', 'run:node10:created:c2', 'run:node1:created:c1']
    return scn, script, None


def wakeup_masked_by_own_node():
    """c1 on node10 waits for node1's node; the node goes away, c2 on node10
    registers it before c1's DataWatch re-reads: the callback sees a live node
    of its own session and no event, c1 is never retried."""
    cs = [_container('c0', 0, X, 'node1', 'aaaaaaaaaaaa1'), _container('c1', 1, X, 'node10', 'aaaaaaaaaaaa2'),
          _container('c2', 2, X, 'node10', 'aaaaaaaaaaaa3')]
    scn = _scn(cs, [{'id': 'put:c0', 'kind': 'put', 'cid': 'c0'}, {'id': 'put:c1', 'kind': 'put', 'cid': 'c1'},
                    {'id': 'put:c2', 'kind': 'put', 'cid': 'c2'}, {'id': 'del:c0', 'kind': 'del', 'cid': 'c0'}])
    script = ['act:put:c0', 'req:node1', 'act:put:c1', 'req:node10', 'run:node10:created:c1',
              'run:node10:created:c1', 'act:del:c0', 'req:node1', 'run:node1:deleted', 'run:node1:deleted',
              'watch:node10', 'act:put:c2', 'req:node10', 'run:node10:watch']
    return scn, script, None


DEMOS = {f.__name__: f for f in (restart_replays_old_after_new, identity_handed_on,
                                 delete_after_owner_changed, set_after_node_deleted,
                                 set_after_owner_changed,
                                 wakeup_masked_by_own_node)}


def run_demo(name, verbose=True):
    from .. import env
    env.bootstrap()
    from ..checks import c17
    from . import world as _world
    scn, script, mode = DEMOS[name]()
    rng = random.Random('demo:' + name)
    if mode == 'replay-order':
        # the replay order after a restart is drawn from the rng: pick a seed
        # that replays the newer container first
        for k in range(50):
            rng = random.Random('demo:%s:%d' % (name, k))
            try:
                w = c17.run_case(rng, 'quick', lambda *a, **kw: None, script=script, scn=scn)
            except _world.ScriptError:
                continue
            if w.violations:
                break
    else:
        w = c17.run_case(rng, 'quick', lambda *a, **kw: None, script=script, scn=scn)
    if verbose:
        print('== %s' % name)
        print((DEMOS[name].__doc__ or '').strip())
        for i, label in enumerate(w.trace):
            print('  %2d %s' % (i, label))
        print('  operations on presence nodes (step, actor, op, path, owner before):')
        for h in w.oracle.history:
            print('    %s' % (h,))
        for mech, msg, _wit, at in w.violations:
            print('  VIOLATION at choice %d  mechanism=%s\n    %s' % (at, mech, msg))
        if not w.violations:
            print('  no violation')
    return w


if __name__ == '__main__':
    for _name in (sys.argv[1:] or sorted(DEMOS)):
        run_demo(_name)
