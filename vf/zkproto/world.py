"""The world C17 runs in: one fake ZooKeeper, two hosts each running the REAL
presence service (`PresenceResourceService` behind the REAL
`ResourceService._on_created/_on_deleted/_check_requests` and the REAL
`ResourceServiceClient.put/delete` on a temp directory), auxiliary clients, a
master stand-in that keeps /scheduled and /placement, and the controlled
scheduler that linearises everything at ZooKeeper-operation granularity.

What is replaced (and only this):
  * ZooKeeper            -> vf.zkfake (sessions, ephemerals, one-shot watches,
                            kazoo's real DataWatch on top)
  * inotify + poll loop  -> `Proc.inbox`: the request events a service process
                            would read from its resources/ directory, in the
                            order the file system operations happened; one
                            request handler at a time per process (the real
                            loop is single-threaded), head of the queue first
  * kazoo's callback thread -> `Proc.wq`: watch events of a client are
                            delivered one at a time, in order, as their own task
  * OS threads           -> greenlets scheduled by vf.zkproto.sched (logcontext's
                            thread-local stack is swapped per task)
  * process exit / supervisor restart -> `expire` / `crash` + `boot`
  * sysinfo.hostname, trace.app.zk._HOSTNAME -> the simulated host's name
  * utils.sys_exit       -> raises (reported as a violation, never exits the shard)
"""
import collections
import hashlib
import os
import shutil
import sys
import tempfile

from .. import zkfake
from . import oracle as _oracle
from . import scenario as _scenario
from . import sched as _sched

N_DRAIN = 400           # bounded progress: steps to quiescence once faults stopped
MAX_STEPS = 4000        # harness guard

WEIGHTS = {'run': 4.0, 'req': 4.0, 'watch': 4.0, 'act': 3.0, 'boot': 3.0,
           'expire': 0.35, 'crash': 0.35}

_IMPL = None


class ExitCalled(BaseException):
    """utils.sys_exit() was reached (exit_on_unhandled in a watch callback)."""

    def __init__(self, code, cause):
        BaseException.__init__(self, code, cause)
        self.cause = cause


class ScriptError(RuntimeError):
    """A directed choice script named a choice that is not enabled."""


def impl_class():
    """PresenceResourceService with the ZooKeeper client supplied per instance.
    Besides `zkclient` nothing is replaced: the three methods below call the
    original and only *record* (retry_request additionally tells the harness'
    stand-in for inotify that the request link was touched)."""
    global _IMPL    # pylint: disable=global-statement
    if _IMPL is not None:
        return _IMPL
    from treadmill.services import presence_service as ps

    class VfPresenceService(ps.PresenceResourceService):
        __slots__ = ('_vf_zk', '_vf_proc')

        def __init__(self, zk, proc):
            self._vf_zk = zk
            self._vf_proc = proc
            super(VfPresenceService, self).__init__()

        @property
        def zkclient(self):
            return self._vf_zk

        def retry_request(self, *args, **kwargs):
            res = super(VfPresenceService, self).retry_request(*args, **kwargs)
            self._vf_proc.on_retry(*args, **kwargs)
            return res

        def on_create_request(self, *args, **kwargs):
            try:
                res = super(VfPresenceService, self).on_create_request(*args, **kwargs)
            except Exception as err:
                self._vf_proc.note_exc('on_create_request', err)
                raise
            self._vf_proc.note_result('create', args[0], res)
            return res

        def on_delete_request(self, *args, **kwargs):
            try:
                res = super(VfPresenceService, self).on_delete_request(*args, **kwargs)
            except Exception as err:
                self._vf_proc.note_exc('on_delete_request', err)
                raise
            self._vf_proc.note_result('delete', args[0], res)
            return res

    _IMPL = VfPresenceService
    return _IMPL


class _Handler(zkfake._Handler):     # pylint: disable=protected-access
    """client.handler whose spawn() makes a scheduler task instead of a free thread."""

    def __init__(self, world, proc):
        self.world = world
        self.proc = proc

    def lock_object(self):
        return _sched.CoopLock(self.world.sched)

    def rlock_object(self):
        return _sched.CoopLock(self.world.sched, reentrant=True)

    def spawn(self, func, *a, **kw):
        dw = getattr(func, '__self__', None)
        return self.world.sched.spawn(
            '%s:spawn' % self.proc.host.name, 'spawn', self.proc,
            lambda: func(*a, **kw), meta={'path': getattr(dw, '_path', None)}, pass_first=False)


class Proc:
    """One incarnation of the presence service process on a host."""

    def __init__(self, world, host, gen, zk):
        self.world = world
        self.host = host
        self.gen = gen
        self.zk = zk
        self.sid = zk.sid
        self.alive = True
        self.impl = None
        self.inbox = collections.deque()
        self.wq = collections.deque()
        self.active_req = None
        self.active_watch = None
        self.results = {}
        self.waiting = {}       # rsrc_id -> node the last evaluation of the request stopped at

    def on_retry(self, rsrc_id):
        self.world.count('retries')
        if self.alive:
            self.inbox.append(('modified', rsrc_id))

    def note_result(self, what, rsrc_id, res):
        self.results[(what, rsrc_id)] = res

    def note_exc(self, fn, err):
        if getattr(err, 'vf_injected', False):
            # the handler let an (injected) connection loss through: the request is answered with an error
            self.world.count('requests_failed_on_injected_connection_loss')
            return
        self.world.report(
            'exception:%s@%s' % (type(err).__name__, fn),
            '%s of the presence service on %s raised %s: %s' % (fn, self.host.name, type(err).__name__, err),
            dict(host=self.host.name, function=fn))


class Host:
    def __init__(self, name, root):
        self.name = name
        self.root = root
        self.svc = None
        self.proc = None
        self.gen = 0
        self.clients = {}
        self.evzk = None
        self.keep_sid = None


class World:
    def __init__(self, rng, scn, count, script=None, base=None):
        from treadmill import services
        from treadmill import utils
        from treadmill import zkutils

        self.rng = rng
        self.scn = scn
        self._count = count
        self.script = list(script) if script else None
        self.script_pos = 0
        self.trace = []
        self.violations = []
        self.steps = 0
        self.closed = False
        self.cont = {}
        self.by_cid = {}
        for c in scn['containers']:
            c = dict(c)
            c['open'] = False
            c['waited'] = False
            c['paths'] = _scenario.instance_paths(c['instance'], c['endpoints'],
                                                  c['identity_group'], c['identity'])
            self.cont[c['rsrc_id']] = c
            self.by_cid[c['cid']] = c
        self.actions = [dict(a) for a in scn['actions']]
        self.done_actions = set()
        self.expiries_left = scn['expiries']
        self.crashes_left = scn['crashes']
        # transient connection losses: a ZooKeeper write of a request handler fails with ConnectionLoss (nothing is
        # applied, the session survives); drawn from a generator of their own so that scripted replays stay exact
        self.orphans = []
        self.connloss_left = scn.get('connloss', 0)
        self.connloss_injected = 0
        self.fault_rng = __import__('random').Random(scn.get('connloss_seed', 0))
        self.pub = None         # the publish of a terminal event in progress (client, request counter, fault ordinal)
        self.when = 0
        # scheduling policy of this case: uniform / one host runs ahead of the
        # other / the window between a handler's read of a node and its
        # following write is stretched (the handler is rarely picked there)
        self.policy = rng.choice(['uniform', 'uniform', 'skew', 'stretch', 'stretch'])
        self.bias = {h: 1.0 for h in _scenario.HOSTS}
        if self.policy == 'skew':
            self.bias = {h: rng.choice([0.1, 0.3, 1.0, 3.0]) for h in _scenario.HOSTS}

        # `base`: a directory of the caller (one per shard run, removed by the
        # caller) in which the two hosts' service directories are reused from
        # case to case; without it the world makes and removes its own
        self.own_tmp = base is None
        self.tmp = tempfile.mkdtemp(prefix='vf-') if base is None else base
        self._sys_exit = utils.sys_exit
        utils.sys_exit = self._exit_called
        try:
            tick = [0]

            def clock():
                tick[0] += 1
                return 1700000000.0 + tick[0] * 0.001
            self.srv = zkfake.ZkServer(clock=clock)
            self.srv.sync_delivery = False
            self.srv.deliver = lambda limit=None: 0       # watch events are delivered by the scheduler only
            self.srv.keep_log = True
            self.oracle = _oracle.Oracle(self.srv, self.cont, self.count, self.report)
            from treadmill import logcontext
            self._lc = logcontext.LOCAL_
            self._lc_main = logcontext.LOCAL_.ctx
            self.sched = _sched.Scheduler(on_exec=self._pre_op, on_enter=self._enter_task,
                                          on_leave=self._leave_task)
            self.srv.on_op = self._on_op
            self.srv.after_op = self._after_op
            self.svc_sids = set()

            self.master = self.srv.client('master')
            self.master.vf_actor = ('harness',)
            self.admin = self.srv.client('admin')
            self.admin.vf_actor = ('harness',)
            self.nodeinit = self.srv.client('nodeinit')
            self.nodeinit.vf_actor = ('harness',)
            for p in ('/running', '/endpoints', '/identity-groups', '/scheduled', '/placement',
                      '/servers', '/server.presence'):
                self.master.ensure_path(p)
            self.hosts = {}
            for name in _scenario.HOSTS:
                h = Host(name, os.path.join(self.tmp, name))
                os.makedirs(os.path.join(h.root, 'apps'), exist_ok=True)
                h.svc = services.ResourceService(
                    service_dir=os.path.join(h.root, 'presence_svc'), impl=impl_class())
                h.evzk = self.srv.client('events-' + name)
                h.evzk.vf_actor = ('unsched', name)
                self.hosts[name] = h
                self.master.ensure_path('/placement/' + name)
                zkutils.put(self.master, '/servers/' + name, {'parent': 'rack', 'partition': '_default'})
                self.nodeinit.create('/server.presence/%s#' % name, b'{"seen": false}',
                                     ephemeral=True, sequence=True)
            self.oracle.after_step(self.svc_sids)
            for name in _scenario.HOSTS:
                self.boot(self.hosts[name])
        except BaseException:
            self.close()
            raise

    # -- plumbing ----------------------------------------------------------------
    def count(self, name, n=1):
        self._count(name, n)

    def report(self, mechanism, message, witness=None):
        if any(v[0] == mechanism for v in self.violations):
            return
        self.violations.append((mechanism, message, witness, len(self.trace)))

    def _enter_task(self, task):
        # logcontext keeps a per-thread stack; every task is its own thread of
        # control (request handlers run in the process' main thread, whose
        # stack exists since import time)
        self._lc.ctx = task.local.setdefault('logctx', [])

    def _leave_task(self, _task):
        self._lc.ctx = self._lc_main

    def _exit_called(self, code):
        cause = sys.exc_info()[1]
        raise ExitCalled(code, cause)

    def close(self):
        if self.closed:
            return
        self.closed = True
        from treadmill import utils
        try:
            self.sched.error = None
            try:
                self.sched.kill_all()
            except _sched.Stall:
                pass
        finally:
            utils.sys_exit = self._sys_exit
            self.srv.on_op = None
            self.srv.after_op = None
            if self.own_tmp:
                shutil.rmtree(self.tmp, ignore_errors=True)
            else:
                self._wipe()

    def _wipe(self):
        """Leave the reused host directories as a fresh host has them: no
        request links, no container directories."""
        for name in _scenario.HOSTS:
            root = os.path.join(self.tmp, name)
            rsrc = os.path.join(root, 'presence_svc', 'resources')
            if os.path.isdir(rsrc):
                for entry in os.listdir(rsrc):
                    full = os.path.join(rsrc, entry)
                    if os.path.islink(full) or not os.path.isdir(full):
                        os.unlink(full)
                    else:       # reply written for a request whose link was already removed
                        shutil.rmtree(full, ignore_errors=True)
            shutil.rmtree(os.path.join(root, 'apps'), ignore_errors=True)

    def trace_hash(self):
        return hashlib.sha1('|'.join(self.trace).encode()).hexdigest()[:16]

    # -- processes -----------------------------------------------------------------
    def boot(self, host):
        """Start a presence service process: what ResourceService.run/_run do up
        to the event loop (construct, initialize, _check_requests, a created
        event for every existing request - in directory order, i.e. arbitrary)."""
        from treadmill import sysinfo
        host.gen += 1
        name = '%s.%d' % (host.name, host.gen)
        if host.keep_sid is not None:
            zk = zkfake.ZkFakeClient(self.srv, host.keep_sid, name)
            host.keep_sid = None
            self.count('restarts_same_session')
        else:
            zk = self.srv.client(name)
            if host.gen > 1:
                self.count('restarts_new_session')
        proc = Proc(self, host, host.gen, zk)
        zk.handler = _Handler(self, proc)
        zk.vf_actor = ('svc', host.name)
        zk.vf_proc = proc
        self.svc_sids.add(zk.sid)
        real_hostname = sysinfo.hostname
        sysinfo.hostname = lambda: host.name
        try:
            proc.impl = host.svc._load_impl()(zk, proc)      # pylint: disable=protected-access
        finally:
            sysinfo.hostname = real_hostname
        proc.impl.initialize(host.svc._dir)                 # pylint: disable=protected-access
        reqs = sorted(host.svc._check_requests())           # pylint: disable=protected-access
        self.rng.shuffle(reqs)
        for path in reqs:
            proc.inbox.append(('created', os.path.basename(path)))
        # "Before starting, make sure backend state and service state are synchronized" (after the replay)
        proc.inbox.append(('synchronize', '-'))
        if host.gen > 1:
            self.count('replayed_requests', len(reqs))
            if len(reqs) > 1:
                self.count('restarts_replaying_several_requests')
        host.proc = proc
        return proc

    def _stop(self, proc):
        proc.alive = False
        parked = [t for t in self.sched.live if t.owner is proc]
        if any(t.state == 'blocked' for t in parked):
            self.count('process_deaths_mid_request')
        for t in parked:
            self.sched.kill(t)
        proc.active_req = None
        proc.active_watch = None
        proc.inbox.clear()
        proc.wq.clear()

    def expire(self, host):
        proc = host.proc
        self.expiries_left -= 1
        self.count('expiries')
        if any(c['open'] and c['host'] == host.name for c in self.cont.values()):
            self.count('expiries_with_open_requests')
        self.oracle.cur = None
        self.srv.expire(proc.sid)
        self._stop(proc)
        self._settle()

    def crash(self, host):
        """The process dies, its session survives (the service re-attaches to
        the session id it saved: sproc service presence --zkid)."""
        proc = host.proc
        self.crashes_left -= 1
        self.count('crashes')
        self._stop(proc)
        proc.zk.dead = True
        for table in (self.srv.data_watches, self.srv.child_watches):
            for path in list(table):
                table[path] = [(c, cb) for c, cb in table[path] if c is not proc.zk]
                if not table[path]:
                    del table[path]
        host.keep_sid = proc.sid
        if self.rng.random() < 0.3:
            # the saved session id is lost with the process (zkid file removed): the next incarnation starts a new
            # session while the old one lives on until it times out
            host.keep_sid = None
            self.orphans.append(proc.sid)
            self.count('crashes_losing_the_session_id')
        self._settle()

    def _after_op(self, client, op, path):
        """The delete of a clean-up was applied, its reply is lost: the handler sees a ConnectionLoss."""
        if self.connloss_left <= 0:
            return
        import greenlet
        import kazoo.exceptions
        task = getattr(greenlet.getcurrent(), 'task', None)
        if (task is not None and task.kind == 'req' and task.meta.get('ev') == 'deleted' and isinstance(task.owner, Proc) and
                client is task.owner.zk and self.fault_rng.random() < 0.2):
            self.connloss_left -= 1
            self.connloss_injected += 1
            self.count('delete_replies_lost_injected')
            err = kazoo.exceptions.ConnectionLoss('injected: reply of delete %s lost' % path)
            err.vf_injected = True
            raise err

    def _pre_op(self, task, client, op, path):
        if task is not None and task.meta.get('muted_op'):
            return
        self.oracle.pre_op(task, client, op, path)

    def _on_op(self, client, op, path):
        pub = self.pub
        if pub is not None and client is pub['client']:
            # the n-th ZooKeeper request of a publish fails with a connection loss: it never reaches the server
            pub['n'] += 1
            pub['ops'].append(op)
            if pub['n'] == pub['at']:
                import kazoo.exceptions
                pub['hit'] = op
                err = kazoo.exceptions.ConnectionLoss('injected: %s %s' % (op, path))
                err.vf_injected = True
                raise err
        inject = False
        if self.connloss_left > 0 and op == 'delete':
            # (only the clean-up of a container is hit: a registration that fails makes the container abort, which
            # the scenarios do not play)
            import greenlet
            task = getattr(greenlet.getcurrent(), 'task', None)
            inject = (task is not None and task.kind == 'req' and task.meta.get('ev') == 'deleted' and
                      isinstance(task.owner, Proc) and client is task.owner.zk and self.fault_rng.random() < 0.3)
        if not inject:
            self.sched.yield_point(client, op, path)
            return
        # the operation never reaches the server: the scheduling point is kept, the oracle is not told of an operation
        import kazoo.exceptions
        # (muted for this task only: other tasks run while this one is suspended at the scheduling point)
        task.meta['muted_op'] = True
        try:
            self.sched.yield_point(client, op, path)
        finally:
            task.meta['muted_op'] = False
        self.connloss_left -= 1
        self.connloss_injected += 1
        self.count('connection_losses_injected')
        err = kazoo.exceptions.ConnectionLoss('injected: %s %s' % (op, path))
        err.vf_injected = True
        raise err

    # -- after every step -----------------------------------------------------------
    def _settle(self):
        self.oracle.after_step(self.svc_sids)
        pend = self.srv.pending
        self.srv.pending = []
        for cb, ev in pend:
            dw = getattr(cb, '__self__', None)
            proc = getattr(getattr(dw, '_client', None), 'vf_proc', None)
            if proc is None or not proc.alive:
                continue
            proc.wq.append((cb, ev))

    def _finished(self, task):
        proc = task.owner
        if task.exc is not None and getattr(task.exc, 'vf_injected', False):
            pass
        elif task.exc is not None and not isinstance(task.exc, _sched.Killed):
            err = task.exc
            if isinstance(err, ExitCalled):
                cause = type(err.cause).__name__ if err.cause is not None else 'SystemExit'
                mech = 'exception:%s@%s' % (cause, 'watch-callback' if task.kind != 'req' else 'request')
                msg = 'exit_on_unhandled fired in %s on %s: %r' % (task.name, proc.host.name, err.cause)
            else:
                mech = 'exception:%s@%s' % (type(err).__name__,
                                            {'req': '_on_' + task.meta.get('ev', 'request')}.get(task.kind, 'watch-callback'))
                msg = '%s on %s raised %s: %s' % (task.name, proc.host.name, type(err).__name__, err)
            self.report(mech, msg, dict(task=task.name))
        if proc.active_req is task:
            proc.active_req = None
            if not task.killed:
                self._request_done(proc, task)
        if proc.active_watch is task:
            proc.active_watch = None

    def _request_done(self, proc, task):
        ev, rid = task.meta['ev'], task.meta['rid']
        if ev == 'synchronize':
            return
        if ev == 'deleted':
            self.count('delete_requests_processed')
            self.oracle.cleanup_end(proc, task)
            return
        self.count('create_requests_processed')
        if ('create', rid) not in proc.results:
            return          # request vanished before it was read (stale event)
        res = proc.results.pop(('create', rid))
        if res is None:
            if rid in self.cont:
                self.cont[rid]['waited'] = True
            proc.waiting[rid] = task.meta.get('met_at')
            self.oracle.check_wakeup(proc, task, self.sched.live)
        else:
            proc.waiting.pop(rid, None)
            self.count('create_requests_completed')

    # -- choices ---------------------------------------------------------------------
    def actions_left(self):
        return [a for a in self.actions if a['id'] not in self.done_actions]

    def choices(self, phase):
        out = []
        for t in self.sched.live:
            if not self.sched.runnable(t):
                continue
            host = t.owner.host.name
            weight = WEIGHTS['run'] * self.bias[host]
            if (self.policy == 'stretch' and t.pending is not None
                    and t.pending[1] in ('set', 'delete', 'get_children')):
                weight *= 0.06
            out.append(('run:' + t.name, weight, ('run', t)))
        for name in _scenario.HOSTS:
            h = self.hosts[name]
            p = h.proc
            if p is not None and p.alive:
                if p.active_req is None and p.inbox:
                    out.append(('req:' + name, WEIGHTS['req'] * self.bias[name], ('req', p)))
                if p.active_watch is None and p.wq:
                    out.append(('watch:' + name, WEIGHTS['watch'] * self.bias[name], ('watch', p)))
                if phase != 'drain' and self._worth_a_fault(h):
                    if self.expiries_left > 0:
                        out.append(('expire:' + name, WEIGHTS['expire'], ('expire', h)))
                    if self.crashes_left > 0:
                        out.append(('crash:' + name, WEIGHTS['crash'], ('crash', h)))
            else:
                out.append(('boot:' + name, WEIGHTS['boot'], ('boot', h)))
        for sid in self.orphans:
            if self.srv.sessions.get(sid):
                out.append(('expire-orphan:%#x' % sid, WEIGHTS['expire'] * (8 if phase == 'drain' else 1), ('expire-orphan', sid)))
        if phase == 'main':
            for a in self.actions_left():
                if all(d in self.done_actions for d in a['deps']):
                    out.append(('act:' + a['id'], WEIGHTS['act'], ('act', a)))
        return out

    def _worth_a_fault(self, host):
        """A fault is only offered where it can matter: the process has open
        requests, work in flight, or its session owns nodes."""
        p = host.proc
        if p.inbox or p.wq or p.active_req is not None or p.active_watch is not None:
            return True
        if any(c['open'] and c['host'] == host.name for c in self.cont.values()):
            return True
        return any(n.owner == p.sid for n in self.srv.nodes.values())

    def pick(self, ch):
        if self.script is not None and self.script_pos < len(self.script):
            want = self.script[self.script_pos]
            self.script_pos += 1
            for c in ch:
                if c[0].startswith(want):
                    return c
            raise ScriptError('step %d: %r is not enabled; enabled: %s' % (
                self.script_pos - 1, want, [c[0] for c in ch]))
        total = sum(c[1] for c in ch)
        x = self.rng.random() * total
        for c in ch:
            x -= c[1]
            if x < 0:
                return c
        return ch[-1]

    # -- executing a choice -------------------------------------------------------------
    def execute(self, choice):
        label, _w, (kind, arg) = choice
        self.trace.append(label)
        self.steps += 1
        if kind == 'run':
            self._step(arg)
        elif kind == 'req':
            self._start_request(arg)
        elif kind == 'watch':
            self._start_watch(arg)
        elif kind == 'boot':
            self.oracle.cur = None
            self.boot(arg)
            self._settle()
        elif kind == 'expire':
            self.expire(arg)
        elif kind == 'crash':
            self.crash(arg)
        elif kind == 'expire-orphan':
            self.oracle.cur = None
            self.count('orphan_sessions_expired')
            self.srv.expire(arg)
            self._settle()
        elif kind == 'act':
            self.oracle.cur = None
            self._action(arg)
            self.done_actions.add(arg['id'])
            self._settle()

    def _step(self, task):
        self.oracle.cur = task
        self.sched.step(task)
        self._settle()
        if task.state == 'done':
            self._finished(task)

    def _start_request(self, proc):
        ev, rid = proc.inbox.popleft()
        host = proc.host
        path = os.path.join(host.svc._rsrc_dir, rid)        # pylint: disable=protected-access
        handler = host.svc._on_deleted if ev == 'deleted' else host.svc._on_created   # pylint: disable=protected-access
        fn = lambda: handler(proc.impl, path)
        if ev == 'synchronize':
            fn = proc.impl.synchronize
            self.count('synchronize_calls')
        cid = self.cont[rid]['cid'] if rid in self.cont else rid
        task = self.sched.spawn('%s:%s:%s' % (host.name, ev, cid), 'req', proc, fn,
                                meta={'ev': ev, 'rid': rid})
        if ev == 'deleted' and rid in self.cont:
            task.meta['newer_at_start'] = self.oracle.newer_registered(rid)
        proc.active_req = task
        self._step(task)

    def _start_watch(self, proc):
        cb, ev = proc.wq.popleft()
        self.count('watch_events_delivered')
        dw = getattr(cb, '__self__', None)
        task = self.sched.spawn('%s:watch' % proc.host.name, 'watch', proc, lambda: cb(ev),
                                meta={'path': getattr(dw, '_path', None)})
        proc.active_watch = task
        self._step(task)

    # -- scenario actions (request granularity, run inline) -----------------------------
    def _action(self, a):
        kind = a['kind']
        c = self.by_cid[a['cid']]
        if kind == 'put':
            self._put(c)
        elif kind == 'del':
            self._del(c)
        elif kind == 'unschedule':
            self._unschedule(a['host'], c)
        elif kind == 'publish_terminal':
            self._publish_terminal(a, c)
        elif kind == 'reg_runtime':
            self._reg_runtime(a, c)
        else:
            self._aux(kind, a['host'], c)

    def _manifest(self, c):
        m = {'name': c['instance'], 'endpoints': [dict(e) for e in c['endpoints']]}
        if c['identity_group']:
            m['identity_group'] = c['identity_group']
            if c['identity'] is not None:
                m['identity'] = c['identity']
        return m

    def _put(self, c):
        """The master places the instance on the host, the host's runtime asks
        its presence service to register the container."""
        from treadmill import zkutils
        inst = c['instance']
        for name in _scenario.HOSTS:
            if name != c['host']:
                zkutils.ensure_deleted(self.master, '/placement/%s/%s' % (name, inst))
        zkutils.put(self.master, '/scheduled/' + inst, self._manifest(c))
        zkutils.put(self.master, '/placement/%s/%s' % (c['host'], inst), {'expires': 0})
        host = self.hosts[c['host']]
        # (the runtime uses <container>/resources/presence; one level is enough here)
        client = host.svc.make_client(os.path.join(host.root, 'apps', c['cid']))
        host.clients[c['cid']] = client
        req = {'endpoints': [dict(e) for e in c['endpoints']], 'vip': {'ip0': '192.168.0.1', 'ip1': '192.168.0.2'}}
        if c['identity_group']:
            req['identity_group'] = c['identity_group']
            if c['identity'] is not None:
                req['identity'] = c['identity']
        client.put(c['rsrc_id'], req)
        c['open'] = True
        self.count('puts')
        if host.proc is not None and host.proc.alive:
            host.proc.inbox.append(('created', c['rsrc_id']))
        else:
            self.count('requests_changed_while_service_down')

    def _del(self, c):
        host = self.hosts[c['host']]
        host.clients[c['cid']].delete(c['rsrc_id'])
        c['open'] = False
        self.count('dels')
        if host.proc is not None and host.proc.alive:
            host.proc.inbox.append(('deleted', c['rsrc_id']))
        else:
            self.count('requests_changed_while_service_down')

    def _aux(self, kind, hostname, c):
        from treadmill import presence
        self.count('aux_calls')
        self.admin.vf_actor = ('aux', hostname, kind, c['cid'])
        before = len(self.srv.log)
        try:
            if kind == 'kill_node':
                fn = 'kill_node'
                presence.kill_node(self.admin, hostname)
            elif kind == 'reg_identity':
                fn = 'register_identity'
                import types
                from treadmill import exc as tm_exc
                cl = self.srv.client('runtime-%s-%d' % (hostname, len(self.srv.log)))
                cl.vf_actor = ('aux', hostname, kind, c['cid'])
                man = {'name': c['instance'].split('#')[0] + '#0000099999', 'identity_group': c['identity_group'], 'endpoints': []}
                real_time = presence.time
                presence.time = types.SimpleNamespace(sleep=lambda _s: None, time=real_time.time)
                try:
                    presence.EndpointPresence(cl, man, hostname=hostname).register_identity()
                    self.count('aux_identity_registrations_succeeded')
                except tm_exc.ContainerSetupError:
                    self.count('aux_identity_registrations_refused')       # the placeholder is held: the container aborts
                finally:
                    presence.time = real_time
            else:
                ep = presence.EndpointPresence(self.admin, self._manifest(c), hostname=hostname,
                                               appname=c['instance'])
                for part in ('running', 'endpoints', 'identity'):
                    if kind in ('unreg_' + part, 'unreg_all'):
                        fn = 'unregister_' + part
                        getattr(ep, fn)()
        except Exception as err:    # pylint: disable=broad-except
            self.report('exception:%s@%s' % (type(err).__name__, fn),
                        '%s(hostname=%s) raised %s: %s' % (fn, hostname, type(err).__name__, err),
                        dict(action=kind, host=hostname))
        finally:
            self.admin.vf_actor = ('harness',)
        n = sum(1 for e in self.srv.log[before:] if e[2] == 'delete' and _oracle.is_presence_path(e[3]))
        if n:
            self.count('aux_deletes', n)

    def _unschedule(self, hostname, c):
        from treadmill.trace.app import zk as tzk
        self.count('unschedule_calls')
        real = tzk._HOSTNAME       # pylint: disable=protected-access
        tzk._HOSTNAME = hostname
        try:
            tzk._unschedule(self.hosts[hostname].evzk, c['instance'])
        except Exception as err:    # pylint: disable=broad-except
            self.report('exception:%s@_unschedule' % type(err).__name__,
                        '_unschedule on %s raised %s: %s' % (hostname, type(err).__name__, err),
                        dict(host=hostname))
        finally:
            tzk._HOSTNAME = real

    def _publish_terminal(self, a, c):
        """The event daemon of a host publishes a terminal event of container c (trace.app.zk.publish: the trace
        event, the /finished record, then _unschedule); one request of the publish may fail with a connection loss.
        The retries of zkutils.with_retry do not sleep (time boundary)."""
        import kazoo.retry
        from treadmill.trace.app import zk as tzk
        hostname = a['host']
        inst = c['instance']
        evzk = self.hosts[hostname].evzk
        stale = ('/scheduled/' + inst in self.srv.nodes
                 and '/placement/%s/%s' % (hostname, inst) not in self.srv.nodes)
        self.count('terminal_events_published')
        if stale:
            self.count('stale_terminal_events_published')       # the instance is scheduled, this host does not own its placement
        self.when += 1
        real_retry = kazoo.retry.KazooRetry

        class NoSleepRetry(real_retry):
            def __init__(self, *args, **kwargs):
                kwargs.setdefault('sleep_func', lambda _secs: None)
                real_retry.__init__(self, *args, **kwargs)

        real = tzk._HOSTNAME       # pylint: disable=protected-access
        tzk._HOSTNAME = hostname
        kazoo.retry.KazooRetry = NoSleepRetry
        self.pub = pub = {'client': evzk, 'n': 0, 'at': a.get('fault_at'), 'hit': None, 'ops': []}
        try:
            tzk.publish(evzk, '%.3f' % (1700000000.0 + self.when), inst, a['event'], a['data'], None)
        except Exception as err:    # pylint: disable=broad-except
            if getattr(err, 'vf_injected', False):
                self.count('publishes_failed_on_injected_connection_loss')
            else:
                self.report('exception:%s@publish' % type(err).__name__,
                            'trace.app.zk.publish on %s raised %s: %s' % (hostname, type(err).__name__, err),
                            dict(host=hostname))
        finally:
            self.pub = None
            kazoo.retry.KazooRetry = real_retry
            tzk._HOSTNAME = real
        if pub['hit'] is not None:
            kind = 'read' if pub['hit'] in ('exists', 'get', 'get_children') else 'write'
            self.count('publish_connection_loss_on_%s_request' % kind)
            if stale:
                self.count('stale_terminal_events_with_connection_loss_on_%s_request' % kind)

    def _reg_runtime(self, a, c):
        """A runtime that talks to ZooKeeper itself registers container c on host a['host'] through
        EndpointPresence.register() under a session of its own.  Its waiting (time.sleep between two attempts) is a
        point where the runtime session of an earlier container may end.  A refused registration aborts the container
        (the runtime's session ends); a successful one leaves the session alive until the scheduler ends it."""
        import random
        import types
        from treadmill import exc as tm_exc
        from treadmill import presence
        hostname = a['host']
        xr = random.Random(a['seed'])
        self.count('runtime_registrations')
        cl = self.srv.client('runtime-%s-%d' % (hostname, len(self.srv.log)))
        cl.vf_actor = ('aux', hostname, 'reg_runtime', c['cid'])
        held = [p for _k, p in c['paths']
                if p in self.srv.nodes and self.srv.nodes[p].owner and self.srv.sessions.get(self.srv.nodes[p].owner)]
        if held:
            self.count('runtime_registration_next_to_live_foreign_owner')
            if any(_oracle.node_host(p, self.srv.nodes[p].data) == hostname for p in held):
                # another session of the same server name holds a node of the instance
                self.count('runtime_registration_next_to_live_session_of_same_server')
        runtimes = self.runtimes = getattr(self, 'runtimes', [])

        def wait(_secs):
            self.count('runtime_registration_waits')
            live = [sid for sid in runtimes if self.srv.sessions.get(sid)]
            if live and xr.random() < 0.25:
                self.count('runtime_sessions_ended_while_another_waits')
                self.srv.expire(xr.choice(live))

        real_time = presence.time
        presence.time = types.SimpleNamespace(sleep=wait, time=real_time.time)
        try:
            presence.EndpointPresence(cl, self._manifest(c), hostname=hostname, appname=c['instance']).register()
            self.count('runtime_registrations_succeeded')
            runtimes.append(cl.sid)
            if xr.random() < 0.3:
                self.srv.expire(cl.sid)         # a short-lived container
            else:
                self.orphans.append(cl.sid)     # ends at a moment the scheduler picks
        except tm_exc.ContainerSetupError:
            self.count('runtime_registrations_refused')
            self.srv.expire(cl.sid)
        except Exception as err:    # pylint: disable=broad-except
            self.report('exception:%s@EndpointPresence.register' % type(err).__name__,
                        'register(hostname=%s) raised %s: %s' % (hostname, type(err).__name__, err),
                        dict(host=hostname))
        finally:
            presence.time = real_time

    # -- the run -------------------------------------------------------------------------
    def run(self):
        phase = 'main'
        tail_left = self.scn['tail']
        drain = 0
        while True:
            if self.steps > MAX_STEPS:
                raise _sched.Stall('more than %d steps in one case' % MAX_STEPS)
            if phase == 'main' and not self.actions_left():
                phase = 'tail'
            if phase == 'tail' and tail_left <= 0:
                phase = 'drain'
            ch = self.choices(phase)
            if not ch:
                break
            if phase == 'tail':
                tail_left -= 1
            elif phase == 'drain':
                if drain >= N_DRAIN:
                    self.report('no-quiescence-after-faults-stop',
                                'requests still being retried %d steps after the last fault and the last '
                                'client action' % N_DRAIN, dict(enabled=[c[0] for c in ch]))
                    break
                drain += 1
            self.execute(self.pick(ch))
        self.count('steps', self.steps)
        self.count('drain_steps', drain)
        if not ch and self.sched.live:
            raise _sched.Stall('tasks wait for locks nobody will release: %r' % (self.sched.live,))
        if not self.violations or all(v[0] != 'no-quiescence-after-faults-stop' for v in self.violations):
            self.quiescent_check()

    def quiescent_check(self):
        """R6: nothing is enabled any more - every open create request is either
        answered, or waits for a node a live foreign session still owns (with a
        watch armed on it)."""
        from treadmill import services
        if self.connloss_injected:
            # a clean-up whose delete was lost leaves its node behind for the life of the service's session:
            # whoever waits for that node waits on - progress after such a fault is not what R6 is about
            self.count('quiescence_checks_skipped_after_connection_loss')
            return
        for rid, c in self.cont.items():
            if not c['open']:
                continue
            host = self.hosts[c['host']]
            proc = host.proc
            try:
                reply = host.clients[c['cid']].get(rid)
            except services.ResourceServiceRequestError:
                self.count('error_replies')
                continue
            if reply is not None:
                self.count('open_requests_answered_at_end')
                if c['waited']:
                    self.count('waits_resolved')
                continue
            # the node the last evaluation of the request stopped at (observed
            # at the boundary: the create that met an existing node)
            path = proc.waiting.get(rid)
            node = self.srv.nodes.get(path) if path is not None else None
            if path is None:
                why = 'request-never-evaluated'
            elif node is None:
                why = 'blocking-node-gone'
            elif node.owner == proc.sid:
                why = 'blocking-node-owned-by-own-session'
            elif not self.srv.sessions.get(node.owner):
                why = 'blocking-node-gone'
            elif any(cl is proc.zk for cl, _cb in self.srv.data_watches.get(path, [])):
                self.count('legitimate_waits_at_end')
                continue
            else:
                why = 'no-watch-on-foreign-node'
            self.report(
                'stuck-request:' + why,
                'create request of container %s on %s has no reply although nothing is enabled any more '
                '(node its last evaluation stopped at: %s, %s)' % (
                    c['cid'], c['host'], path,
                    'absent' if node is None else 'owner %#x' % node.owner),
                dict(container=c['cid'], host=c['host'], path=path))
