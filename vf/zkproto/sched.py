"""Controlled scheduler for C17 (DESIGN section 5).

Every unit of concurrent work (a request handler of a presence service, a kazoo
watch callback, a function handed to ``client.handler.spawn``) is a *task*: a
thread of control with its own stack that only runs while the scheduler has
handed it the baton.  The fake ZooKeeper calls :meth:`Scheduler.yield_point` at
the start of every operation (``srv.on_op``); the task parks there and the
scheduler (the main thread of control) decides who proceeds.  Exactly one task
runs at any time, so a run is a deterministic function of the sequence of
choices; there are no sleeps and no timing verdicts.

Tasks are greenlets (cooperative threads inside the one OS thread of the
shard): a switch costs microseconds and does not depend on the load of the
machine, which is what lets a shard explore thousands of interleavings.  The
code under test cannot tell the difference: it never blocks anywhere but at a
ZooKeeper operation (locks it takes through ``client.handler.lock_object()``
are :class:`CoopLock`, whose contention would be a harness error, not a hang).

A task can be *killed* while parked (its process died: session expiry /
crash): it is resumed with :class:`Killed` (a BaseException) raised from the
yield point, any further operation it attempts while unwinding raises again,
so a dead process never changes the node table.
"""
import greenlet


class Killed(BaseException):
    """The process this task belongs to is dead."""


class Stall(RuntimeError):
    """Harness error: the cooperative schedule cannot continue."""


class CoopLock:
    """Lock for code running as tasks of one OS thread.  A contended acquire
    parks the task (it becomes schedulable again once the lock is free), just
    as an OS thread would block; it is not a yield point of its own for the
    interleaving hash beyond the choice that resumes it."""

    def __init__(self, sched, reentrant=False):
        self.sched = sched
        self.reentrant = reentrant
        self.holder = None
        self.depth = 0

    def free_for(self, glet):
        return self.holder is None or (self.reentrant and self.holder is glet)

    def acquire(self, blocking=True, timeout=-1):   # pylint: disable=unused-argument
        me = greenlet.getcurrent()
        while not self.free_for(me):
            if not blocking:
                return False
            self.sched.wait_for_lock(self)
        self.holder = me
        self.depth += 1
        return True

    def release(self):
        self.depth -= 1
        if self.depth <= 0:
            self.depth = 0
            self.holder = None

    def __enter__(self):
        self.acquire()
        return self

    def __exit__(self, *exc):
        self.release()
        return False


class Task:
    def __init__(self, tid, name, kind, owner, fn, meta):
        self.tid = tid
        self.name = name
        self.kind = kind            # 'req' | 'watch' | 'spawn'
        self.owner = owner          # the process (world.Proc) it belongs to
        self.fn = fn
        self.meta = meta
        self.state = 'new'          # new | running | blocked | done
        self.pending = None         # (client, op, path) it is about to issue
        self.kill = False
        self.killed = False
        self.exc = None
        self.result = None
        self.ops = 0
        self.first = True
        self.glet = None
        self.local = {}             # per-task state the world swaps in (thread-locals of the code under test)

    def __repr__(self):
        return '<task %s %s>' % (self.name, self.state)


class Scheduler:
    def __init__(self, on_exec=None, on_enter=None, on_leave=None):
        self.live = []              # tasks not finished, creation order
        self.on_exec = on_exec      # on_exec(task|None, client, op, path) right before the op is applied
        self.on_enter = on_enter    # on_enter(task): the task is about to run
        self.on_leave = on_leave    # on_leave(task): control is back in the scheduler
        self.error = None           # harness error raised inside a task
        self.steps = 0
        self.ops = 0
        self._main = greenlet.getcurrent()
        self._ntasks = 0

    # -- tasks ------------------------------------------------------------
    def spawn(self, name, kind, owner, fn, meta=None, pass_first=True):
        """New task (not started).  With pass_first the first yield point of
        the task is passed through: starting a handler and issuing its first
        operation is one step (nothing shared is read before the first
        operation, so the extra cut would only duplicate interleavings)."""
        self._ntasks += 1
        t = Task(self._ntasks, '%s~%d' % (name, self._ntasks), kind, owner, fn, meta or {})
        t.first = pass_first
        self.live.append(t)
        return t

    def _body(self, task):
        try:
            task.result = task.fn()
        except Killed:
            task.killed = True
        except BaseException as err:    # pylint: disable=broad-except
            task.exc = err
        finally:
            task.state = 'done'

    def step(self, task):
        """Let the task run until its next yield point (or its end)."""
        assert task.state in ('new', 'blocked'), task
        assert greenlet.getcurrent() is self._main
        self.steps += 1
        if task.state == 'new':
            task.glet = greenlet.greenlet(lambda: self._body(task), parent=self._main)
            task.glet.task = task
        task.state = 'running'
        if self.on_enter is not None:
            self.on_enter(task)
        try:
            task.glet.switch()
        finally:
            if self.on_leave is not None:
                self.on_leave(task)
        if self.error is not None:
            raise self.error
        if task.state == 'done':
            self.live.remove(task)
        elif task.state != 'blocked':
            raise Stall('task %r gave up control outside a yield point' % (task,))
        return task

    def kill(self, task):
        if task.state == 'done':
            return
        task.kill = True
        if task.state == 'new':
            task.state = 'done'
            task.killed = True
            self.live.remove(task)
            return
        self.step(task)
        if task.state != 'done':
            raise Stall('killed task %r is still alive' % (task,))

    def kill_all(self):
        for t in list(self.live):
            self.kill(t)

    def runnable(self, task):
        """False while the task waits for a lock another parked task holds."""
        if task.state == 'blocked' and task.pending is not None and task.pending[1] == 'lock':
            return task.pending[0].free_for(task.glet)
        return True

    def wait_for_lock(self, lock):
        cur = greenlet.getcurrent()
        task = getattr(cur, 'task', None)
        if cur is self._main or task is None:
            raise Stall('lock contention outside a task (holder parked at a yield point)')
        if task.kill:
            raise Killed()
        task.pending = (lock, 'lock', None)
        task.state = 'blocked'
        self._main.switch()
        task.state = 'running'
        task.pending = None
        if task.kill:
            raise Killed()

    # -- the hook of the fake ------------------------------------------------
    def yield_point(self, client, op, path):
        cur = greenlet.getcurrent()
        if cur is self._main:
            # an atomic (request-granularity) action run inline by the scheduler
            self.ops += 1
            if self.on_exec is not None:
                self.on_exec(None, client, op, path)
            return
        task = getattr(cur, 'task', None)
        if task is None:
            self.error = Stall('ZooKeeper operation %s %s from an unmanaged thread of control' % (op, path))
            raise self.error
        if task.kill:
            raise Killed()
        if task.first:
            task.first = False
        else:
            task.pending = (client, op, path)
            task.state = 'blocked'
            self._main.switch()
            task.state = 'running'
            task.pending = None
            if task.kill:
                raise Killed()
        task.ops += 1
        self.ops += 1
        if self.on_exec is not None:
            try:
                self.on_exec(task, client, op, path)
            except Exception as err:    # harness error inside the oracle: surface it in the scheduler
                self.error = err
                raise Killed()
