"""Controlled scheduler for C17 (DESIGN section 5).

Every unit of concurrent work (a request handler of a presence service, a kazoo
watch callback, a function handed to ``client.handler.spawn``) is a *task*: a
real thread that only runs while the scheduler has handed it the baton.  The
fake ZooKeeper calls :meth:`Scheduler.yield_point` at the start of every
operation (``srv.on_op``); the task parks there and the scheduler (the main
thread) decides who proceeds.  Exactly one thread runs at any time, so a run is
a deterministic function of the sequence of choices; there are no sleeps and no
timing verdicts (the only timeout is a watchdog whose firing is a harness
error = inconclusive).

A task can be *killed* while parked (its process died: session expiry /
crash): it is resumed with :class:`Killed` (a BaseException) raised from the
yield point, any further operation it attempts while unwinding raises again,
so a dead process never changes the node table.
"""
import threading

STALL_S = 60.0


class Killed(BaseException):
    """The process this task belongs to is dead."""


class Stall(RuntimeError):
    """Harness error: a task did not come back to the scheduler."""


class Task:
    def __init__(self, tid, name, kind, owner, fn, meta):
        self.tid = tid
        self.name = name
        self.kind = kind            # 'req' | 'watch' | 'spawn'
        self.owner = owner          # the process (world.Proc) it belongs to
        self.fn = fn
        self.meta = meta
        self.state = 'new'          # new | running | blocked | done
        self.pending = None         # (client, op, path) it is about to issue
        self.kill = False
        self.killed = False
        self.exc = None
        self.result = None
        self.ops = 0
        self.first = True
        self.go = threading.Semaphore(0)
        self.thread = None

    def __repr__(self):
        return '<task %s %s>' % (self.name, self.state)


class Scheduler:
    def __init__(self, on_exec=None):
        self.live = []              # tasks not finished, creation order
        self.on_exec = on_exec      # on_exec(task|None, client, op, path) right before the op is applied
        self.error = None           # harness error raised inside a task thread
        self.steps = 0
        self.ops = 0
        self._ident = {}
        self._back = threading.Semaphore(0)
        self._main = threading.get_ident()
        self._ntasks = 0

    # -- tasks ------------------------------------------------------------
    def spawn(self, name, kind, owner, fn, meta=None, pass_first=True):
        """New task (not started).  With pass_first the first yield point of
        the task is passed through: starting a handler and issuing its first
        operation is one step (nothing shared is read before the first
        operation, so the extra cut would only duplicate interleavings)."""
        self._ntasks += 1
        t = Task(self._ntasks, '%s~%d' % (name, self._ntasks), kind, owner, fn, meta or {})
        t.first = pass_first
        self.live.append(t)
        return t

    def _body(self, task):
        self._ident[threading.get_ident()] = task
        try:
            task.result = task.fn()
        except Killed:
            task.killed = True
        except BaseException as err:    # pylint: disable=broad-except
            task.exc = err
        finally:
            self._ident.pop(threading.get_ident(), None)
            task.state = 'done'
            self._back.release()

    def step(self, task):
        """Let the task run until its next yield point (or its end)."""
        assert task.state in ('new', 'blocked'), task
        self.steps += 1
        if task.state == 'new':
            task.state = 'running'
            task.thread = threading.Thread(target=self._body, args=(task,),
                                           name=task.name, daemon=True)
            task.thread.start()
        else:
            task.state = 'running'
            task.go.release()
        if not self._back.acquire(timeout=STALL_S):
            raise Stall('task %r did not reach a yield point in %.0fs' % (task, STALL_S))
        if self.error is not None:
            raise self.error
        if task.state == 'done':
            task.thread.join(STALL_S)
            self.live.remove(task)
        return task

    def kill(self, task):
        if task.state == 'done':
            return
        task.kill = True
        if task.state == 'new':
            task.state = 'done'
            task.killed = True
            self.live.remove(task)
            return
        self.step(task)
        if task.state != 'done':
            raise Stall('killed task %r is still alive' % (task,))

    def kill_all(self):
        for t in list(self.live):
            self.kill(t)

    # -- the hook of the fake ------------------------------------------------
    def yield_point(self, client, op, path):
        ident = threading.get_ident()
        if ident == self._main:
            # an atomic (request-granularity) action run inline by the scheduler
            self.ops += 1
            if self.on_exec is not None:
                self.on_exec(None, client, op, path)
            return
        task = self._ident.get(ident)
        if task is None:
            self.error = Stall('ZooKeeper operation %s %s from an unmanaged thread' % (op, path))
            raise self.error
        if task.kill:
            raise Killed()
        if task.first:
            task.first = False
        else:
            task.pending = (client, op, path)
            task.state = 'blocked'
            self._back.release()
            task.go.acquire()
            task.state = 'running'
            task.pending = None
            if task.kill:
                raise Killed()
        task.ops += 1
        self.ops += 1
        if self.on_exec is not None:
            try:
                self.on_exec(task, client, op, path)
            except Exception as err:    # harness error inside the oracle: surface it in the main thread
                self.error = err
                raise Killed()
