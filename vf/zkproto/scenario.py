"""Scenario generator for C17: successive containers of one instance on two
hosts, the requests their runtimes issue, auxiliary clients, fault budget.

Everything is drawn from the rng handed in; the result is a plain dict (it is
part of the replay file).  Input domain (DESIGN 1.5): proid [A-Za-z0-9_-]{2,20},
app components [\\w-]+, instance id #%010d, uniqueid 13 characters (random [a-z0-9], or base 62 zero-padded as
appcfg.gen_uniqueid / manifest_unique_name produce them), endpoint
names [a-z]+ / ports, identity 0..9.
"""

# one host name is a proper prefix of the other on purpose (hostname comparisons must be exact)
HOSTS = ('node1', 'node10')

SHAPES = {
    # host index of successive containers of the instance
    'move': (0, 1),
    'same': (0, 0),
    'pingpong': (0, 1, 0),
    'same3': (0, 0, 0),
    'move-stay': (0, 1, 1),
    'stay-move': (0, 0, 1),
}

_ALNUM = 'abcdefghijklmnopqrstuvwxyz0123456789'


def _uniq(rng):
    return ''.join(rng.choice(_ALNUM) for _ in range(13))


def instance_paths(instance, endpoints, identity_group, identity):
    """The presence nodes of a container, written from the property statement
    (/running/<instance>, /endpoints/<proid>/<rest>:<proto>:<name>,
    /identity-groups/<group>/<n>) - in registration order."""
    import sys
    proid, rest = instance.split('.', 1)
    paths = [('running', '/running/' + instance)]
    for ep in endpoints:
        name = ep.get('name', str(ep['port']))
        proto = ep.get('proto', 'tcp')
        paths.append(('endpoint', '/endpoints/%s/%s:%s:%s' % (proid, rest, proto, name)))
    if identity_group:
        ident = identity if identity is not None else sys.maxsize
        paths.append(('identity', '/identity-groups/%s/%s' % (identity_group, ident)))
    return paths


def generate(rng, tier):
    proid = rng.choice(['proid', 'tm-x', 'ab_1', 'Zz'])
    app = rng.choice(['app', 'web.fe', 'svc-1', 'a_b.c-d'])
    instno = rng.randrange(1, 5000)
    instance = '%s.%s#%010d' % (proid, app, instno)

    flip = rng.random() < 0.5
    names = list(SHAPES) + ['random', 'two-instances']
    shape = rng.choice(names)
    if shape == 'random':
        k = rng.randrange(2, 5 if tier == 'quick' else 6)
        seq = tuple(rng.randrange(2) for _ in range(k))
    elif shape == 'two-instances':
        seq = rng.choice([(0, 1), (0, 0), (0, 1, 0), (0, 0, 1)])
    else:
        seq = SHAPES[shape]
    if flip:
        seq = tuple(1 - h for h in seq)

    n_ep = rng.choice([0, 1, 1, 2])
    ep_names = rng.sample(['http', 'ssh', 'ws', 'grpc'], n_ep)
    endpoints = []
    for i, nm in enumerate(ep_names):
        ep = {'port': 8000 + i}
        if rng.random() < 0.8:
            ep['name'] = nm
        if rng.random() < 0.7:
            ep['proto'] = rng.choice(['tcp', 'tcp', 'udp'])
        endpoints.append(ep)

    identity_group = None
    identity = None
    if shape == 'two-instances' or rng.random() < 0.5:
        identity_group = '%s.%s' % (proid, rng.choice(['grp', 'ring-1']))
        identity = rng.randrange(0, 10) if rng.random() < 0.9 else None

    # the second instance of shape two-instances gets the identity the first
    # one held (the master hands an identity on once its holder is gone, the
    # old holder's clean-up on its node may still be running)
    other = '%s.%s#%010d' % (proid, app, instno + 1)

    containers = []
    for gen, h in enumerate(seq):
        inst = instance
        if shape == 'two-instances' and gen == len(seq) - 1:
            inst = other
        eps = []
        for ep in endpoints:
            ep = dict(ep)
            ep['real_port'] = rng.randrange(32768, 61000)
            eps.append(ep)
        cid = 'c%d' % gen
        name, no = inst.split('#')
        containers.append({
            'cid': cid,
            'gen': gen,
            'instance': inst,
            'host': HOSTS[h],
            'rsrc_id': '%s-%s-%s' % (name, no, _uniq(rng)),
            'endpoints': eps,
            'identity_group': identity_group,
            'identity': identity,
        })

    surplus = None
    if shape == 'two-instances' and identity_group and rng.random() < 0.4:
        # a group with fewer identities than instances: the first instance holds identity 0, the second one is a surplus
        # instance without an identity (registered under the group's placeholder node)
        for c in containers:
            c['identity'] = 0 if c['instance'] == instance else None
        surplus = [c for c in containers if c['identity'] is None]

    actions = []
    last_put = {}
    for c in containers:
        deps = []
        if c['instance'] in last_put:
            deps.append(last_put[c['instance']])
        elif containers.index(c) > 0 and shape == 'two-instances':
            # the identity is handed on only after the previous holder was started
            deps.append('put:' + containers[containers.index(c) - 1]['cid'])
        aid = 'put:' + c['cid']
        actions.append({'id': aid, 'kind': 'put', 'cid': c['cid'], 'deps': deps})
        last_put[c['instance']] = aid
    for c in containers:
        last = c is containers[-1]
        if rng.random() < (0.5 if last else 0.85):
            actions.append({'id': 'del:' + c['cid'], 'kind': 'del', 'cid': c['cid'],
                            'deps': ['put:' + c['cid']]})

    for i in range(rng.choice([0, 0, 1, 1, 2])):
        c = rng.choice(containers)
        kind = rng.choice(['unreg_running', 'unreg_endpoints', 'unreg_identity', 'unreg_all',
                           'kill_node', 'kill_node', 'unschedule', 'unschedule'])
        host = c['host'] if rng.random() < 0.75 else HOSTS[1 - HOSTS.index(c['host'])]
        actions.append({'id': 'aux%d:%s:%s:%s' % (i, kind, host, c['cid']), 'kind': kind,
                        'cid': c['cid'], 'host': host, 'deps': ['put:' + c['cid']]})

    if surplus:
        # the runtime of the identity-0 container cleans its registrations up while the surplus instance is registered
        holder = [c for c in containers if c['identity'] == 0][0]
        actions.append({'id': 'auxs:unreg_identity:%s:%s' % (holder['host'], holder['cid']), 'kind': rng.choice(['unreg_identity', 'unreg_all']),
                        'cid': holder['cid'], 'host': holder['host'],
                        'deps': ['put:' + holder['cid'], 'put:' + surplus[0]['cid']]})

    if surplus:
        # ... and a second surplus instance is registered by a runtime that talks to ZooKeeper itself (EndpointPresence
        # under its own session, as the docker runtime does) while the first one holds the placeholder
        other_host = HOSTS[1 - HOSTS.index(surplus[0]['host'])] if rng.random() < 0.7 else surplus[0]['host']
        actions.append({'id': 'auxr:reg_identity:%s:%s' % (other_host, surplus[0]['cid']), 'kind': 'reg_identity',
                        'cid': surplus[0]['cid'], 'host': other_host, 'deps': ['put:' + surplus[0]['cid']]})

    scn = {
        'shape': shape,
        'hosts': [c['host'] for c in containers],
        'containers': containers,
        'actions': actions,
        'expiries': rng.choice([0, 0, 1, 1, 1, 2]),
        'crashes': rng.choice([0, 0, 0, 1]),
        'connloss': rng.choice([0, 0, 0, 1, 2]),
        'connloss_seed': rng.getrandbits(32),
        'tail': rng.randrange(0, 12),
    }
    _more_clients(scn)
    _unique_id_forms(scn)
    return scn


TERMINAL_EVENTS = (('finished', '0.0'), ('finished', '1.0'), ('killed', 'oom'), ('aborted', 'unknown'))


def _more_clients(scn):
    """Further clients of the same nodes, in about a third of the scenarios each (drawn from a generator derived
    from the scenario, so that the scenarios without them are exactly what they were):

    * `publish_terminal`: the event daemon of a host publishes a terminal event (finished / killed / aborted) of a
      container through trace.app.zk.publish - often a stale one: an old container's event that is published after
      the newer container of the instance was placed (possibly elsewhere); one ZooKeeper request of the publish may
      fail with a connection loss (`fault_at` = its ordinal, None = no fault).
    * `reg_runtime`: a runtime that talks to ZooKeeper itself (as the docker runtime does) registers a container
      through EndpointPresence.register() under a session of its own, on the container's host or on the other one,
      while whoever registered the instance before (the host's presence service, an earlier runtime) may still hold
      the nodes; while it waits the holder may go away."""
    import random
    xr = random.Random((scn['connloss_seed'] * 2654435761 + 12345) % (1 << 32))
    containers = scn['containers']
    actions = scn['actions']
    if xr.random() < 0.35:
        for i in range(xr.choice([1, 1, 2])):
            c = xr.choice(containers)
            host = c['host'] if xr.random() < 0.7 else HOSTS[1 - HOSTS.index(c['host'])]
            deps = ['put:' + c['cid']]
            newer = [d for d in containers if d['instance'] == c['instance'] and d['gen'] > c['gen']]
            if newer and xr.random() < 0.6:
                deps.append('put:' + newer[0]['cid'])
            event, data = xr.choice(TERMINAL_EVENTS)
            actions.append({'id': 'auxp%d:publish_terminal:%s:%s' % (i, host, c['cid']), 'kind': 'publish_terminal',
                            'cid': c['cid'], 'host': host, 'deps': deps, 'event': event, 'data': data,
                            'fault_at': xr.choice([None, None, 1, 2, 3, 4, 5, 6])})
    if xr.random() < 0.35:
        for i in range(xr.choice([1, 1, 2])):
            c = xr.choice(containers)
            host = c['host'] if xr.random() < 0.7 else HOSTS[1 - HOSTS.index(c['host'])]
            deps = ['put:' + c['cid']] if xr.random() < 0.75 else []
            actions.append({'id': 'auxg%d:reg_runtime:%s:%s' % (i, host, c['cid']), 'kind': 'reg_runtime',
                            'cid': c['cid'], 'host': host, 'deps': deps, 'seed': xr.getrandbits(32)})


_BASE62 = '0123456789abcdefghijklmnopqrstuvwxyzABCDEFGHIJKLMNOPQRSTUVWXYZ'


def _unique_id_forms(scn):
    """Unique ids in the forms the product emits: appcfg.gen_uniqueid writes a number in base 62 (digits, lower and
    upper case) left-padded with zeros to 13 characters, and every request id a runtime issues is formatted by
    appcfg.manifest_unique_name / app_unique_name, which pad the id to 13 characters once more (so the unique-id part
    of a request id is never shorter than 13 characters, whatever the manifest holds).  In about a third of the
    scenarios (own generator: the rest of the scenario is what it was) the successive containers get related ids, as
    small numbers and old short manifests give them: the newer id's significant digits end in the older one's
    (00000000000a1 / 0000000000ba1), or the two differ only in the case of one letter; formatted by the product's own
    manifest_unique_name."""
    import random
    from treadmill import appcfg
    xr = random.Random((scn['connloss_seed'] * 40503 + 977) % (1 << 32))
    if xr.random() >= 0.3:
        return
    uid = ''.join(xr.choice(_BASE62[1:]) for _ in range(xr.randint(1, 6)))
    used = set()
    for c in scn['containers']:
        if used:
            if xr.random() < 0.3 and uid.swapcase() != uid and uid.swapcase() not in used:
                uid = uid.swapcase()
            else:
                uid = xr.choice(_BASE62[1:]) + uid
        used.add(uid)
        # (a manifest written by gen_uniqueid holds the padded form; an older one the bare digits: same request id)
        held = uid if xr.random() < 0.5 else '{0:>013s}'.format(uid)
        c['rsrc_id'] = appcfg.manifest_unique_name({'name': c['instance'], 'uniqueid': held})
    scn['unique_ids'] = 'related-zero-padded'


def describe(scn):
    """Short canonical description of the scenario shape (for hashing/samples)."""
    return {
        'shape': scn['shape'],
        'hosts': scn['hosts'],
        'instances': len({c['instance'] for c in scn['containers']}),
        'endpoints': len(scn['containers'][0]['endpoints']),
        'identity': scn['containers'][0]['identity_group'] is not None,
        'actions': [a['id'] for a in scn['actions']],
        'expiries': scn['expiries'],
        'crashes': scn['crashes'],
        'connloss': scn.get('connloss', 0),
        'unique_ids': scn.get('unique_ids', 'random'),
    }
