"""The C17 oracle: a reference model of *who may touch a presence node*, written
from the property statement and fed only with what crosses the ZooKeeper
boundary (each operation with the node's state at the instant it is applied,
the write log of the fake, request completions).

Nothing here reads the presence service's own bookkeeping (`impl.presence`).

Rules (mechanism keys in brackets):

R1  a `set`/`delete` a presence service applies to an existing /running/*,
    /endpoints/*/*, /identity-groups/*/* node is applied by the node's owner
    session [foreign-delete:*, foreign-set:*]; provenance: what the same
    request saw at its last read of that node.
R2  a node a presence service creates there is ephemeral and owned by the
    creating session [non-ephemeral-create].
R3  a create that met a foreign owner leaves the request either with a watch
    armed on that node or with a retry queued [lost-wakeup:*]; (that it left
    the node untouched is R1).
R4  the delete of container c removes no node that a still-open *newer*
    container registered after/with it [cleanup-deletes-newer-container:*].
R5  auxiliary clients: EndpointPresence.unregister_* removes only nodes whose
    content names its hostname [aux-deletes-other-hosts-node:*]; _unschedule
    removes /scheduled/<instance> only while /placement/<host>/<instance>
    exists [unschedule-without-placement].
R5b a runtime that registers a container itself (EndpointPresence.register under
    its own session) applies no set/delete to a presence node another session
    owns [runtime-registration-(set|delete)s-foreign-node]; a terminal event
    published through trace.app.zk.publish is under R5's _unschedule rule, also
    when one request of the publish fails with a connection loss.
R6  bounded progress, evaluated by the world at quiescence [stuck-request:*,
    no-quiescence-after-faults-stop].
"""
import json
import re

PRESENCE_RE = re.compile(r'^/(running/[^/]+|endpoints/[^/]+/[^/]+|identity-groups/[^/]+/[^/]+)$')


def is_presence_path(path):
    return PRESENCE_RE.match(path) is not None


def node_host(path, data):
    """Hostname recorded in a presence node (None when unreadable)."""
    try:
        text = data.decode()
        if path.startswith('/running/'):
            return text
        if path.startswith('/endpoints/'):
            return text.split(':')[0]
        return json.loads(text).get('host')
    except (ValueError, AttributeError, UnicodeDecodeError):
        return None


class Oracle:
    def __init__(self, srv, containers, count, report):
        self.srv = srv
        self.cont = containers          # rsrc_id -> dict(gen, instance, host, open, ...)
        self.count = count              # count(name, n=1)
        self.report = report            # report(mechanism, message, witness)
        self.claims = {}                # path -> [rsrc_id, ...] registration order, current node incarnation
        self.log_pos = 0
        self.cur = None                 # the task whose step is being executed (None = inline action)
        self.history = []               # (step, actor, op, path, owner-before) of presence paths (tail kept)

    # -- helpers ------------------------------------------------------------
    def _note(self, actor, op, path, owner):
        self.history.append((len(self.history), actor, op, path, '%#x' % owner if owner else owner))

    def tail(self, n=40):
        return [list(h) for h in self.history[-n:]]

    # -- before an operation is applied ---------------------------------------
    def pre_op(self, task, client, op, path):
        self.cur = task
        actor = getattr(client, 'vf_actor', ('harness',))
        if actor[0] == 'unsched':
            self._pre_unschedule(actor, op, path)
            return
        if not is_presence_path(path):
            return
        node = self.srv.nodes.get(path)
        owner = node.owner if node is not None else None
        if actor[0] == 'svc':
            self._pre_service(task, client, actor, op, path, node, owner)
        elif actor[0] == 'aux':
            if actor[2] == 'reg_runtime':
                # a runtime registering a container under its own session: it creates its nodes; a node another
                # session owns it neither changes nor deletes - it waits for it to go away
                self._note('aux:%s:%s' % (actor[2], actor[1]), op, path, owner)
                if op == 'create' and node is not None and owner not in (None, client.sid):
                    self.count('runtime_registration_create_met_foreign_owner')
                if op in ('set', 'delete', 'set_acls') and node is not None and owner not in (None, client.sid):
                    self.report('runtime-registration-%ss-foreign-node' % ('delete' if op == 'delete' else 'set'),
                                'a runtime on %s registering container %s under its own session %#x applies %s to %s, '
                                'which session %#x owns (content %r)' % (
                                    actor[1], actor[3], client.sid, op, path, owner, node.data.decode('latin1')),
                                dict(path=path, op=op, acting_for=actor[1], owner=owner, issuer=client.sid,
                                     data=node.data.decode('latin1')))
                return
            if actor[2] == 'reg_identity':
                # a runtime registering under its own session: it creates its node, it never rewrites or removes a
                # node another session holds
                self._note('aux:%s:%s' % (actor[2], actor[1]), op, path, owner)
                if op in ('set', 'delete', 'set_acls') and node is not None and owner not in (None, client.sid):
                    self.report('aux-rewrites-foreign-node:reg_identity',
                                'a runtime on %s registering an identity-less instance applies %s to %s, which session %#x owns' % (
                                    actor[1], op, path, owner),
                                dict(path=path, op=op, acting_for=actor[1], data=node.data.decode('latin1')))
                return
            self._pre_aux(actor, op, path, node, owner)

    def _pre_service(self, task, client, actor, op, path, node, owner):
        sid = client.sid
        name = '%s/%s' % (actor[1], task.name if task is not None else 'inline')
        self._note(name, op, path, owner)
        meta = task.meta if task is not None else {}
        seen = meta.setdefault('seen_owner', {})
        if op == 'get':
            seen[path] = owner
            if (meta.get('ev') in ('created', 'modified') and meta.get('exists_at') == path
                    and node is not None and owner == sid):
                # _safe_create found its own node: the request (re-)registers it
                meta['exists_at'] = None
                lst = self.claims.setdefault(path, [])
                if meta['rid'] in lst:
                    lst.remove(meta['rid'])
                lst.append(meta['rid'])
                self.count('create_met_own_node')
            elif meta.get('exists_at') == path:
                meta['exists_at'] = None
            return
        if op == 'create':
            if node is not None:
                meta['exists_at'] = path
                meta['met_at'] = path
                if owner != sid:
                    self.count('create_met_foreign_owner')
                    meta['blocked_on'] = (path, node.czxid)
            return
        if op not in ('set', 'delete') or node is None:
            return
        self.count('owner_checks')
        if op == 'delete':
            done = meta.setdefault('deletes_applied', {})
            again = done.get(path, 0)
            done[path] = again + 1
        else:
            again = 0
        if owner != sid:
            why = 'owner-changed-after-check' if seen.get(path) == sid else 'not-owner-at-check'
            if again:
                # this request already deleted the node once: it deletes whatever took its place without a new check
                why = 'deleted-again-without-a-new-check'
            self.report(
                'foreign-%s:%s' % (op, why),
                'presence service of %s (session %#x) applies %s to %s while session %#x owns it '
                '(at its last read of the node in this request the owner was %s)' % (
                    actor[1], sid, op, path, owner,
                    'itself' if seen.get(path) == sid else
                    ('%#x' % seen[path] if seen.get(path) else 'not read / absent')),
                dict(path=path, op=op, issuer=sid, owner=owner, request=name,
                     data=node.data.decode('latin1')))
            return
        self.count('%ss_by_owner' % op)
        if op == 'delete' and meta.get('ev') == 'deleted':
            self._check_cleanup(actor, name, meta['rid'], path)

    def _check_cleanup(self, actor, name, rid_old, path):
        old = self.cont.get(rid_old)
        if old is None:
            return
        lst = self.claims.get(path, [])
        newer = [r for r in lst if r != rid_old and self.cont[r]['open'] and self.cont[r]['gen'] > old['gen']]
        if not newer:
            return
        new = self.cont[newer[-1]]
        rel = 'same-instance' if new['instance'] == old['instance'] else 'other-instance'
        if rid_old in lst and lst.index(rid_old) > lst.index(newer[-1]):
            how = 'old-reregistered-after-newer'
        else:
            how = 'newer-registered-last'
        self.report(
            'cleanup-deletes-newer-container:%s:%s' % (rel, how),
            'delete request of container %s (generation %d) on %s deletes %s, which the still-open newer '
            'container %s (generation %d) registered; registration order on this node: %s' % (
                old['cid'], old['gen'], actor[1], path, new['cid'], new['gen'],
                [self.cont[r]['cid'] for r in lst]),
            dict(path=path, request=name, old=old['cid'], newer=new['cid'],
                 registration_order=[self.cont[r]['cid'] for r in lst]))

    def _pre_aux(self, actor, op, path, node, owner):
        self._note('aux:%s:%s' % (actor[2], actor[1]), op, path, owner)
        if op not in ('set', 'delete') or node is None:
            return
        self.count('aux_mutations')
        if path.startswith('/identity-groups/') and len(actor) > 3:
            # the clean-up of a container's identity registration concerns that container's identity node only (an
            # identity-less container is registered under the group's placeholder node)
            mine = [c for c in self.cont.values() if c['cid'] == actor[3]]
            if mine and mine[0].get('identity_group'):
                import sys as _sys
                ident = mine[0]['identity'] if mine[0]['identity'] is not None else _sys.maxsize
                want = '/identity-groups/%s/%s' % (mine[0]['identity_group'], ident)
                self.count('aux_identity_cleanups_checked')
                if path != want:
                    self.report('aux-touches-other-identity-node:%s' % actor[2],
                                'the clean-up of container %s (identity %r of %s) on %s applies %s to %s (owner session %#x)' % (
                                    actor[3], mine[0]['identity'], mine[0]['identity_group'], actor[1], op, path, owner or 0),
                                dict(path=path, op=op, acting_for=actor[1], data=node.data.decode('latin1')))
                    return
        host = node_host(path, node.data)
        if host != actor[1]:
            self.report(
                'aux-deletes-other-hosts-node:%s' % actor[2],
                '%s acting for host %s applies %s to %s whose content names host %r' % (
                    actor[2], actor[1], op, path, host),
                dict(path=path, op=op, acting_for=actor[1], data=node.data.decode('latin1')))

    def _pre_unschedule(self, actor, op, path):
        if op != 'delete' or not path.startswith('/scheduled/'):
            return
        if path not in self.srv.nodes:
            return
        self.count('unschedule_deletes')
        inst = path[len('/scheduled/'):]
        if '/placement/%s/%s' % (actor[1], inst) not in self.srv.nodes:
            self.report(
                'unschedule-without-placement',
                '_unschedule on %s deletes %s although /placement/%s/%s does not exist' % (
                    actor[1], path, actor[1], inst),
                dict(path=path, host=actor[1]))

    # -- after a step: consume the write log -------------------------------------
    def after_step(self, svc_sids):
        log = self.srv.log
        task = self.cur
        while self.log_pos < len(log):
            _zxid, sid, op, path, _value = log[self.log_pos]
            self.log_pos += 1
            if not is_presence_path(path):
                continue
            if op in ('delete', 'expire'):
                self.claims.pop(path, None)
                continue
            if op == 'create' and sid in svc_sids:
                node = self.srv.nodes.get(path)
                self.count('ephemeral_creates_checked')
                if node is not None and node.owner != sid:
                    self.report(
                        'non-ephemeral-create',
                        'presence service (session %#x) created %s with owner %#x (not an ephemeral node of '
                        'its own session)' % (sid, path, node.owner),
                        dict(path=path, owner=node.owner, creator=sid))
                if task is not None and task.meta.get('ev') in ('created', 'modified'):
                    self.claims[path] = [task.meta['rid']]
        self.cur = None

    # -- reach of R4 / R1: an old clean-up that ran next to a newer registration ---
    def newer_registered(self, rid_old):
        """{path: rsrc_id} of nodes currently registered by a still-open newer
        container than rid_old (any host)."""
        old = self.cont[rid_old]
        out = {}
        for path, lst in self.claims.items():
            for r in lst:
                c = self.cont[r]
                if r != rid_old and c['open'] and c['gen'] > old['gen'] and path in self.srv.nodes:
                    out[path] = r
        return out

    def cleanup_end(self, proc, task):
        rid_old = task.meta['rid']
        if rid_old not in self.cont:
            return
        before = task.meta.get('newer_at_start') or {}
        if not before:
            return
        same = [p for p, r in before.items() if self.cont[r]['host'] == proc.host.name]
        other = [p for p, r in before.items() if self.cont[r]['host'] != proc.host.name]
        if same:
            self.count('old_cleanup_next_to_newer_same_host')
        if other:
            self.count('old_cleanup_next_to_newer_other_host')
        self.count('newer_nodes_survived_old_cleanup',
                   sum(1 for p in before if p in self.srv.nodes and before[p] in self.claims.get(p, [])))

    # -- a create request came back without a reply (R3) ----------------------
    def check_wakeup(self, proc, task, live_tasks):
        blocked = task.meta.get('blocked_on')
        if blocked is None:
            return
        path, _czxid = blocked
        rid = task.meta['rid']
        self.count('waits')
        armed = any(c is proc.zk for c, _cb in self.srv.data_watches.get(path, []))
        queued = any(r == rid and k in ('modified', 'created') for k, r in proc.inbox)
        pending = any(getattr(getattr(cb, '__self__', None), '_path', None) == path for cb, _ev in proc.wq)
        running = any(t.owner is proc and t.kind in ('watch', 'spawn') and t.meta.get('path') == path
                      for t in live_tasks)
        if armed:
            self.count('waits_with_watch_armed')
        if not (armed or queued or pending or running):
            self.report(
                'lost-wakeup:no-watch-after-foreign-owner',
                'create request %s on %s met a foreign owner at %s and ended with neither a watch armed on the '
                'node nor a retry queued' % (self.cont[rid]['cid'], proc.host.name, path),
                dict(path=path, request=task.name))
