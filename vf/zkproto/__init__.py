"""ZooKeeper-protocol checks (DESIGN section 5): C17 presence under a controlled
scheduler (sched.py, world.py, oracle.py, scenario.py)."""
