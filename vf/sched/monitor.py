"""Recording wrappers installed from the harness on the real scheduler classes
(DESIGN 1.1).  They only *observe*: every wrapper calls the original and
returns its result.  They feed reach counters and mechanism keys; verdicts
use before/after state."""
import collections
import functools


class Monitors:
    def __init__(self):
        self.counters = collections.Counter()
        self.ctx = None            # 'load' while the harness mirrors loader.restore_placement
        self.in_cycle = False
        self.reset_cycle()
        self._installed = False

    def count(self, name, n=1):
        self.counters[name] += n

    def reset_cycle(self):
        self.queues = []           # one per _find_placements call
        self.events = []           # put / remove / evict records of this cycle
        self.placing = None
        self.walk_depth = 0
        self.restoring = 0
        self.tracker_consulted = 0
        self.tracker_rejected = []

    def install(self):
        if self._installed:
            return
        self._installed = True
        from treadmill import scheduler as s
        mon = self

        orig_find = s.Cell._find_placements

        @functools.wraps(orig_find)
        def find(self_, queue, servers, *a, **kw):
            mon.queues.append([
                dict(name=a.name, rank=a.final_rank, util=a.final_util,
                     server=a.server, prio=a.priority, renew=a.renew,
                     identity=a.identity)
                for a in queue])
            mon.in_cycle = True
            try:
                return orig_find(self_, queue, servers, *a, **kw)
            finally:
                mon.in_cycle = False
                mon.placing = None
        s.Cell._find_placements = find

        orig_bput = s.Bucket.put

        @functools.wraps(orig_bput)
        def bput(self_, app, *a, **kw):
            mon.walk_depth += 1
            try:
                return orig_bput(self_, app, *a, **kw)
            finally:
                mon.walk_depth -= 1
        s.Bucket.put = bput

        orig_sput = s.Server.put

        @functools.wraps(orig_sput)
        def sput(self_, app, *a, **kw):
            ok = orig_sput(self_, app, *a, **kw)
            if mon.restoring:
                via = 'restore'
            elif mon.walk_depth:
                via = 'walk'
            elif mon.in_cycle:
                via = 'evict'
            else:
                via = mon.ctx or 'load'
            if ok:
                mon.events.append(dict(t='put', app=app.name, server=self_.name, via=via))
                mon.counters['put_' + via] += 1
                if mon.placing == app.name:
                    mon.placing = None
            return ok
        s.Server.put = sput

        orig_restore = s.Server.restore

        @functools.wraps(orig_restore)
        def srestore(self_, app, *a, **kw):
            mon.restoring += 1
            try:
                ok = orig_restore(self_, app, *a, **kw)
            finally:
                mon.restoring -= 1
            if mon.in_cycle:
                mon.counters['restore_ok' if ok else 'restore_failed'] += 1
            return ok
        s.Server.restore = srestore

        orig_remove = s.Server.remove

        @functools.wraps(orig_remove)
        def sremove(self_, app_name, *a, **kw):
            if mon.in_cycle and mon.placing is not None and mon.placing != app_name:
                mon.events.append(dict(t='evict', victim=app_name, server=self_.name,
                                       state=self_.state.value, **{'for': mon.placing}))
                mon.counters['evictions'] += 1
            else:
                mon.events.append(dict(t='remove', app=app_name, server=self_.name))
            return orig_remove(self_, app_name, *a, **kw)
        s.Server.remove = sremove

        orig_renew = s.Server.renew

        @functools.wraps(orig_renew)
        def srenew(self_, app, *a, **kw):
            ok = orig_renew(self_, app, *a, **kw)
            mon.counters['renew_ok' if ok else 'renew_failed'] += 1
            mon.events.append(dict(t='renew', app=app.name, server=self_.name, ok=ok))
            return ok
        s.Server.renew = srenew

        orig_feasible = s.PlacementFeasibilityTracker.feasible

        @functools.wraps(orig_feasible)
        def feasible(self_, app, *a, **kw):
            ok = orig_feasible(self_, app, *a, **kw)
            if self_.recorder:
                mon.tracker_consulted += 1
                mon.counters['tracker_consulted'] += 1
            if ok:
                mon.placing = app.name
            else:
                mon.tracker_rejected.append(app.name)
                mon.counters['tracker_rejected'] += 1
            return ok
        s.PlacementFeasibilityTracker.feasible = feasible

        orig_adjust = s.PlacementFeasibilityTracker.adjust

        @functools.wraps(orig_adjust)
        def adjust(self_, app, *a, **kw):
            if mon.placing == app.name:
                mon.placing = None
            return orig_adjust(self_, app, *a, **kw)
        s.PlacementFeasibilityTracker.adjust = adjust

        orig_release = s.Application.release_identity

        @functools.wraps(orig_release)
        def release(self_, *a, **kw):
            if mon.placing == self_.name:
                mon.placing = None
            return orig_release(self_, *a, **kw)
        s.Application.release_identity = release
