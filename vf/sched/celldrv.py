"""Cell-level driver: generated histories executed on a real scheduler.Cell,
mirroring the call sequences of scheduler.loader (DESIGN 2.1).

The harness keeps its own model `H` (what it asked for, at which virtual
time); oracles (vf.sched.oracles) are computed from H plus the observables
the properties name (schedule() tuples, Cell.members(), queue captured at
_find_placements)."""
import copy

from .. import env

LEVEL_NAMES = ['pod', 'rack']          # bucket levels below the cell
UNITS_MEM = [('%dM', 1), ('%dm', 1), (' %dM ', 1)]


def spell_mem(rng, mb):
    """A spelling of `mb` megabytes (equivalence classes of C01)."""
    c = rng.randrange(6)
    if c == 0:
        return '%dM' % mb
    if c == 1:
        return '%dK' % (mb * 1024)
    if c == 2:
        return '%dm' % mb
    if c == 3 and mb % 1024 == 0 and mb > 0:
        return '%dG' % (mb // 1024)
    if c == 4:
        return ' %dM ' % mb
    return '%dM' % mb


def spell_cap(rng, mb, spell=None):
    """A spelling of a *capacity* of `mb` megabytes.  A capacity written in K
    that is not a whole number of megabytes counts as the whole megabytes it
    contains (the model's resolution is 1M; a capacity must never be
    overstated)."""
    if mb > 0 and rng.random() < 0.12:
        return '%dK' % (mb * 1024 + rng.choice([1, 511, 512, 1023, rng.randrange(1, 1024)]))
    return (spell or spell_mem)(rng, mb)


def spell_cpu(rng, cpu):
    c = rng.randrange(4)
    if c == 0:
        return '%d%%' % cpu
    if c == 1:
        return cpu
    if c == 2:
        return '%d' % cpu
    return ' %d%% ' % cpu


class Profile:
    """Generator knobs; each property's check picks emphasis."""

    def __init__(self, **kw):
        self.max_servers = 8
        self.depths = (0, 1, 2)
        self.partitions = 2
        self.n_ops = (10, 25)
        self.pressure = (1.0, 2.2)      # total demand / total capacity target
        self.p_limits = 0.5
        self.p_identity = 0.35
        self.p_traits = 0.4
        self.p_lease = 0.35
        self.p_cycle = 0.55
        self.p_renew = 0.1
        self.weights = None
        self.alloc_depth = 2
        self.__dict__.update(kw)


DEFAULT_WEIGHTS = {
    'add_app': 10, 'del_app': 4, 'prio': 3, 'move_app': 2,
    'add_server': 2, 'del_server': 2, 'replace_server': 3,
    'down': 4, 'up': 4, 'freeze': 2, 'blacklist': 2, 'unblacklist': 1,
    'renew': 2, 'group': 3, 'del_group': 1, 'alloc_update': 2, 'clock': 5,
    'reload_cell': 1, 'regroup': 1, 'valid_until': 2,
}


class HModel:
    """Harness-side record of what was asked."""

    def __init__(self):
        self.servers = {}      # name -> dict(cap, label, traits, parent, valid_until, state, since_lo, since_hi)
        self.buckets = {}      # name -> dict(level, parent)
        self.apps = {}         # name -> dict(...)
        self.groups = {}       # name -> count
        self.allocs = {}       # (label, path tuple) -> dict(reserved, rank, adj, maxutil, traits)
        self.affinities = {}   # affinity name -> limits dict
        self.seq = 0
        self.labels = []
        self.trait_bits = []

    def snapshot(self):
        return copy.deepcopy(self)


class CellDriver:
    def __init__(self, rng, profile, clock, monitors):
        from treadmill import scheduler
        from treadmill.scheduler import loader
        self.sch = scheduler
        self.loader = loader
        scheduler.DIMENSION_COUNT = 3
        self.rng = rng
        self.pf = profile
        self.clock = clock
        self.mon = monitors
        self.H = HModel()
        self.cell = scheduler.Cell('top')
        self.bucket_objs = {}
        self.ops = []          # executed operation log (JSON-able)
        self.alloc_objs = {}
        self.nseq = 0
        self.pending_unsched = set()

    # ------------------------------------------------------------------
    # topology
    def build(self):
        rng, H = self.rng, self.H
        nlabels = rng.randint(1, self.pf.partitions)
        H.labels = ['_default'] + ['part%d' % i for i in range(1, nlabels)]
        H.trait_bits = [2, 4, 8, 16][:rng.randint(0, 4)] if rng.random() < self.pf.p_traits else []
        depth = rng.choice(self.pf.depths)
        self.depth = depth
        parents = []
        if depth == 0:
            parents = [None]
        elif depth == 1:
            for r in range(rng.randint(1, 3)):
                parents.append(self._add_bucket('rack:r%d' % r, 'rack', None))
        else:
            r = 0
            for p in range(rng.randint(1, 2)):
                pod = self._add_bucket('pod:p%d' % p, 'pod', None)
                for _ in range(rng.randint(1, 2)):
                    parents.append(self._add_bucket('rack:r%d' % r, 'rack', pod))
                    r += 1
        self.leaf_parents = parents
        for label in H.labels:
            self.cell.partitions[label] = self.sch.Partition(label=label)
            root = self.cell.partitions[label].allocation
            self.alloc_objs[(label, ())] = root
            H.allocs[(label, ())] = dict(reserved=[0, 0, 0], rank=100, adj=0,
                                         maxutil=None, traits=0)
            self._gen_alloc_tree(label, (), 0)
        for _ in range(rng.randint(2, self.pf.max_servers)):
            self.op_add_server()
        for g in range(rng.randint(0, 2)):
            if rng.random() < self.pf.p_identity * 2:
                self.op_group('g%d' % g, rng.randint(0, 4))

    def _add_bucket(self, name, level, parent):
        b = self.sch.Bucket(name, level=level)
        if parent is None:
            self.cell.add_node(b)
        else:
            self.bucket_objs[parent].add_node(b)
        self.bucket_objs[name] = b
        self.H.buckets[name] = dict(level=level, parent=parent)
        return name

    def _gen_alloc_tree(self, label, path, depth):
        rng = self.rng
        if depth >= self.pf.alloc_depth:
            return
        for i in range(rng.randint(0, 2 if depth else 3)):
            sub = path + ('a%d' % i,)
            parent = self.alloc_objs[(label, path)]
            alloc = parent.get_sub_alloc(sub[-1])
            spec = self._gen_alloc_spec()
            alloc.update(list(spec['reserved']), spec['rank'], spec['adj'], spec['maxutil'])
            alloc.set_traits(spec['traits'])
            self.alloc_objs[(label, sub)] = alloc
            self.H.allocs[(label, sub)] = spec
            self._gen_alloc_tree(label, sub, depth + 1)

    def _gen_alloc_spec(self):
        rng = self.rng
        reserved = [rng.choice([0, 0, 2, 4, 8, 16]) for _ in range(3)]
        if rng.random() < 0.3:
            reserved = [0, 0, 0]
        rank = rng.choice([100, 100, 100, 50, 80, 120, 0])
        adj = rng.choice([0, 0, 10, 20, min(rank, 50)])
        if rng.random() >= 0.15:
            adj = min(adj, rank)            # (1 allocation in 7: the adjustment may exceed the rank - both are 0..100 by the schema)
        maxutil = rng.choice([None, None, None, 100, 2, 1.5, 1, 0.5, 0])
        traits = 0
        if self.H.trait_bits and rng.random() < 0.2:
            traits = rng.choice(self.H.trait_bits)
        return dict(reserved=reserved, rank=rank, adj=adj, maxutil=maxutil, traits=traits)

    # ------------------------------------------------------------------
    # spec generators
    def gen_cap(self):
        rng = self.rng
        return [rng.choice([4, 6, 8, 10, 12, 16]) for _ in range(3)]

    def gen_server_spec(self, name=None):
        rng, H = self.rng, self.H
        if name is None:
            name = 's%d' % self._next()
        traits = 0
        for b in H.trait_bits:
            if rng.random() < 0.5:
                traits |= b
        now = self.clock.peek()
        vu = now + rng.choice([40, 90, 150, 300, 1000, 5000])
        return dict(name=name, cap=self.gen_cap(), label=rng.choice(H.labels),
                    traits=traits, parent=rng.choice(self.leaf_parents),
                    valid_until=vu)

    def _next(self):
        self.nseq += 1
        return self.nseq

    def gen_affinity(self):
        rng, H = self.rng, self.H
        retired = [a for a in sorted(H.affinities) if H.affinities[a] and
                   not any(ha['affinity'] == a for ha in H.apps.values())]
        if retired and rng.random() < 0.35:
            # every instance of the affinity is gone: the application comes back with its limits on other levels
            name = rng.choice(retired)
            vals = list(H.affinities[name].values())
            rng.shuffle(vals)
            H.affinities[name] = dict(zip(rng.sample(['server', 'rack', 'pod', 'cell'], len(vals)), vals))
            self.mon.count('affinity_back_with_other_limit_levels')
            return name, H.affinities[name]
        if H.affinities and rng.random() < 0.7:
            name = rng.choice(sorted(H.affinities))
            return name, H.affinities[name]
        name = 'aff%d' % self._next()
        limits = {}
        if rng.random() < self.pf.p_limits:
            levels = ['server', 'rack', 'pod', 'cell']
            for lv in levels:
                if rng.random() < 0.45:
                    limits[lv] = rng.choice([1, 1, 2, 2, 3, 4])
        H.affinities[name] = limits
        return name, limits

    def gen_app_spec(self):
        rng, H = self.rng, self.H
        proid = rng.choice(['foo', 'bar', 'baz'])
        name = '%s.app%d#%010d' % (proid, rng.randint(0, 3), self._next())
        aff, limits = self.gen_affinity()
        demand = [rng.choice([0, 1, 1, 2, 2, 3, 4, 6]) for _ in range(3)]
        traits = 0
        if H.trait_bits and rng.random() < 0.25:
            traits = rng.choice(H.trait_bits + [1])     # 1 == INVALID bit
        group = None
        if rng.random() < self.pf.p_identity:
            group = rng.choice(['g0', 'g1', 'g2'])
        lease = 0
        if rng.random() < self.pf.p_lease:
            lease = rng.choice([20, 60, 100, 200, 600])
        return dict(
            name=name, demand=demand,
            priority=rng.choice([0, 0, 1, 1, 5, 10, 10, 50, 100]),
            affinity=aff, limits=dict(limits), lease=lease,
            retention=rng.choice([None, 0, 0, 5, 30, 100]),
            group=group, once=rng.random() < 0.12, traits=traits,
            alloc=self.gen_alloc_key(), blacklisted=False, seq=self._next())

    def gen_alloc_key(self):
        return self.rng.choice(sorted(self.H.allocs))

    # ------------------------------------------------------------------
    # operations (each mirrors what scheduler.loader does to the cell)
    def op_add_server(self, spec=None):
        spec = spec or self.gen_server_spec()
        rng = self.rng
        data = {'memory': spell_cap(rng, spec['cap'][0]),
                'cpu': spell_cpu(rng, spec['cap'][1]),
                'disk': spell_cap(rng, spec['cap'][2])}
        cap = self.loader.resources(data)
        self.mon.count('spelling_server')
        srv = self.sch.Server(spec['name'], cap, valid_until=spec['valid_until'],
                              traits=spec['traits'], label=spec['label'])
        parent = self.bucket_objs[spec['parent']] if spec['parent'] else self.cell
        parent.add_node(srv)
        t = self.clock.peek()
        self.H.servers[spec['name']] = dict(
            cap=list(spec['cap']), label=spec['label'], traits=spec['traits'],
            parent=spec['parent'], valid_until=spec['valid_until'], state='up',
            since_lo=t, since_hi=t, spelled=data, unsched=set())
        self.ops.append(('add_server', dict(spec, spelled=data)))
        return spec['name']

    def _server_obj(self, name):
        return self.cell.members().get(name)

    def op_del_server(self, name):
        srv = self._server_obj(name)
        # loader.remove_server
        srv.remove_all()
        srv.parent.remove_node(srv)
        del self.H.servers[name]
        self.ops.append(('del_server', name))

    def op_detach_server(self, name):
        """The server's node is taken out of the tree while instances are still
        on it (Cell._fix_invalid_placements exists for exactly this: "app is
        placed on non-existent server")."""
        srv = self._server_obj(name)
        srv.parent.remove_node(srv)
        del self.H.servers[name]
        self.mon.count('detach_populated' if srv.apps else 'detach_empty')
        self.ops.append(('detach_server', name))

    def op_replace_server(self, name, spec):
        """loader.reload_server with a modified record: remove, load as new,
        restore_placement(restore_identity=False) (presence newer than the
        placement => Server.put, else Server.restore with stored expiry)."""
        srv = self._server_obj(name)
        old = self.H.servers[name]
        placed = [(a.name, a.placement_expiry) for a in srv.apps.values()]
        use_restore = self.rng.random() < 0.5
        srv.remove_all()
        srv.parent.remove_node(srv)
        del self.H.servers[name]
        self.op_add_server(spec)
        self.ops[-1] = ('replace_server', name, self.ops[-1][1], use_restore)
        new = self._server_obj(name)
        # keep the state the old record had (adjust_server_state re-reads it)
        if old['state'] != 'up':
            new.set_state(self.sch.State(old['state']), old['since_lo'])
            self.H.servers[name].update(state=old['state'], since_lo=old['since_lo'],
                                        since_hi=old['since_hi'])
        self.mon.ctx = 'load'
        try:
            for appname, expiry in placed:
                app = self.cell.apps.get(appname)
                if app is None:
                    continue
                if use_restore:
                    ok = new.restore(app, expiry)
                else:
                    ok = (not app.schedule_once) and new.put(app)
                self.mon.count('reload_restore_ok' if ok else 'reload_restore_failed')
        finally:
            self.mon.ctx = None

    def op_state(self, name, state, unsched=()):
        srv = self._server_obj(name)
        h = self.H.servers[name]
        if state == 'frozen':
            # master._freeze_server
            for appname in unsched:
                app = srv.apps.get(appname)
                if app is not None:
                    app.unschedule = True
                    h['unsched'].add(appname)
        lo = self.clock.peek()
        if h['state'] != state:
            srv.state = self.sch.State(state)
            hi = self.clock.peek()
            h.update(state=state, since_lo=lo, since_hi=hi)
        self.ops.append(('state', name, state, sorted(unsched)))

    def op_add_app(self, spec=None):
        spec = spec or self.gen_app_spec()
        rng = self.rng
        data = {'memory': spell_mem(rng, spec['demand'][0]),
                'cpu': spell_cpu(rng, spec['demand'][1]),
                'disk': spell_mem(rng, spec['demand'][2])}
        demand = self.loader.resources(data)
        self.mon.count('spelling_app')
        app = self.sch.Application(
            spec['name'], spec['priority'], demand, affinity=spec['affinity'],
            affinity_limits=dict(spec['limits']) or None,
            data_retention_timeout=spec['retention'], lease=spec['lease'],
            identity_group=spec['group'], traits=spec['traits'],
            schedule_once=spec['once'])
        self.cell.add_app(self.alloc_objs[spec['alloc']], app)
        self.H.apps[spec['name']] = dict(spec, spelled=data)
        self.ops.append(('add_app', dict(spec, spelled=data)))
        return spec['name']

    def op_del_app(self, name):
        self.cell.remove_app(name)
        del self.H.apps[name]
        for h in self.H.servers.values():
            h['unsched'].discard(name)
        self.ops.append(('del_app', name))

    def op_prio(self, name, prio):
        self.cell.apps[name].priority = prio       # loader.load_app on existing app
        self.H.apps[name]['priority'] = prio
        self.ops.append(('prio', name, prio))

    def op_move_app(self, name, key):
        app = self.cell.apps[name]
        self.cell.add_app(self.alloc_objs[key], app)   # loader.load_app
        self.H.apps[name]['alloc'] = key
        self.H.apps[name]['moved'] = True
        self.ops.append(('move_app', name, list(key)))

    def op_blacklist(self, name, flag):
        self.cell.apps[name].blacklisted = flag
        self.H.apps[name]['blacklisted'] = flag
        self.ops.append(('blacklist', name, flag))

    def op_group(self, name, count):
        self.cell.configure_identity_group(name, count)
        self.H.groups[name] = count
        self.ops.append(('group', name, count))

    def op_del_group(self, name):
        self.cell.remove_identity_group(name)
        self.H.groups.pop(name, None)
        self.ops.append(('del_group', name))

    def op_alloc_update(self, key, spec, force=False):
        a = self.alloc_objs[key]
        a.update(list(spec['reserved']), spec['rank'], spec['adj'], spec['maxutil'])
        h = self.H.allocs[key]
        h.update(reserved=spec['reserved'], rank=spec['rank'], adj=spec['adj'],
                 maxutil=spec['maxutil'])
        if spec.get('traits') is not None and spec['traits'] != h['traits'] and (force or self.rng.random() < 0.7):
            # loader.load_allocations changes the required traits of the existing Allocation object in place and
            # the 'allocations' event re-loads every instance (load_apps -> cell.add_app with its assignment)
            a.set_traits(spec['traits'])
            h['traits'] = spec['traits']
            for name in sorted(self.cell.apps):
                app = self.cell.apps[name]
                akey = (self.H.apps[name]['alloc'][0], tuple(self.H.apps[name]['alloc'][1]))
                self.cell.add_app(self.alloc_objs[akey], app)
                if akey == key:
                    self.H.apps[name]['moved'] = True
            self.mon.count('allocation_traits_changed_in_place')
        else:
            spec = dict(spec, traits=h['traits'])
        self.ops.append(('alloc_update', list(key), spec))

    def op_reload_cell(self):
        """loader.load_cell (the master's 'cell' event): reset the cell's
        children and attach the top-level buckets again."""
        tops = [b for b, h in self.H.buckets.items() if h['parent'] is None]
        if not tops:
            return
        self.cell.reset_children()
        for b in tops:
            self.cell.add_node(self.bucket_objs[b])
        self.ops.append(('reload_cell',))

    def op_clock(self, dt):
        self.clock.advance(dt)
        self.ops.append(('clock', dt))

    def op_renew(self, name):
        self.cell.apps[name].renew = True
        self.ops.append(('renew', name))

    # ------------------------------------------------------------------
    def placed_names(self):
        return [n for n, a in self.cell.apps.items() if a.server]

    def random_op(self):
        rng, H = self.rng, self.H
        w = dict(DEFAULT_WEIGHTS)
        if self.pf.weights:
            w.update(self.pf.weights)
        names = sorted(w)
        kind = rng.choices(names, [w[n] for n in names])[0]
        apps = sorted(H.apps)
        servers = sorted(H.servers)
        if kind == 'add_app':
            n = rng.choice([1, 1, 1, 2, 3, 4])
            base = None
            for _ in range(n):
                spec = self.gen_app_spec()
                if base is not None and rng.random() < 0.6:
                    # siblings: same shape (affinity, lease, alloc), varied demand
                    spec.update(affinity=base['affinity'], limits=dict(base['limits']),
                                lease=base['lease'], alloc=base['alloc'])
                    if rng.random() < 0.5:
                        spec['demand'] = list(base['demand'])
                base = spec
                self.op_add_app(spec)
        elif kind == 'del_app' and apps:
            self.op_del_app(rng.choice(apps))
        elif kind == 'prio' and apps:
            self.op_prio(rng.choice(apps), rng.choice([0, 1, 5, 10, 50, 100]))
        elif kind == 'move_app' and apps:
            name = rng.choice(apps)
            self.op_move_app(name, self.gen_alloc_key())
            if rng.random() < 0.3:
                # deleted right after its assignment moved, before a cycle has looked at the placement
                self.op_del_app(name)
        elif kind == 'add_server' and len(servers) < self.pf.max_servers + 3:
            self.op_add_server()
        elif kind == 'del_server' and len(servers) > 1:
            if rng.random() < 0.3:
                self.op_detach_server(rng.choice(servers))
            else:
                self.op_del_server(rng.choice(servers))
        elif kind == 'replace_server' and servers:
            name = rng.choice(servers)
            old = H.servers[name]
            spec = dict(name=name, cap=list(old['cap']), label=old['label'],
                        traits=old['traits'], parent=old['parent'],
                        valid_until=old['valid_until'])
            what = rng.choice(['cap', 'cap', 'label', 'traits', 'valid', 'same'])
            if what == 'cap':
                spec['cap'] = self.gen_cap()
            elif what == 'label':
                spec['label'] = rng.choice(H.labels)
            elif what == 'traits' and H.trait_bits:
                spec['traits'] = old['traits'] ^ rng.choice(H.trait_bits)
            elif what == 'valid':
                spec['valid_until'] = self.clock.peek() + rng.choice([30, 100, 400, 3000])
            self.op_replace_server(name, spec)
        elif kind == 'down' and servers:
            self.op_state(rng.choice(servers), 'down')
        elif kind == 'up' and servers:
            cands = [s for s in servers if H.servers[s]['state'] != 'up'] or servers
            self.op_state(rng.choice(cands), 'up')
        elif kind == 'freeze' and servers:
            name = rng.choice(servers)
            srv = self._server_obj(name)
            on = sorted(srv.apps)
            uns = [a for a in on if rng.random() < 0.4]
            self.op_state(name, 'frozen', uns)
        elif kind == 'blacklist' and apps:
            self.op_blacklist(rng.choice(apps), True)
        elif kind == 'unblacklist':
            bl = [a for a in apps if H.apps[a]['blacklisted']]
            if bl:
                self.op_blacklist(rng.choice(bl), False)
        elif kind == 'group':
            self.op_group(rng.choice(['g0', 'g1', 'g2']), rng.choice([0, 1, 2, 2, 3, 4, 6]))
        elif kind == 'del_group' and H.groups:
            self.op_del_group(rng.choice(sorted(H.groups)))
        elif kind == 'regroup' and H.groups:
            # two identity_groups events handled back to back: delete and re-create
            name = rng.choice(sorted(H.groups))
            old = H.groups[name]
            self.op_del_group(name)
            self.op_group(name, rng.choice([old, old, old + 1, max(0, old - 1), 4]))
            return 'group'
        elif kind == 'alloc_update':
            key = self.gen_alloc_key()
            if key[1]:
                spec = self._gen_alloc_spec()
                if H.trait_bits and rng.random() < 0.5:
                    spec['traits'] = rng.choice(H.trait_bits + [0])
                self.op_alloc_update(key, spec)
        elif kind == 'clock':
            self.op_clock(self.gen_clock_step())
        elif kind == 'reload_cell':
            self.op_reload_cell()
        elif kind == 'valid_until' and servers:
            # loader.set_server_valid_until -> Partition.add -> RebootBucket.add: the reboot time of a
            # server is re-assigned in place (earlier or later), instances stay where they are
            name = rng.choice(servers)
            vu = self.clock.peek() + rng.choice([10, 30, 90, 150, 400, 3000])
            self._server_obj(name).valid_until = vu
            H.servers[name]['valid_until'] = vu
            self.ops.append(('valid_until', name, vu))
        elif kind == 'renew':
            return 'renew'
        return kind

    def gen_clock_step(self):
        """Small steps, or exactly to / around the next retention / lease /
        reboot deadline."""
        rng, H = self.rng, self.H
        now = self.clock.peek()
        deadlines = []
        for sname, h in H.servers.items():
            if h['state'] == 'down':
                srv = self._server_obj(sname)
                for a in srv.apps.values():
                    r = a.data_retention_timeout or 0
                    deadlines.append(h['since_hi'] + r)
            deadlines.append(h['valid_until'])
        for a in self.cell.apps.values():
            if a.placement_expiry:
                deadlines.append(a.placement_expiry)
            if a.lease and a.server and a.server in H.servers:
                deadlines.append(H.servers[a.server]['valid_until'] - a.lease)
        future = sorted(d for d in deadlines if d > now)
        if future and rng.random() < 0.6:
            d = rng.choice(future[:4])
            eps = rng.choice([-2.0, -0.5, 0.5, 2.0, 10.0])
            return max(0.1, d - now + eps)
        return rng.choice([0.5, 1, 3, 10, 40])

    def renew_candidates(self, with_leaseless=False):
        """Renewal is requested like test_renew does (app.renew = True right
        before a cycle), and only on instances that will still be placed when
        the renewal branch runs (DESIGN 1.6: states production can reach)."""
        H = self.H
        out = []
        for name, app in self.cell.apps.items():
            if not app.server or app.server not in H.servers:
                continue
            if H.servers[app.server]['state'] != 'up' or app.blacklisted:
                continue
            if app.identity_group_ref is not None and (
                    app.identity is None or app.identity >= app.identity_group_ref.count):
                continue
            if not app.lease and not with_leaseless:
                continue
            out.append(name)
        return sorted(out)
