"""C02: quiescent state + forked probe cycles (DESIGN C02)."""
import json
import os
import sys
import traceback

import numpy as np

from . import engine, oracles

INF = float('inf')


def settle(h, max_cycles=6):
    """Run cycles until one changes nothing. Returns True when quiescent."""
    for _ in range(max_cycles):
        rec = h.cycle()
        if rec is None:
            return False
        if all(p[1] == p[3] and p[2] == p[4] for p in rec['placement']):
            return True
    return False


def gen_probe(h, rng, k, force_mode=None):
    drv = h.drv
    H = drv.H
    label = rng.choice(H.labels)
    spec = drv.gen_app_spec()
    spec['name'] = 'probe.p#%010d' % (9000 + k)
    spec['alloc'] = (label, ('probe',))
    spec['once'] = False
    spec['retention'] = 0
    members = drv.cell.members()
    mode = rng.choice(['free', 'free', 'free-1', 'free+1', 'small', 'clone', 'clone', 'clone-min', 'clone-min', 'clone-traitless', 'clone-relevel'])
    mode = force_mode or mode
    cands = [s for s in sorted(H.servers) if H.servers[s]['label'] == label]
    if mode.startswith('free') and cands:
        s = rng.choice(cands)
        free = [int(x) for x in members[s].free_capacity]
        d = [max(0, x) for x in free]
        if mode == 'free-1':
            i = rng.randrange(3)
            d[i] = max(0, d[i] - 1)
        elif mode == 'free+1':
            i = rng.randrange(3)
            d[i] += 1
        spec['demand'] = d
        if rng.random() < 0.5:
            spec['traits'] = 0
        if rng.random() < 0.5:
            spec['lease'] = 0
    elif mode == 'small':
        spec['demand'] = [rng.choice([0, 1]) for _ in range(3)]
    elif mode == 'clone':
        pend = [n for n, a in drv.cell.apps.items() if a.server is None and H.apps[n]['alloc'][0] == label]
        if pend:
            src = H.apps[rng.choice(sorted(pend))]
            spec.update(affinity=src['affinity'], limits=dict(src['limits']), lease=src['lease'])
            if rng.random() < 0.5:
                spec['demand'] = [x + rng.choice([0, 0, 1]) for x in src['demand']]
            if rng.random() < 0.5:
                spec['traits'] = 0
    elif mode == 'clone-relevel':
        # a later instance of the application of a pending instance (same affinity name, lease, traits) whose manifest
        # declares its limits differently: on other levels, or on fewer levels - what blocks the pending one need not
        # block this one
        pend = [n for n, a in sorted(drv.cell.apps.items()) if a.server is None and H.apps[n]['alloc'][0] == label and
                H.apps[n]['limits'] and not H.apps[n]['blacklisted']]
        if pend:
            src = H.apps[rng.choice(pend)]
            lim = dict(src['limits'])
            levels = ['server', 'rack', 'pod', 'cell']
            how = rng.choice(['other-levels', 'fewer-levels', 'fewer-levels'])
            if how == 'fewer-levels' and len(lim) > 1:
                del lim[rng.choice(sorted(lim))]
            else:
                how = 'other-levels'
                vals = list(lim.values())
                lim = dict(zip(rng.sample(levels, len(vals)), vals))
            if lim != src['limits']:
                spec.update(affinity=src['affinity'], limits=lim, lease=src['lease'], traits=src['traits'],
                            demand=[x + rng.choice([0, 0, 1]) for x in src['demand']])
                spec['relevel'] = how
                drv.mon.count('probe_same_affinity_limits_on_' + how.replace('-', '_'))
    elif mode == 'clone-traitless':
        # the twin of a pending instance that needs traits (its own or its allocation's), without the traits: the
        # failure recorded for the instance that needs them says nothing about the twin
        pend = [n for n, a in sorted(drv.cell.apps.items()) if a.server is None and H.apps[n]['alloc'][0] == label and
                (H.apps[n]['traits'] | H.allocs[oracles.tuple_key(H.apps[n]['alloc'])]['traits'])]
        if pend:
            src = H.apps[rng.choice(pend)]
            spec.update(affinity=src['affinity'], limits=dict(src['limits']), lease=src['lease'], traits=0,
                        demand=[x + rng.choice([0, 0, 1]) for x in src['demand']])
            drv.mon.count('probe_traitless_twin_of_pending_instance')
            if src.get('moved'):
                drv.mon.count('probe_traitless_twin_after_allocation_traits_changed')
    elif mode == 'clone-min':
        # demand at (or just above) the component-wise minimum of the pending
        # instances sharing one shape: the probe is comparable with none of
        # them unless it is >= all recorded failures
        shapes = {}
        for nme, a in drv.cell.apps.items():
            ha = H.apps[nme]
            if a.server is None and ha['alloc'][0] == label and not ha['blacklisted']:
                shapes.setdefault((ha['affinity'], ha['lease'], ha['traits'] | H.allocs[oracles.tuple_key(ha['alloc'])]['traits']), []).append(ha)
        multi = [k for k, v in sorted(shapes.items()) if len(v) >= 2]
        if multi:
            key = rng.choice(multi)
            grp = shapes[key]
            dmin = [min(a['demand'][i] for a in grp) for i in range(3)]
            spec.update(affinity=key[0], limits=dict(grp[0]['limits']), lease=key[1], traits=key[2],
                        demand=[x + rng.choice([0, 0, 1]) for x in dmin])
    if rng.random() < 0.55:
        spec['group'] = None
    elif H.groups and rng.random() < 0.8:
        # a group that (by the harness' count) should still have a free identity
        spec['group'] = rng.choice(sorted(H.groups))
    spec['priority'] = rng.choice([1, 10, 50, 100])
    rank = rng.choice([0, 100, 100, 250])
    return spec, rank


def leaf_scan(h, spec, now):
    """Independent oracle: does some up server fit the probe? Returns
    (fits, server, reason-if-identity)."""
    drv = h.drv
    H, cell = drv.H, drv.cell
    pm = oracles.placement_map(cell)
    used = {s: np.zeros(3) for s in H.servers}
    subtree = {}
    for an, servers in pm.items():
        if an not in H.apps:
            continue
        for s in servers:
            if s not in H.servers:
                continue
            used[s] += np.array(H.apps[an]['demand'], dtype=float)
            for level, node in oracles.ancestors(H, s):
                subtree.setdefault((level, node), {}).setdefault(H.apps[an]['affinity'], 0)
                subtree[(level, node)][H.apps[an]['affinity']] += 1
    label = spec['alloc'][0]
    req = spec['traits']
    demand = np.array(spec['demand'], dtype=float)
    fit = None
    for s in sorted(H.servers):
        hs = H.servers[s]
        if hs['state'] != 'up' or hs['label'] != label:
            continue
        if (hs['traits'] & req) != req:
            continue
        if spec['lease'] and not now + spec['lease'] + 5.0 < hs['valid_until']:     # margin: virtual time passes during the probe's cycles
            continue
        if np.any(demand > np.array(hs['cap'], dtype=float) - used[s]):
            continue
        ok = True
        for level, node in oracles.ancestors(H, s):
            if subtree.get((level, node), {}).get(spec['affinity'], 0) >= spec['limits'].get(level, INF):
                ok = False
                break
        if ok:
            fit = s
            break
    ident_free = True
    if spec['group'] is not None:
        count = H.groups.get(spec['group'], 0)
        held = {a.identity for n, a in cell.apps.items()
                if n in H.apps and H.apps[n]['group'] == spec['group'] and a.identity is not None and a.server}
        ident_free = bool(set(range(count)) - held)
    return fit, ident_free


def run_probe_child(h, spec, rank, decoys=False):
    """In a forked child: add the probe, run one cycle, report.

    With `decoys`, two instances of the probe's shape that fit nowhere (one far
    too large in memory, one in cpu, nothing in the other dimensions) are
    submitted first and the cell is run to quiescence again before the probe is
    added behind them: pending instances of the same shape whose demands are
    incomparable with each other and with the probe must not hide the probe."""
    r, w = os.pipe()
    pid = os.fork()
    if pid == 0:
        try:
            os.close(r)
            drv = h.drv
            label = spec['alloc'][0]
            root = drv.cell.partitions[label].allocation
            alloc = root.get_sub_alloc('probe')
            alloc.update([0, 0, 0], rank, 0)
            drv.alloc_objs[(label, ('probe',))] = alloc
            drv.H.allocs[(label, ('probe',))] = dict(reserved=[0, 0, 0], rank=rank, adj=0, maxutil=None, traits=0)
            out = {}
            planted = False
            if decoys:
                before = {n: a.server for n, a in drv.cell.apps.items()}
                for i, dem in enumerate(([10 ** 6, 0, 0], [0, 10 ** 6, 0])):
                    d = dict(spec)
                    d.update(name='probe.decoy#%010d' % (9900 + i), demand=dem, priority=100, group=None,
                             limits=dict(spec['limits']))
                    drv.op_add_app(d)
                drv.cell.schedule()
                drv.cell.schedule()
                after = {n: a.server for n, a in drv.cell.apps.items() if n in before}
                planted = after == before
                out['decoys'] = 'planted' if planted else 'disturbed'
            drv.op_add_app(spec)
            engine.MON.reset_cycle()
            try:
                drv.cell.schedule()
                app = drv.cell.apps[spec['name']]
                out = dict(out, server=app.server, identity=app.identity,
                           rejected=spec['name'] in engine.MON.tracker_rejected,
                           consulted=engine.MON.tracker_consulted,
                           evictions=sum(1 for e in engine.MON.events if e['t'] == 'evict'))
            except BaseException as err:   # noqa
                out = dict(error='%s: %s' % (type(err).__name__, err),
                           tb=traceback.format_exc()[-800:])
            os.write(w, json.dumps(out).encode())
        finally:
            os._exit(0)
    os.close(w)
    data = b''
    while True:
        chunk = os.read(r, 65536)
        if not chunk:
            break
        data += chunk
    os.close(r)
    os.waitpid(pid, 0)
    if not data:
        return None
    return json.loads(data.decode())


def identity_exhaustion_probe(h, group, free, label):
    """In a forked child: submit as many zero-demand instances of `group` as the
    harness counts free identities; each fits any up server of `label`, so every
    one of them must be placed by the next cycle."""
    r, w = os.pipe()
    pid = os.fork()
    if pid == 0:
        try:
            os.close(r)
            drv = h.drv
            root = drv.cell.partitions[label].allocation
            alloc = root.get_sub_alloc('probe')
            alloc.update([0, 0, 0], 100, 0)
            drv.alloc_objs[(label, ('probe',))] = alloc
            drv.H.allocs[(label, ('probe',))] = dict(reserved=[0, 0, 0], rank=100, adj=0, maxutil=None, traits=0)
            names = []
            for i in range(free):
                spec = drv.gen_app_spec()
                spec.update(name='probe.id#%010d' % (9500 + i), demand=[0, 0, 0], traits=0, lease=0,
                            affinity='probe-id', limits={}, group=group, once=False, retention=0,
                            alloc=(label, ('probe',)), priority=50)
                drv.op_add_app(spec)
                names.append(spec['name'])
            out = {}
            try:
                drv.cell.schedule()
                out = dict(placed=[n for n in names if drv.cell.apps[n].server], names=names,
                           available=sorted(drv.cell.identity_groups[group].available))
            except BaseException as err:   # noqa
                out = dict(error='%s: %s' % (type(err).__name__, err))
            os.write(w, json.dumps(out).encode())
        finally:
            os._exit(0)
    os.close(w)
    data = b''
    while True:
        chunk = os.read(r, 65536)
        if not chunk:
            break
        data += chunk
    os.close(r)
    os.waitpid(pid, 0)
    return json.loads(data.decode()) if data else None
