"""Deterministic oracles for C01-C08 over one scheduling cycle (DESIGN section 2).

Inputs: the harness model H (what was asked), the tuples returned by
Cell.schedule(), the queue captured at _find_placements, and the leaf state
reachable through Cell.members().  Nothing is taken from the scheduler's
aggregates (Bucket.free_capacity, Node.traits/labels, affinity_counters are
only *compared against* recounts)."""
import sys

import numpy as np

UNPLACED = sys.maxsize
EPS = float(np.finfo(float).eps)
INF = float('inf')
NOAFF = '~no-affinity-key'


class V:
    """A violation record."""
    __slots__ = ('prop', 'mechanism', 'message', 'witness')

    def __init__(self, prop, mechanism, message, witness=None):
        self.prop, self.mechanism, self.message, self.witness = prop, mechanism, message, witness


def alloc_traits(H, key):
    return H.allocs[key]['traits']


def required_traits(H, a):
    return a['traits'] | alloc_traits(H, tuple_key(a['alloc']))


def tuple_key(k):
    return (k[0], tuple(k[1]))


def ancestors(H, sname):
    """[(level, nodename)] from the server up to the cell."""
    out = [('server', sname)]
    p = H.servers[sname]['parent']
    while p is not None:
        out.append((H.buckets[p]['level'], p))
        p = H.buckets[p]['parent']
    out.append(('cell', '<cell>'))
    return out


def placement_map(cell):
    """instance -> [servers] from the server side (leaf view)."""
    out = {}
    for sname, srv in cell.members().items():
        for an in srv.apps:
            out.setdefault(an, []).append(sname)
    return out


# ---------------------------------------------------------------------------
def check_c01(rec):
    H, cell = rec['H'], rec['cell']
    out = []
    members = cell.members()
    if set(members) != set(H.servers):
        out.append(V('C01', 'harness:server-set-mismatch', 'members %s vs asked %s' % (
            sorted(members), sorted(H.servers))))
        return out
    pm = placement_map(cell)
    for an, servers in pm.items():
        if len(servers) > 1:
            out.append(V('C01', 'double-placement', '%s on %s' % (an, servers)))
        if an not in cell.apps:
            out.append(V('C01', 'unscheduled-instance-on-server', '%s on %s is not scheduled' % (an, servers)))
        elif cell.apps[an].server not in servers:
            out.append(V('C01', 'views-disagree:instance-side', '%s: server side %s, instance side %r' % (
                an, servers, cell.apps[an].server)))
    for an, app in cell.apps.items():
        if app.server is not None and app.server not in pm.get(an, []):
            out.append(V('C01', 'views-disagree:server-side', '%s says %s, servers say %s' % (
                an, app.server, pm.get(an))))
    for sname, srv in members.items():
        cap = np.array(H.servers[sname]['cap'], dtype=float)
        total = np.zeros(3)
        for an in srv.apps:
            if an in H.apps:
                total += np.array(H.apps[an]['demand'], dtype=float)
        if np.any(total > cap + 1e-9):
            via = rec['via'].get((next(iter(srv.apps)), sname), '?')
            paths = sorted({rec['via'].get((an, sname), 'earlier') for an in srv.apps})
            out.append(V('C01', 'oversubscribed:' + '+'.join(paths),
                         '%s demand %s > capacity %s' % (sname, total.tolist(), cap.tolist()),
                         dict(server=sname, apps=sorted(srv.apps))))
        if not np.allclose(srv.free_capacity, cap - total, rtol=0, atol=1e-6):
            out.append(V('C01', 'free-capacity-mismatch',
                         '%s free %s != %s - %s' % (sname, srv.free_capacity.tolist(),
                                                    cap.tolist(), total.tolist())))
        if not np.array_equal(srv.init_capacity, cap):
            out.append(V('C01', 'spelling:capacity', '%s asked %s (%r) got %s' % (
                sname, cap.tolist(), H.servers[sname].get('spelled'), srv.init_capacity.tolist())))
    for an, app in cell.apps.items():
        if an in H.apps and not np.array_equal(app.demand, np.array(H.apps[an]['demand'], dtype=float)):
            out.append(V('C01', 'spelling:demand', '%s asked %s (%r) got %s' % (
                an, H.apps[an]['demand'], H.apps[an].get('spelled'), app.demand.tolist())))
    return out


# ---------------------------------------------------------------------------
def check_c03(rec):
    H, cell = rec['H'], rec['cell']
    out = []
    for name, before, _eb, after, _ea in rec['placement']:
        if after is None or after == before or name not in H.apps:
            continue
        a = H.apps[name]
        s = H.servers.get(after)
        via = rec['via'].get((name, after), '?')
        if s is None:
            out.append(V('C03', 'assigned-to-unknown-server:' + via, '%s -> %s' % (name, after)))
            continue
        if s['state'] != 'up':
            out.append(V('C03', 'assigned-to-%s-server:%s' % (s['state'], via),
                         '%s assigned to %s which is %s' % (name, after, s['state'])))
        if s['label'] != a['alloc'][0]:
            out.append(V('C03', 'assigned-wrong-partition:' + via,
                         '%s (partition %s) assigned to %s (partition %s)' % (
                             name, a['alloc'][0], after, s['label'])))
        req = required_traits(H, a)
        if (s['traits'] & req) != req:
            out.append(V('C03', 'assigned-missing-traits:' + via,
                         '%s needs traits %d, %s offers %d' % (name, req, after, s['traits'])))
        if a['lease'] and s['valid_until'] and not rec['t_lo'] + a['lease'] < s['valid_until']:
            out.append(V('C03', 'assigned-lease-beyond-reboot:' + via,
                         '%s lease %s at t=%.3f on %s valid_until %.3f' % (
                             name, a['lease'], rec['t_lo'], after, s['valid_until'])))
    # renewals: a granted expiry must not outlast the reboot
    for name, before, eb, after, ea in rec['placement']:
        if name not in H.apps or after is None:
            continue
        a = H.apps[name]
        s = H.servers.get(after)
        if s is None or not a['lease'] or ea is None or not s['valid_until']:
            continue
        if ea != eb and before == after and ea >= s['valid_until'] + 1e-6:
            out.append(V('C03', 'renewed-lease-beyond-reboot',
                         '%s on %s: expiry %.3f -> %.3f, reboot at %.3f' % (
                             name, after, eb or -1, ea, s['valid_until'])))
    # after the cycle: placed => right partition and traits
    for an, servers in placement_map(cell).items():
        if an not in H.apps:
            continue
        a = H.apps[an]
        for sname in servers:
            s = H.servers.get(sname)
            if s is None:
                continue
            how = 'stays' if any(p[0] == an and p[1] == sname == p[3] for p in rec['placement']) else 'new'
            if s['label'] != a['alloc'][0]:
                mech = 'placed-wrong-partition:' + how
                if how == 'stays' and a.get('moved'):
                    mech = 'stays-after-allocation-moved-partition'
                out.append(V('C03', mech, '%s (partition %s) is on %s (partition %s)' % (
                    an, a['alloc'][0], sname, s['label'])))
            req = required_traits(H, a)
            if (s['traits'] & req) != req:
                mech = 'placed-missing-traits:' + how
                if how == 'stays' and a.get('moved'):
                    mech = 'stays-after-allocation-moved-traits'
                out.append(V('C03', mech, '%s needs %d, %s offers %d' % (an, req, sname, s['traits'])))
    return out


# ---------------------------------------------------------------------------
def check_c04(rec):
    H, cell = rec['H'], rec['cell']
    out = []
    pm = placement_map(cell)
    counts = {}     # (nodename) -> {aff: [apps]}
    for an, servers in pm.items():
        if an not in H.apps:
            continue
        aff = H.apps[an]['affinity']
        for sname in servers:
            if sname not in H.servers:
                continue
            for level, node in ancestors(H, sname):
                counts.setdefault((level, node), {}).setdefault(aff, []).append(an)
    for (level, node), per in counts.items():
        for aff, apps in per.items():
            limit = min(H.apps[an]['limits'].get(level, INF) for an in apps)
            if len(apps) > limit:
                # which path placed the most recent one
                vias = sorted({rec['via'].get((an, pm[an][0]), 'earlier') for an in apps})
                newest = [v for v in vias if v != 'earlier'] or ['earlier']
                out.append(V('C04', 'limit-exceeded:%s:%s' % ('+'.join(newest), level),
                             '%s %s holds %d instances of affinity %s, limit %s' % (
                                 level, node, len(apps), aff, limit),
                             dict(node=node, level=level, apps=sorted(apps))))
    # the scheduler's own counters equal the recount
    nodes = {('cell', '<cell>'): cell}
    stack = [cell]
    while stack:
        n = stack.pop()
        for ch in n.children_iter():
            nodes[(ch.level, ch.name)] = ch
            stack.append(ch)
    for key, node in nodes.items():
        true = {aff: len(apps) for aff, apps in counts.get(key, {}).items()}
        # (the scheduler keys instances whose manifest has no 'affinity' key by None; the harness' record calls that name NOAFF)
        have = {(NOAFF if k is None else k): v for k, v in node.affinity_counters.items() if v != 0}
        if true != have:
            out.append(V('C04', 'counter-mismatch:' + key[0],
                         '%s %s counters %s, recount %s' % (key[0], key[1], have, true)))
    return out


# ---------------------------------------------------------------------------
def check_c05(rec):
    H, cell = rec['H'], rec['cell']
    out = []
    by_group = {}
    for an, app in cell.apps.items():
        if an not in H.apps:
            continue
        g = H.apps[an]['group']
        if g is None:
            if app.identity is not None:
                out.append(V('C05', 'identity-without-group', '%s holds %r' % (an, app.identity)))
            continue
        by_group.setdefault(g, []).append(app)
    for g, apps in by_group.items():
        count = H.groups.get(g, 0)
        held = {}
        for app in apps:
            if app.server is None:
                if app.identity is not None:
                    out.append(V('C05', 'unplaced-holds-identity:' + rec['exit'].get(app.name, 'other'),
                                 '%s is not placed but holds identity %d of %s' % (app.name, app.identity, g),
                                 dict(app=app.name)))
                continue
            if app.identity is None:
                out.append(V('C05', 'placed-without-identity', '%s on %s has no identity of %s' % (
                    app.name, app.server, g)))
                continue
            if not app.identity < count:
                out.append(V('C05', 'identity-out-of-range', '%s holds %d, count of %s is %d' % (
                    app.name, app.identity, g, count)))
            held.setdefault(app.identity, []).append(app.name)
        for ident, names in held.items():
            if len(names) > 1:
                mech = 'duplicate-identity'
                if rec.get('regrown', {}).get(g):
                    mech = 'duplicate-identity:after-shrink-grow-without-cycle'
                out.append(V('C05', mech, 'identity %d of %s held by %s' % (ident, g, sorted(names))))
        grp = cell.identity_groups.get(g)
        if grp is not None and g in H.groups:
            all_held = {a.identity for a in apps if a.identity is not None}
            if grp.count != count:
                out.append(V('C05', 'group-count-mismatch', '%s count %d asked %d' % (g, grp.count, count)))
            lost = set(range(count)) - set(grp.available) - all_held
            both = set(grp.available) & all_held
            extra = {i for i in grp.available if not i < count}
            if lost and not any(v.prop == 'C05' for v in out):
                out.append(V('C05', 'identity-lost', 'identities %s of %s neither free nor held' % (sorted(lost), g)))
            if both and not any(v.prop == 'C05' for v in out):
                out.append(V('C05', 'identity-free-and-held', 'identities %s of %s free and held' % (sorted(both), g)))
            if extra:
                out.append(V('C05', 'free-identity-out-of-range', '%s of %s (count %d)' % (sorted(extra), g, count)))
    return out


# ---------------------------------------------------------------------------
def util(acc, reserved):
    acc = np.array(acc, dtype=float)
    reserved = np.array(reserved, dtype=float)
    return float(np.max((acc - reserved) / (reserved + EPS)))


def check_c06(rec):
    """Queue captured at _find_placements vs an independent computation from H."""
    H = rec['H']
    out = []
    labels_seen = set()
    for q in rec['queues']:
        names = [e['name'] for e in q]
        if not names:
            continue
        label = H.apps[names[0]]['alloc'][0] if names[0] in H.apps else None
        labels_seen.add(label)
        expected = sorted(n for n, a in H.apps.items() if a['alloc'][0] == label)
        if sorted(names) != expected:
            dup = sorted({n for n in names if names.count(n) > 1})
            out.append(V('C06', 'not-a-permutation', 'partition %s: missing %s extra %s dup %s' % (
                label, sorted(set(expected) - set(names)), sorted(set(names) - set(expected)), dup)))
            continue
        pos = {n: i for i, n in enumerate(names)}
        ent = {e['name']: e for e in q}
        ranks = [e['rank'] for e in q]
        for i in range(1, len(ranks)):
            if ranks[i] < ranks[i - 1]:
                out.append(V('C06', 'rank-not-monotone', 'partition %s pos %d: %s(%s) after %s(%s)' % (
                    label, i, names[i], ranks[i], names[i - 1], ranks[i - 1])))
                break
        # priority-0 after all others of the same rank
        seen0 = {}
        for e in q:
            if e['prio'] == 0:
                seen0[e['rank']] = e['name']
            elif e['rank'] in seen0:
                out.append(V('C06', 'priority0-not-last', 'partition %s rank %s: %s (prio %d) after prio-0 %s' % (
                    label, e['rank'], e['name'], e['prio'], seen0[e['rank']])))
                break
        # per allocation
        per_alloc = {}
        for n in names:
            per_alloc.setdefault(tuple_key(H.apps[n]['alloc']), []).append(n)
        for key, members in per_alloc.items():
            al = H.allocs[key]
            def keyf(n):
                return (-H.apps[n]['priority'], 0 if ent[n]['server'] else 1, H.apps[n]['seq'])
            inq = sorted(members, key=lambda n: pos[n])
            keys = [keyf(n) for n in inq]
            # ties in the arrival key (instances loaded in one batch) may come in any order
            order = inq
            if keys != sorted(keys):
                out.append(V('C06', 'allocation-order', 'alloc %s: queue %s keys %s not sorted' % (
                    '/'.join(key[1]), inq, keys)))
            acc = np.zeros(3)
            reserved = np.array(al['reserved'], dtype=float)
            cap = INF if al['maxutil'] is None else al['maxutil']
            for n in order:
                before = acc.copy()
                acc = acc + np.array(H.apps[n]['demand'], dtype=float)
                r = ent[n]['rank']
                prio0 = H.apps[n]['priority'] == 0
                ua = INF if prio0 else util(acc, reserved)
                tol = 1e-9 * max(1.0, abs(cap))
                if ua > cap - 1 + tol:
                    if r != UNPLACED:
                        out.append(V('C06', 'over-cap-but-ranked', '%s util %.4f cap %s rank %s' % (n, ua, cap, r)))
                    elif rec['after_server'].get(n) is not None:
                        out.append(V('C06', 'over-cap-but-placed', '%s util %.4f cap %s on %s' % (
                            n, ua, cap, rec['after_server'].get(n))))
                    continue
                if ua < cap - 1 - tol or cap == INF:
                    if r not in (al['rank'], al['rank'] - al['adj']):
                        out.append(V('C06', 'rank-not-of-allocation', '%s rank %s, alloc rank %s adj %s util %.4f cap %s' % (
                            n, r, al['rank'], al['adj'], ua, cap)))
                        continue
                    if not prio0 and al['adj']:
                        if np.all(acc < reserved - 1e-9) and r != al['rank'] - al['adj']:
                            out.append(V('C06', 'within-reservation-not-boosted', '%s acc %s reserved %s rank %s' % (
                                n, acc.tolist(), reserved.tolist(), r)))
                        if np.any(before >= reserved + 1e-9) and r != al['rank']:
                            out.append(V('C06', 'beyond-reservation-boosted', '%s acc_before %s reserved %s rank %s' % (
                                n, before.tolist(), reserved.tolist(), r)))
    # every partition with instances was considered exactly once
    need = {a['alloc'][0] for a in H.apps.values()}
    if need - labels_seen:
        out.append(V('C06', 'partition-not-considered', 'partitions %s had instances but no queue' % sorted(need - labels_seen)))
    return out


# ---------------------------------------------------------------------------
def queue_positions(rec):
    pos = {}
    for qi, q in enumerate(rec['queues']):
        for i, e in enumerate(q):
            pos[e['name']] = (qi, i, e)
    return pos


def excused(rec, name, H, for_c08=False):
    """Excuses the statements list for losing a placement."""
    a = H.apps.get(name)
    if a is None:
        return 'removed'
    if a['blacklisted']:
        return 'blacklisted'
    pos = rec['pos'].get(name)
    if pos is not None and pos[2]['rank'] == UNPLACED:
        # 'over its utilisation cap' excuses only an instance whose own allocation has a cap (by the harness' record of
        # what was configured); without one nothing can put it over
        al = H.allocs.get(tuple_key(a['alloc']))
        if al is None or al.get('maxutil') is not None:
            return 'over-cap'
    pre = rec['pre'].get(name, {})
    if a['group'] is not None and pre.get('identity') is not None and \
            not pre['identity'] < H.groups.get(a['group'], 0):
        return 'invalid-identity'
    if pre.get('renew') and a['lease']:
        # a requested renewal excuses the loss only if it can fail: the lease no longer fits before
        # the reboot of the server (an instance without a lease has nothing that could fail)
        s0 = H.servers.get(pre.get('server'))
        if s0 is None or not s0['valid_until'] or not rec['t_hi'] + a['lease'] < s0['valid_until']:
            return 'renewal-failed'
    # re-assigned to an allocation whose partition / traits the server does
    # not offer: C03 requires it to leave ("no different than host deleted")
    s = H.servers.get(pre.get('server'))
    if s is not None:
        req = required_traits(H, a)
        if s['label'] != a['alloc'][0] or (s['traits'] & req) != req:
            return 'allocation-changed'
    return None


def check_c07(rec):
    H = rec['H']
    out = []
    gained = set()
    for name, before, _eb, after, _ea in rec['placement']:
        if after is not None and after != before:
            gained.add(name)
    pos = rec['pos']
    for name, before, _eb, after, _ea in rec['placement']:
        if before is None or after == before:
            continue
        s = H.servers.get(before)
        if s is None or s['state'] != 'up':
            continue
        if excused(rec, name, H):
            continue
        p = pos.get(name)
        if p is None:
            out.append(V('C07', 'displaced-not-in-queue', '%s lost %s without being considered' % (name, before)))
            continue
        ahead = [e['name'] for e in rec['queues'][p[0]][:p[1]]]
        if not any(n in gained for n in ahead):
            victim_of = [ev['for'] for ev in rec['events'] if ev['t'] == 'evict' and ev['victim'] == name]
            why = 'evicted-for:%s' % ('behind' if victim_of and victim_of[-1] not in ahead else 'ahead-not-placed') \
                if victim_of else 'no-eviction-recorded'
            out.append(V('C07', 'displaced-unjustified:' + why,
                         '%s: %s -> %s; nobody ahead of it gained a placement (ahead: %d, evicted for %s)' % (
                             name, before, after, len(ahead), victim_of),
                         dict(app=name, before=before, after=after)))
    return out


def check_c08(rec):
    H = rec['H']
    out = []
    t_lo, t_hi = rec['t_lo'], rec['t_hi']
    for name, before, _eb, after, _ea in rec['placement']:
        a = H.apps.get(name)
        if a is None:
            continue
        if a['blacklisted'] and after is not None:
            out.append(V('C08', 'blacklisted-placed', '%s is blacklisted but on %s' % (name, after)))
        if after is not None and after != before:
            s = H.servers.get(after)
            if s is not None and s['state'] == 'frozen':
                out.append(V('C08', 'frozen-server-received:' + rec['via'].get((name, after), '?'),
                             '%s newly placed on frozen %s' % (name, after)))
            if s is not None and s['state'] == 'down':
                out.append(V('C08', 'down-server-received:' + rec['via'].get((name, after), '?'),
                             '%s newly placed on down %s' % (name, after)))
        if before is None:
            continue
        s = H.servers.get(before)
        if s is None:
            continue
        ex = excused(rec, name, H)
        if s['state'] == 'down' and s['since_hi'] is not None:
            r = a['retention'] or 0
            if after == before:
                if t_lo >= s['since_hi'] + r + 1e-6 and not ex:
                    out.append(V('C08', 'kept-beyond-retention',
                                 '%s still on down %s at t>=%.3f, down since %.3f, retention %s' % (
                                     name, before, t_lo, s['since_hi'], a['retention'])))
            else:
                if t_hi < s['since_lo'] + r - 1e-6 and not ex:
                    out.append(V('C08', 'lost-within-retention',
                                 '%s left down %s at t<=%.3f, down since %.3f, retention %s (after=%s)' % (
                                     name, before, t_hi, s['since_lo'], a['retention'], after)))
        elif s['state'] == 'frozen':
            if after != before and not ex and name not in s['unsched']:
                out.append(V('C08', 'frozen-server-lost-instance',
                             '%s left frozen %s (after=%s) without being marked' % (name, before, after)))
    # Master level: a server whose presence node is gone (and whose state no operator event has set since)
    # is down, since the moment the master was told
    for sname, s in H.servers.items():
        lost = s.get('lost')
        if not lost:
            continue
        if s['state'] not in ('down', None):     # no record at all = never seen up = down
            out.append(V('C08', 'presence-lost-but-server-%s' % s['state'],
                         '%s lost its presence node (master told at t in [%.3f, %.3f]) but is recorded %s' % (
                             sname, lost['t_lo'], lost['t_hi'], s['state'])))
        elif s['since_lo'] is not None and lost.get('t_gone') is not None and s['since_lo'] < lost['t_gone'] - 1e-3:
            # (the retention of its instances would end before it is due)
            out.append(V('C08', 'down-since-earlier-than-presence-loss',
                         '%s lost its presence at t=%.4f but is recorded down since %.4f' % (sname, lost['t_gone'], s['since_lo'])))
        elif s['since_hi'] is not None and s['since_hi'] > lost['t_hi'] + 1e-3:
            out.append(V('C08', 'down-since-later-than-presence-loss',
                         '%s lost its presence at t<=%.3f but is recorded down since %.3f' % (sname, lost['t_hi'], s['since_hi'])))
    for ev in rec['events']:
        if ev['t'] == 'evict':
            s = H.servers.get(ev['server'])
            if s is not None and s['state'] != 'up':
                out.append(V('C08', 'victim-on-%s-server' % s['state'],
                             '%s evicted from %s (%s) for %s' % (ev['victim'], ev['server'], s['state'], ev['for'])))
    return out


# ---------------------------------------------------------------------------
def nontrivial_flags(rec):
    """Per-property non-triviality of this cycle (DESIGN 'Non-trivial')."""
    H, cell = rec['H'], rec['cell']
    ev = rec['events']
    evict = any(e['t'] == 'evict' for e in ev)
    restore = any(e['t'] == 'put' and e['via'] == 'restore' for e in ev)
    renew = any(e['t'] == 'renew' for e in ev)
    flags = {}
    mixed = False
    for sname, srv in cell.members().items():
        if sname in H.servers and srv.apps:
            cap = np.array(H.servers[sname]['cap'], dtype=float)
            used = (cap - srv.free_capacity) / np.maximum(cap, 1)
            if used.max() > 0.5 and used.min() < 0.5:
                mixed = True
    flags['C01'] = mixed or evict or restore or rec.get('reloaded', False)
    moved = any(a.get('moved') for a in H.apps.values())
    flags['C03'] = evict or restore or renew or moved
    has_bucket_limit = any(any(lv in a['limits'] for lv in ('rack', 'pod', 'cell')) for a in H.apps.values())
    flags['C04'] = has_bucket_limit and (evict or rec.get('seen_evict', False))
    flags['C05'] = rec.get('group_churn', False) or any(
        H.apps.get(e.get('victim') or e.get('app'), {}).get('group') for e in ev if e['t'] in ('evict', 'remove'))
    flags['C07'] = evict
    inactive_loaded = False
    pending = any(a.server is None for a in cell.apps.values())
    for sname, h in H.servers.items():
        if h['state'] != 'up' and sname in cell.members() and cell.members()[sname].apps and pending:
            inactive_loaded = True
    flags['C08'] = inactive_loaded or rec.get('expired_now', False)
    ranks = {e['rank'] for q in rec['queues'] for e in q}
    running = {bool(e['server']) for q in rec['queues'] for e in q}
    flags['C06'] = len(ranks) >= 2 and len(running) == 2
    return flags


ALL = {'C01': check_c01, 'C03': check_c03, 'C04': check_c04, 'C05': check_c05,
       'C06': check_c06, 'C07': check_c07, 'C08': check_c08}
