"""History engine for C01-C08 at Cell level: generate, execute on the real
Cell, evaluate oracles after every cycle, quiescent-state probes for C02."""
import os
import pickle
import sys
import traceback

import numpy as np

from .. import env
from . import celldrv, monitor, oracles

MON = monitor.Monitors()


def _exc_site(tb):
    frames = traceback.extract_tb(tb)
    for fr in reversed(frames):
        if '/treadmill/' in fr.filename:
            return fr
    return frames[-1]


class History:
    def __init__(self, ctx, rng, profile, props):
        self.ctx = ctx
        self.rng = rng
        self.pf = profile
        self.props = list(props)
        self.clock = env.VClock()
        self.clock.install()
        MON.install()
        MON.counters.clear()
        MON.reset_cycle()
        self.drv = celldrv.CellDriver(rng, profile, self.clock, MON)
        self.dead = set()          # properties already violated in this history
        self.flags = {p: False for p in props}
        self.seen_evict = False
        self.group_churn = False
        self.regrown = {}
        self.shrunk = {}
        self.cycles = 0
        self.aborted = False
        self.renew_request = False
        self.reloaded = False

    # ------------------------------------------------------------------
    def run(self):
        drv = self.drv
        drv.build()
        self.cycle()
        n_ops = self.rng.randint(*self.pf.n_ops)
        for i in range(n_ops):
            if self.aborted:
                break
            before_groups = dict(drv.H.groups)
            kind = drv.random_op()
            if kind == 'renew':
                self.renew_request = True
            if kind in ('group', 'del_group'):
                self.group_churn = True
                for g, c in drv.H.groups.items():
                    old = before_groups.get(g)
                    if old is not None and c < old:
                        self.shrunk[g] = True
                    elif old is not None and c > old and self.shrunk.get(g):
                        self.regrown[g] = True
                for g in before_groups:
                    if g not in drv.H.groups:
                        self.shrunk[g] = True
            if kind == 'replace_server':
                self.reloaded = True
            if self.rng.random() < self.pf.p_cycle or i == n_ops - 1:
                self.cycle()
        return self

    # ------------------------------------------------------------------
    def cycle(self):
        drv, ctx = self.drv, self.ctx
        cell = drv.cell
        if self.renew_request:
            self.renew_request = False
            # 1 request in 4 may also hit an instance without a lease (its renewal cannot fail)
            cands = drv.renew_candidates(with_leaseless=self.rng.random() < 0.25)
            if cands:
                # prefer (6 in 10) an instance whose lease no longer fits before its server's reboot: a renewal that fails
                H, now = drv.H, self.clock.peek()
                doomed = [n for n in cands if n in H.apps and H.apps[n]['lease'] and cell.apps[n].server in H.servers and
                          now + H.apps[n]['lease'] >= H.servers[cell.apps[n].server]['valid_until']]
                if doomed and self.rng.random() < 0.6:
                    drv.op_renew(self.rng.choice(doomed))
                    ctx.count('renewal_requested_for_lease_beyond_reboot')
                else:
                    drv.op_renew(self.rng.choice(cands))
        pre = {n: dict(identity=a.identity, renew=a.renew, server=a.server)
               for n, a in cell.apps.items()}
        MON.reset_cycle()
        t_lo = self.clock.peek()
        try:
            placement = cell.schedule()
        except AssertionError:
            et, ev, tb = sys.exc_info()
            fr = _exc_site(tb)
            if fr.name == '_find_placements' and any(pre[n]['renew'] for n in pre) and \
                    'assert app.server' in (fr.line or ''):
                # harness-only state (renewal flag on an instance the cycle
                # removed earlier): discard, never a verdict (DESIGN 1.6)
                ctx.count('discarded_renew_assert')
                self.aborted = True
                return None
            self._exception(et, ev, tb)
            return None
        except Exception:
            self._exception(*sys.exc_info())
            return None
        t_hi = self.clock.peek()
        self.cycles += 1
        drv.ops.append(('cycle',))
        # the cycle's own renewal retry flag: production never sets it
        # initially, so the harness owns it; clear (counted)
        for a in cell.apps.values():
            if a.renew:
                a.renew = False
                ctx.count('renew_retry_flag_cleared')
        self.shrunk = {}
        via = {}
        for ev in MON.events:
            if ev['t'] == 'put':
                via[(ev['app'], ev['server'])] = ev['via']
        if any(ev['t'] == 'evict' for ev in MON.events):
            self.seen_evict = True
        exits = {}
        rejected = set(MON.tracker_rejected)
        for n, a in cell.apps.items():
            if a.server is None and a.identity is not None:
                h = drv.H.apps.get(n, {})
                pos = None
                for q in MON.queues:
                    for e in q:
                        if e['name'] == n:
                            pos = e
                if n in rejected:
                    exits[n] = 'infeasible-skip'
                elif h.get('blacklisted'):
                    exits[n] = 'blacklisted-skip'
                elif pos is not None and pos['rank'] == oracles.UNPLACED:
                    exits[n] = 'over-cap-skip'
                elif h.get('once') and a.evicted:
                    exits[n] = 'schedule-once-evicted'
                elif pos is None:
                    exits[n] = 'not-in-queue'
                else:
                    exits[n] = 'other'
        rec = dict(H=drv.H, cell=cell, placement=placement, t_lo=t_lo, t_hi=t_hi,
                   queues=MON.queues, events=MON.events, via=via, pre=pre,
                   exit=exits, regrown=self.regrown, seen_evict=self.seen_evict,
                   group_churn=self.group_churn, reloaded=self.reloaded,
                   after_server={p[0]: p[3] for p in placement})
        rec['pos'] = oracles.queue_positions(rec)
        expired = False
        for name, before, _eb, after, _ea in placement:
            s = drv.H.servers.get(before) if before else None
            if s is not None and s['state'] == 'down':
                expired = expired or after != before
                ctx.count('down_retained' if after == before else 'down_expired')
            if s is not None and s['state'] == 'frozen':
                ctx.count('frozen_kept' if after == before else 'frozen_unscheduled')
        rec['expired_now'] = expired
        for p in self.props:
            if p in self.dead or p not in oracles.ALL:
                continue
            for v in oracles.ALL[p](rec):
                self.dead.add(p)
                ctx.violation(v.mechanism, v.message, v.witness,
                              case=dict(ops=drv.ops[-60:], cycle=self.cycles))
        fl = oracles.nontrivial_flags(rec)
        for p in self.props:
            if fl.get(p):
                self.flags[p] = True
        self.last_rec = rec
        return rec

    def _exception(self, et, ev, tb):
        fr = _exc_site(tb)
        self.aborted = True
        self.ctx.violation('exception:%s@%s' % (et.__name__, fr.name),
                           '%s in %s line %s: %s' % (et.__name__, fr.name, fr.lineno, ev),
                           witness=traceback.format_exception(et, ev, tb)[-3:],
                           case=dict(ops=self.drv.ops[-60:], cycle=self.cycles))

    # ------------------------------------------------------------------
    def summary(self):
        H = self.drv.H
        return dict(servers=len(H.servers), apps=len(H.apps), depth=self.drv.depth,
                    partitions=len(H.labels), cycles=self.cycles,
                    ops=[op[0] if op[0] != 'state' else 'state:' + op[2] for op in self.drv.ops])

    def absorb_counters(self):
        for k, v in MON.counters.items():
            self.ctx.count(k, v)
        MON.counters.clear()


def run_histories(ctx, props, profile_for, master_every=4, mprofile_for=None):
    """Main loop shared by the C01, C03-C08 checks: Cell-level histories, and
    every `master_every`-th case a Master-level history (real Master/Loader on
    the fake ZooKeeper) evaluated with the same oracles."""
    from ..master import engine as mengine
    from ..master import drv as mdrv
    for idx, rng in ctx.cases():
        if props and props[0] in ('C05', 'C06') and idx % 8 == 5:
            # the real Master.run_loop() on two threads with operator commands at the joints of the start-up sequence and
            # while the master is busy with a batch of events (vf/master/realloop.py)
            from ..master import realloop
            realloop.real_loop_case(ctx, idx, rng, props[0])
            continue
        if master_every and idx % master_every == master_every - 1:
            mpf = mprofile_for(rng) if mprofile_for else mdrv.MProfile()
            if props and props[0] == 'C06' and idx == 3:
                # one Master-level history per shard with more than a thousand instances submitted at once
                mpf.burst = True
                mpf.n_steps = (4, 7)
                mpf.p_restart = 0.0
            mh = mengine.MHistory(ctx, rng, mpf, props)
            if 'C04' in props or 'C05' in props:
                from ..master import crash
                mh.d.cutter = crash.HeadroomSession(mh, ctx, 'C04' if 'C04' in props else 'C05')
            try:
                mh.run()
            finally:
                env.VClock.uninstall()
            mh.absorb_counters()
            summ = mh.summary()
            ctx.count('master_cycles', mh.cycles)
            ctx.count('master_histories')
            nt = mh.flags.get(ctx.pid, False)
            ctx.done(case_desc=('master', summ['ops'], summ['servers'], summ['apps']), nontrivial=nt,
                     sample=dict(history=idx, **summ) if nt and idx % 16 == 3 else None, evals=max(1, mh.cycles))
            continue
        pf = profile_for(rng)
        h = History(ctx, rng, pf, props)
        try:
            h.run()
        finally:
            env.VClock.uninstall()
        h.absorb_counters()
        summ = h.summary()
        prop = ctx.pid
        ctx.count('cycles', h.cycles)
        ctx.done(case_desc=(summ['ops'], summ['servers'], summ['apps']),
                 nontrivial=h.flags.get(prop, False),
                 sample=dict(history=idx, **summ) if h.flags.get(prop) else None,
                 evals=max(1, h.cycles))
