"""C09, real service loop: the REAL Master.run_loop() - create_rootns, load_model, init_schedule,
attach_watchers (kazoo's ChildrenWatch recipe on the fake client), the event queue, the periodic tasks -
on the main thread, with the watch notifications delivered on a second thread the way kazoo's callback thread
does (one at a time; Master.watch blocks it until the main loop has processed the event).

What is replaced (and only this): ZooKeeper (vf.zkfake), time.time (virtual clock), time.sleep (= the idle
point of the loop: the harness lets the callback thread settle, applies the next operator command and
evaluates the oracle), os._exit / utils.sys_exit (reported).

Forced interleavings:
  * operator commands land at the joints of the start-up sequence: after load_model, after init_schedule,
    after attach_watchers;
  * a LINE event local to the watch callback parks the callback thread between two of its statements until
    the main loop has completed a full pass (processed its queue and signalled completion).

Oracle (C09), evaluated when the master has nothing left to do (queue empty, nothing undelivered, callback
thread idle, `up_to_date`) - or when the callback thread has not come back for several idle passes although
nothing is queued for the main loop: the full /placement dump against the model and against /scheduled."""
import sys
import threading
import time as _time

from .. import env, zkfake
from . import drv as mdrv
from . import engine as mengine

TOOL = 5
IDLE_PASSES_STUCK = 4
REAL_WAIT = 5.0          # wall-clock guard while waiting for the other thread (inconclusive when exceeded)


class _Stop(BaseException):
    pass


class _ProcessExit(BaseException):
    def __init__(self, code):
        BaseException.__init__(self, code)
        self.code = code


def real_loop_case(ctx, idx, rng, prop='C09'):
    import os
    from treadmill import utils
    h = mengine.MHistory(ctx, rng, mdrv.MProfile(p_restart=0.0, max_servers=5), [prop])
    d = h.d
    clock = h.clock
    mon = sys.monitoring
    real_sleep, real_exit, real_sys_exit = _time.sleep, os._exit, utils.sys_exit     # pylint: disable=protected-access
    st = dict(in_cb=False, blocked=False, parked=False, stop=False, passes=0, stuck=0, exits=[], ops=0,
              inconclusive=None, arm_park=0, line=0, park_at=0)
    cond = threading.Condition()
    log = []
    try:
        d.build()
        srv = d.srv
        srv.sync_delivery = False
        srv.on_op = None                          # (the driver's own between-writes deliveries belong to the stepped histories)
        srv.deliver = lambda limit=None: 0        # notifications are delivered by the callback thread only
        def new_master(tag):
            client_ = srv.client(tag)
            base_event = client_.handler.event_object

            def event_object():
                ev = base_event()
                real_wait = ev.wait

                def wait(timeout=None):
                    st['waiting_on'] = ev
                    try:
                        return real_wait(timeout)
                    finally:
                        st['waiting_on'] = None
                ev.wait = wait
                return ev
            client_.handler.event_object = event_object
            return client_, d.master_mod.Master(d.zkbackend.ZkBackend(client_), 'cell')
        client, m = new_master('master-real')
        d.mclient, d.master = client, m
        n_ops = rng.randint(6, 14)

        # -- the callback thread ---------------------------------------------------------------------

        def cb_loop():
            while not st['stop']:
                item = None
                with srv.lock:
                    if srv.pending:
                        item = srv.pending.pop(0)
                        st['in_cb'] = True
                if item is None:
                    real_sleep(0.0003)
                    continue
                try:
                    item[0](item[1])
                except _ProcessExit as e:
                    st['exits'].append(e.code)
                except SystemExit:
                    pass
                finally:
                    st['in_cb'] = False
        cb_thread = threading.Thread(target=cb_loop, daemon=True)

        watch_code = [c for c in d.master_mod.Master.watch.__code__.co_consts if getattr(c, 'co_name', None) == '_watch'][0]

        def line_cb(_code, _line):
            if threading.current_thread() is not cb_thread or not st['arm_park']:
                return
            st['line'] += 1
            if st['line'] != st['park_at']:
                return
            st['arm_park'] = 0
            ctx.count('real_loop_callback_parked_between_two_statements')
            target = st['passes'] + 2
            st['parked'] = True
            t0 = _time.monotonic()
            try:
                while st['passes'] < target and not st['stop'] and _time.monotonic() - t0 < REAL_WAIT:
                    real_sleep(0.0003)
            finally:
                st['parked'] = False

        # -- operator commands -------------------------------------------------------------------------
        def placed_now():
            return sorted({a for s in srv.children(d.z.PLACEMENT) for a in srv.children(d.z.path.placement(s)) if a in d.Z['apps']})

        def operator(where, prefer=None):
            kinds = ['delete-placed', 'delete-placed', 'create', 'create', 'presence', 'prio', 'delete-any', 'server-delete']
            if prop == 'C05':
                kinds += ['group', 'group', 'group', 'create-member']
            if prop == 'C06':
                kinds += ['prio', 'prio', 'prio']
            kind = rng.choice(kinds)
            if prefer is not None and rng.random() < 0.4:
                kind = prefer
            if kind == 'server-delete' and where.startswith('after-'):
                # (not at the joints of the start-up sequence: a server deleted between load_model and init_schedule gets
                # its records written back by init_schedule, and nothing ever removes the records of a server that is no
                # longer in the cell - a side observation in DESIGN section 6, outside the quantifier of C09)
                kind = 'create'
            if kind == 'server-delete':
                hosting = sorted(s_ for s_ in d.Z['servers'] if srv.children(d.z.path.placement(s_)))
                if len(d.Z['servers']) > 2 and hosting:
                    name = rng.choice(hosting)
                    if rng.random() < 0.4:
                        # the operator's command dies at one of its requests (its session is gone) and is repeated
                        broken = srv.client('admin-interrupted')
                        broken.crash_at = rng.randint(1, 5)
                        try:
                            d.api.delete_server(broken, name)
                        except zkfake.Crash:
                            ctx.count('real_loop_operator_command_interrupted_and_repeated')
                    d.api.delete_server(d.admin, name)
                    d.lost.pop(name, None)
                    del d.Z['servers'][name]
                    cl = d.node_clients.pop(name, None)
                    if cl is not None:
                        srv.expire(cl.sid)
                    log.append((where, 'server-delete', name))
                    ctx.count('real_loop_hosting_server_deleted')
                    return
                kind = 'create'
            if kind == 'group':
                g = rng.choice(['g0', 'g1', 'g2'])
                d.op_group(g, rng.choice([0, 1, 1, 2, 3, 4]))
                log.append((where, 'group', g, d.Z['groups'][g]))
                ctx.count('real_loop_identity_group_resized')
                return
            if kind == 'create-member':
                d.op_group_squeeze()
                log.append((where, 'group-squeeze-or-members'))
                return
            if kind == 'delete-placed':
                p = placed_now()
                if p:
                    victims = rng.sample(p, min(len(p), rng.choice([1, 1, 2])))
                    d.api.delete_apps(d.admin, victims)
                    for v in victims:
                        d.Z['apps'].pop(v, None)
                    log.append((where, 'delete', victims))
                    ctx.count('real_loop_placed_instances_deleted')
                    return
                kind = 'create'
            if kind == 'delete-any':
                d.op_delete_apps()
            elif kind == 'create':
                d.op_create_apps()
            elif kind == 'presence':
                if d.node_clients and rng.random() < 0.5:
                    d.op_presence_down(rng.choice(sorted(d.node_clients)))
                else:
                    down = [s for s in sorted(d.Z['servers']) if s not in d.node_clients]
                    if down:
                        d.op_presence_up(rng.choice(down))
            elif kind == 'prio':
                d.op_prio()
            log.append((where, kind))

        def joint(name, fn):
            def wrapped(*a, **kw):
                res = fn(*a, **kw)
                if rng.random() < 0.5:
                    operator('after-' + name)
                    ctx.count('real_loop_operator_command_at_start_up_joint')
                return res
            return wrapped
        def wrap_joints():
            m.load_model = joint('load_model', m.load_model)
            m.init_schedule = joint('init_schedule', m.init_schedule)
            m.attach_watchers = joint('attach_watchers', m.attach_watchers)
            for key in list(m.resource_event_handlers):
                m.resource_event_handlers[key] = during(key + '-event', m.resource_event_handlers[key])

        def during(name, fn):
            def wrapped(*a, **kw):
                res = fn(*a, **kw)
                if st['ops'] < n_ops and rng.random() < 0.25:
                    # the operator's next command lands while the master is still busy with the batch of events it took
                    st['ops'] += 1
                    operator('during-' + name, prefer='server-delete')
                    ctx.count('real_loop_operator_command_during_event_handling')
                return res
            return wrapped
        wrap_joints()

        # -- the idle point of the main loop -----------------------------------------------------------
        def settle():
            """Let the callback thread deliver what is deliverable. Returns 'idle', 'blocked' or None (guard)."""
            t0 = _time.monotonic()
            while _time.monotonic() - t0 < REAL_WAIT:
                if st['exits']:
                    raise _ProcessExit(st['exits'][0])
                w = st.get('waiting_on')
                if st['parked'] or (w is not None and not w.is_set()):
                    return 'blocked'
                with srv.lock:
                    quiet = not srv.pending and not st['in_cb']
                if quiet:
                    return 'idle'
                real_sleep(0.0003)
            return None

        def violations(when):
            if prop == 'C09':
                found = []
                gone = set(srv.children(d.z.PLACEMENT)) - set(srv.children(d.z.SERVERS))
                for v in mengine.c09_oracle(d, when):
                    if v.mechanism.startswith('stale-entry:') and any(v.message.startswith('/placement/%s/' % g) for g in gone):
                        # a record under a server the operator has deleted: delete_server wipes the server's records and
                        # then tells the master; a cycle the master publishes in between can write one back, and nothing
                        # ever removes the records of a server that is no longer in the cell (side observation in DESIGN
                        # section 6; no node agent reads them)
                        ctx.count('real_loop_records_left_under_a_deleted_server')
                        continue
                    found.append((v.mechanism, v.message))
                return found
            out = []
            z = d.z
            if prop == 'C05':
                # what the master has been told about identity groups is in force: no placed (or published) member
                # holds an identity outside the group's configured range, none is held twice
                held = {}
                for name, app in sorted(m.cell.apps.items()):
                    if not app.identity_group or app.server is None or app.identity is None:
                        continue
                    conf = d.zkutils.get_default(d.admin, z.path.identity_group(app.identity_group)) or {}
                    count = conf.get('count', 0) if d.admin.exists(z.path.identity_group(app.identity_group)) else 0
                    if not app.identity < count:
                        out.append(('identity-out-of-range:%s' % when, '%s on %s holds identity %d of %s whose configured count is %d' % (
                            name, app.server, app.identity, app.identity_group, count)))
                    held.setdefault((app.identity_group, app.identity), []).append(name)
                for (g, i), names in sorted(held.items()):
                    if len(names) > 1:
                        out.append(('duplicate-identity:%s' % when, 'identity %d of %s held by %s' % (i, g, names)))
            if prop == 'C06':
                # the queue is ordered by the priority the operator configured: the model's priority of an instance
                # whose manifest carries an explicit one is that one
                for name, app in sorted(m.cell.apps.items()):
                    man = d.zkutils.get_default(d.admin, z.path.scheduled(name))
                    if not man or 'priority' not in man or int(man['priority']) == -1:
                        continue
                    if app.priority != int(man['priority']):
                        out.append(('queue-ordered-by-stale-priority:%s' % when, '%s is queued with priority %r, its manifest says %r' % (
                            name, app.priority, man['priority'])))
                        break
            return out

        def ctx_violated():
            return st.get('violated', False)

        def check(when):
            ctx.count('real_loop_oracle_evaluations')
            for mech, msg in violations(when):
                ctx.violation('%s:real-loop' % mech, msg, case=dict(case=idx, log=log[-12:], when=when))
                st['violated'] = True
                raise _Stop()

        def sleep_hook(_secs):
            st['passes'] += 1
            how = settle()
            if how is None:
                st['inconclusive'] = 'the callback thread did not settle within %.0f s of wall-clock time' % REAL_WAIT
                raise _Stop()
            if m.queue:
                return
            clock.advance(0.5)
            if how != 'blocked' or st['parked']:
                st['stuck'] = 0
            if not m.up_to_date:
                return
            undelivered = bool(srv.pending)
            if how == 'blocked' and not st['parked']:
                # the callback thread waits for the main loop, which has nothing queued
                st['stuck'] += 1
                if st['stuck'] < IDLE_PASSES_STUCK:
                    return
                ctx.count('real_loop_callback_thread_stuck')
                when = 'callback-thread-never-returned'
            elif how == 'blocked' or undelivered:
                return
            else:
                st['stuck'] = 0
                when = 'idle'
            check(when)
            if st['ops'] >= n_ops:
                raise _Stop()
            st['ops'] += 1
            if rng.random() < 0.5:
                st.update(arm_park=1, line=0, park_at=rng.randint(1, 8))
            operator('running')
            if when != 'idle':
                # (nothing will ever be delivered again: judge what is published now against what is scheduled now)
                check(when)

        def fake_exit(code):
            et, ev, tb = sys.exc_info()
            err = _ProcessExit(code)
            if et is not None:
                try:
                    fr = mengine.cengine._exc_site(tb)        # pylint: disable=protected-access
                    err.cause = '%s@%s: %s' % (et.__name__, fr.name, ev)
                except Exception:      # noqa
                    err.cause = '%s: %s' % (et.__name__, ev)
            raise err

        _time.sleep = sleep_hook
        os._exit = fake_exit
        utils.sys_exit = fake_exit
        mon.use_tool_id(TOOL, 'vf-c09-realloop')
        mon.register_callback(TOOL, mon.events.LINE, line_cb)
        mon.set_local_events(TOOL, watch_code, mon.events.LINE)
        cb_thread.start()
        try:
            try:
                m.run_loop()
            except _Stop:
                if st['inconclusive'] or ctx_violated():
                    raise
                # a second master takes over (the first one is gone: its session ends, its watches with it): its
                # start-up meets placed instances that hold identities, leases, ...
                st['second_life'] = True
                for ev in list(m.process_complete.values()):
                    ev.set()
                srv.expire(client.sid)
                client, m = new_master('master-real-2')
                d.mclient, d.master = client, m
                wrap_joints()
                st.update(ops=0, stuck=0, arm_park=0)
                n_ops = rng.randint(3, 8)
                ctx.count('real_loop_second_master_started')
                log.append(('second-master',))
                m.run_loop()
        except _Stop:
            pass
        except _ProcessExit as e:
            # the master process died (exit_on_unhandled): what it leaves behind is judged as it stands; a death that
            # leaves the store in order is a robustness matter outside the property (its successor takes over)
            cause = getattr(e, 'cause', None)
            ctx.count('real_loop_master_process_died')
            log.append(('master-died', cause))
            # ... but only when it had nothing left to learn: with an event still queued, undelivered or sitting in
            # /events, model and store may differ for a moment in the unchanged code too (an operator deletes a hosting
            # server, the master publishes a cycle and runs its integrity check before it reads the event)
            unread = bool(m.queue) or bool(srv.pending) or bool(srv.children(d.z.EVENTS)) or st['in_cb']
            found = [] if unread else violations('master-died')
            if unread:
                ctx.count('real_loop_master_died_with_unread_events')
            if found:
                mech, msg = found[0]
                ctx.violation('%s:real-loop' % mech, '%s [the master then died: %s]' % (msg, cause), case=dict(case=idx, log=log[-12:]))
            else:
                ctx.notes.append('real loop case %d: master died without a verdict: %s' % (idx, cause))
        except Exception:      # noqa
            et, ev, tb = sys.exc_info()
            fr = mengine.cengine._exc_site(tb)        # pylint: disable=protected-access
            ctx.violation('exception:%s@%s:real-loop' % (et.__name__, fr.name), '%s in %s line %s: %s' % (et.__name__, fr.name, fr.lineno, ev),
                          case=dict(case=idx, log=log[-12:]))
        finally:
            st['stop'] = True
            m.exit = True
            for ev in list(m.process_complete.values()):
                ev.set()
            mon.set_local_events(TOOL, watch_code, 0)
            mon.register_callback(TOOL, mon.events.LINE, None)
            mon.free_tool_id(TOOL)
            _time.sleep, os._exit, utils.sys_exit = real_sleep, real_exit, real_sys_exit
            cb_thread.join(2.0)
        if st['inconclusive']:
            ctx.count('real_loop_cases_inconclusive')
            ctx.notes.append('real loop case %d: %s' % (idx, st['inconclusive']))
        else:
            ctx.count('real_loop_cases')
        ctx.done(case_desc=('real-loop', idx, len(log)), nontrivial=False, evals=st['ops'])
    finally:
        _time.sleep, os._exit, utils.sys_exit = real_sleep, real_exit, real_sys_exit
        env.VClock.uninstall()
