"""Fork-based crash cuts (C10) and restart fidelity (C11) on the master driver.

A forked child is "the world where the master died here": it first disarms
every hook it inherited, never returns into the parent's loop, reports over a
pipe and leaves with os._exit (DESIGN 1.6, fork hygiene)."""
import json
import os
import sys
import traceback

import numpy as np

from . import engine as mengine
from ..sched import oracles

INF = float('inf')


def in_child(fn):
    """Run fn() in a forked child; returns its JSON-able result (or None)."""
    r, w = os.pipe()
    pid = os.fork()
    if pid == 0:
        try:
            import signal
            signal.alarm(120)       # a child never outlives its budget
            os.close(r)
            try:
                out = fn()
            except BaseException as err:   # noqa
                out = {'harness_error': '%s: %s' % (type(err).__name__, err),
                       'tb': traceback.format_exc()[-1500:]}
            os.write(w, json.dumps(out, default=repr).encode())
        finally:
            os._exit(0)
    os.close(w)
    data = b''
    while True:
        chunk = os.read(r, 1 << 16)
        if not chunk:
            break
        data += chunk
    os.close(r)
    os.waitpid(pid, 0)
    return json.loads(data.decode()) if data else None


def double_entries(d):
    z = d.z
    seen = {}
    for s in d.srv.children(z.PLACEMENT):
        for a in d.srv.children(z.path.placement(s)):
            seen.setdefault(a, []).append(s)
    return {a: ss for a, ss in seen.items() if len(ss) > 1}


def stored_over_limit(d):
    """Affinity head-room of the STORED placement: per bucket (server, rack, pod, cell) the number of recorded
    instances of one affinity name against the limits those instances carry (live instances of one affinity name
    share one limit set in these histories).  A cycle deletes before it creates, so at every cut the store is
    between two states the scheduler decided and never above a limit."""
    z, H = d.z, d.H
    count = {}
    lim = {}
    recorded = {}
    for s in d.srv.children(z.PLACEMENT):
        for a in d.srv.children(z.path.placement(s)):
            recorded[a] = recorded.get(a, 0) + 1
    for s in d.srv.children(z.PLACEMENT):
        if s not in H.servers:
            continue
        for a in d.srv.children(z.path.placement(s)):
            ha = H.apps.get(a)
            if ha is None or recorded[a] > 1 or a in getattr(d, 'planted_apps', ()):
                # an instance recorded under two servers (planted: what a master of another version left behind) is
                # C10's matter; its successor keeps one of the two records, which one is not for this count to say,
                # and the record the harness planted is not a placement any scheduler decided
                continue
            for level, node in oracles.ancestors(H, s):
                key = (level, node, ha['affinity'])
                count[key] = count.get(key, 0) + 1
                if level in ha['limits']:
                    lim[key] = min(lim.get(key, INF), ha['limits'][level])
    return {k: (n, lim[k]) for k, n in count.items() if k in lim and n > lim[k]}


# ---------------------------------------------------------------------------
# C10
def cut_and_restart(h, when, op, path, k):
    """Child body: the master died before its k-th write of this publication."""
    d = h.d
    d.srv.before_write = None
    d.cutter = None             # the child never forks again (fork hygiene)
    out = {'violations': [], 'k': k, 'when': when, 'op': op, 'path': path}
    dbl = double_entries(d)
    if dbl:
        out['violations'].append(('double-placement-at-cut:' + when,
                                  'master stopped before write %d (%s %s) of %s: %s' % (k, op, path, when, dbl)))
    try:
        d.start_master()
    except BaseException as err:   # noqa
        fr = mengine.cengine._exc_site(sys.exc_info()[2])
        out['violations'].append(('restart-failed:%s@%s:after-cut-in-%s' % (type(err).__name__, fr.name, when),
                                  'new master failed to start after a cut before write %d (%s %s): %s' % (k, op, path, err)))
        return out
    for v in mengine.c09_oracle(d, 'after-restart'):
        out['violations'].append((v.mechanism.replace('C09', 'C10') + ':cut-in-' + when, v.message + ' [cut before write %d: %s %s]' % (k, op, path)))
    try:
        d.master.check_placement_integrity()
    except BaseException as err:   # noqa
        out['violations'].append(('integrity-check-failed:cut-in-' + when,
                                  'new master fails its own integrity check after a cut before write %d (%s %s): %s' % (k, op, path, err)))
    dbl = double_entries(d)
    if dbl:
        out['violations'].append(('double-placement-after-restart:' + when, str(dbl)))
    return out


def stored_duplicate_identities(d):
    """Identity groups at the STORED placement: two recorded instances of one group carrying the same identity."""
    z, H = d.z, d.H
    seen = {}
    for s in d.srv.children(z.PLACEMENT):
        for a in d.srv.children(z.path.placement(s)):
            ha = H.apps.get(a)
            if ha is None or not ha.get('group'):
                continue
            data = d.zkutils.get_default(d.admin, z.path.placement(s, a)) or {}
            if data.get('identity') is None:
                continue
            seen.setdefault((ha['group'], data['identity']), set()).add(a)
    return {k: sorted(v) for k, v in seen.items() if len(v) > 1}


class HeadroomSession:
    """C04 at the store: while the master publishes (init_schedule / reschedule), before each of its writes - the
    state a crash at that point leaves to the successor, which restores recorded placements verbatim - the stored
    placement must respect the affinity limits at every level.  Inline (no fork): only the store is read."""
    armed = False

    def __init__(self, h, ctx, what='C04'):
        self.h, self.ctx = h, ctx
        self.when = None
        self.what = what

    def _check(self, op, path):
        d = self.h.d
        if self.what == 'C05':
            # ... and no identity is recorded for two instances of one group (the successor restores both)
            self.ctx.count('stored_identities_checked_at_cut')
            dup = stored_duplicate_identities(d)
            if dup:
                (group, ident), names = sorted(dup.items())[0]
                self.ctx.violation('duplicate-identity:stored-at-cut',
                                   'a master that stops before %s %s of %s leaves identity %s of group %s recorded for %s' % (
                                       op, path, self.when, ident, group, names),
                                   case=dict(ops=d.ops[-40:], cycle=self.h.cycles))
                d.srv.before_write = None
            return
        self.ctx.count('stored_affinity_headroom_checked_at_cut')
        over = stored_over_limit(d)
        if over:
            (level, node, aff), (n, lim) = sorted(over.items())[0]
            self.ctx.violation('limit-exceeded:stored-at-cut:%s' % level,
                               'a master that stops before %s %s of %s leaves %d recorded instances of affinity %s in %s %s '
                               '(limit %s) to its successor' % (op, path, self.when, n, aff, level, node, lim),
                               case=dict(ops=d.ops[-40:], cycle=self.h.cycles))
            d.srv.before_write = None

    def arm(self, when):
        d = self.h.d
        self.when = when
        self.armed = True

        def hook(client, op, path):
            if client is d.mclient:
                self._check(op, path)
        d.srv.before_write = hook

    def disarm(self, final=True):
        self.armed = False
        self.h.d.srv.before_write = None


class CutSession:
    """Arms the before-write hook of the fake ZooKeeper while the master
    publishes (reschedule / init_schedule): every write is a crash point."""

    def __init__(self, h, ctx):
        self.h, self.ctx = h, ctx
        self.k = 0
        self.when = None
        self.deletes = self.creates = 0
        self.cuts_this = 0

    def arm(self, when):
        d = self.h.d
        self.k = 0
        self.when = when
        self.deletes = self.creates = 0
        self.cuts_this = 0

        def hook(client, op, path):
            if client is not d.mclient:
                return
            self.k += 1
            self.cuts_this += 1
            if path.startswith('/placement/') and path.count('/') == 3:
                if op == 'delete':
                    self.deletes += 1
                elif op == 'create':
                    self.creates += 1
            self.cut(op, path)
        d.srv.before_write = hook

    def disarm(self, final=True):
        d = self.h.d
        d.srv.before_write = None
        if final and self.when:
            self.k += 1
            self.cut('<end>', '-')
        if self.deletes and self.creates:
            self.ctx.count('cycles_with_delete_and_create')

    def mid_command(self, op, path):
        """A side world (forked child, the history itself goes on undisturbed): right before the next ZooKeeper request
        of an operator command that is half-way, the master handles what its watches have for it and publishes a
        whole cycle; every write of that publication is a crash point - the state a crash there leaves is the store
        right before the write."""
        h, ctx = self.h, self.ctx

        def child():
            d = h.d
            d.srv.before_write = None
            d.srv.on_op = None
            d.cutter = None
            out = {'violations': [], 'writes': 0, 'delivered': 0}
            try:
                out['delivered'] = d.deliver()
            except BaseException as err:   # noqa  (the master dies on the half-finished command: no publication)
                out['died'] = '%s: %s' % (type(err).__name__, err)
                return out
            seen = set()

            def hook(client, wop, wpath):
                if client is not d.mclient:
                    return
                out['writes'] += 1
                present = set(d.srv.children(d.z.SERVERS))
                for a, ss in double_entries(d).items():
                    ss = [x for x in ss if x in present]
                    if len(ss) < 2:
                        # one of the records sits under a server whose /servers node is already gone: the operator
                        # command in flight is deleting that server and wipes its records next, whatever the master does
                        out['under_vanishing_server'] = out.get('under_vanishing_server', 0) + 1
                        continue
                    if a not in seen:
                        seen.add(a)
                        out['violations'].append((
                            'double-placement-at-cut:reschedule-between-operator-writes',
                            'the operator command stands before its request %s %s; the master handled what was pending and '
                            'stopped before write %d (%s %s) of the cycle it then published: %s is recorded under %s' % (
                                op, path, out['writes'], wop, wpath, a, ss)))
            d.srv.before_write = hook
            try:
                d.master.reschedule()
            except BaseException as err:   # noqa
                out['died'] = '%s: %s' % (type(err).__name__, err)
            d.srv.before_write = None
            hook(d.mclient, '<end>', '-')
            return out
        res = in_child(child)
        ctx.count('cycles_published_between_operator_writes')
        if res is None or 'harness_error' in (res or {}):
            ctx.count('cut_child_died')
            if res:
                ctx.notes.append(res['harness_error'] + res.get('tb', ''))
            return
        if res.get('delivered') and res.get('writes', 0) > 1:
            ctx.count('cycles_between_operator_writes_with_events_and_writes')
        if res.get('under_vanishing_server'):
            ctx.count('double_records_under_a_server_being_deleted_at_a_cut')
        for mech, msg in res['violations']:
            ctx.violation(mech, msg, witness=dict(op=op, path=path), case=dict(ops=h.d.ops[-40:], cycle=h.cycles))

    def cut(self, op, path):
        h, ctx = self.h, self.ctx
        k, when = self.k, self.when
        res = in_child(lambda: cut_and_restart(h, when, op, path, k))
        ctx.count('cuts')
        if path.startswith('/placement/') and path.count('/') == 3 and self.deletes and self.creates:
            ctx.count('cuts_inside_delete_create_cycle')
            ctx.nontrivial_key((ctx.shard, ctx.case_index, h.cycles, k))
        if res is None:
            ctx.count('cut_child_died')
            return
        if 'harness_error' in res:
            ctx.notes.append(res['harness_error'] + res.get('tb', ''))
            ctx.count('cut_child_harness_error')
            return
        for mech, msg in res['violations']:
            ctx.violation(mech, msg, witness=dict(k=k, when=when, op=op, path=path),
                          case=dict(ops=h.d.ops[-40:], cycle=h.cycles))


# ---------------------------------------------------------------------------
# C11
def reference_from_store(d):
    """What the stored state says, computed from ZooKeeper + the harness record
    only: {server: (healthy, {instance: (identity, expires)})}."""
    z = d.z
    H = d.H
    scheduled = set(d.srv.children(z.SCHEDULED))
    dump = d.srv.dump(z.PLACEMENT)
    pres = d.srv.dump(z.SERVER_PRESENCE)
    ref = {}
    for s in d.srv.children(z.PLACEMENT):
        entries = {}
        for a in d.srv.children(z.path.placement(s)):
            if a not in scheduled or a not in H.apps:
                continue
            data, stat = dump[z.path.placement(s, a)]
            obj = json.loads(data.decode()) if data else {}
            entries[a] = (obj.get('identity'), obj.get('expires', 0), stat.ctime)
        hs = H.servers.get(s)
        healthy = hs is not None
        why = None
        ppath = z.path.server_presence(s)
        if healthy and ppath not in pres:
            healthy, why = False, 'no-presence'
        if healthy:
            pct = pres[ppath][1].ctime
            if any(pct > e[2] for e in entries.values()):
                healthy, why = False, 'restarted-since-placed'
        if healthy:
            total = np.zeros(3)
            per_aff = {}
            for a in entries:
                ha = H.apps[a]
                total += np.array(ha['demand'], dtype=float)
                per_aff.setdefault(ha['affinity'], []).append(ha)
                req = oracles.required_traits(H, ha)
                if ha['alloc'][0] != hs['label'] or (hs['traits'] & req) != req:
                    healthy, why = False, 'partition-or-traits'
            if np.any(total > np.array(hs['cap'], dtype=float)):
                healthy, why = False, 'capacity'
            for aff, lst in per_aff.items():
                if len(lst) > min(x['limits'].get('server', INF) for x in lst):
                    healthy, why = False, 'server-affinity-limit'
        ref[s] = (healthy, why, entries)
    return ref


def restart_and_compare(h, ref=None, old=None):
    """Child body: new master, load_model() only, compare with the store."""
    d = h.d
    d.srv.before_write = None
    out = {'violations': [], 'healthy_entries': 0, 'unhealthy': {}, 'flags': {}}
    ref = ref if ref is not None else reference_from_store(d)
    old = old if old is not None else d.snapshot_model()
    skew = getattr(h, 'successor_clock_behind', 0)
    if skew:
        # the successor runs on another host whose clock is behind the predecessor's (nothing in the stored state changed)
        h.clock.now -= skew
    if d.mclient is not None:
        d.mclient.dead = True
    d.mclient = d.srv.client('master-c11')
    m = d.master_mod.Master(d.zkbackend.ZkBackend(d.mclient), 'cell')
    vanish = getattr(h, 'record_vanishes_at', 0)
    if vanish:
        # another writer (the deposed master completing a delete, an operator) removes one placement record between the
        # successor's listing of a server's records and its read of that record: that record is not part of the stored
        # state any more, everything else is
        seen = [0]
        z = d.z

        def hook(client, op, path):
            if client is d.mclient and op == 'get' and path.startswith(z.PLACEMENT + '/') and path.count('/') == 3 and seen[0] >= 0:
                seen[0] += 1
                if seen[0] == vanish:
                    seen[0] = -1
                    s_, a_ = path.split('/')[2:4]
                    d.zkutils.ensure_deleted(d.admin, path)
                    if s_ in ref and a_ in ref[s_][2]:
                        ref[s_][2].pop(a_)
                    out['flags']['record_vanished_between_listing_and_read'] = True
        d.srv.on_op = hook
    try:
        m.load_model()
    except BaseException as err:   # noqa
        fr = mengine.cengine._exc_site(sys.exc_info()[2])
        out['violations'].append(('load-model-failed:%s@%s' % (type(err).__name__, fr.name), str(err)))
        return out
    return compare_loaded(d, m, ref, old, out)


def compare_loaded(d, m, ref, old, out=None):
    """The C11 oracle proper: the model `m` has just been rebuilt from the store that `ref` describes."""
    if out is None:
        out = {'violations': [], 'healthy_entries': 0, 'unhealthy': {}, 'flags': {}}
    cell = m.cell
    recorded_anywhere = {}
    for s, (healthy, why, entries) in ref.items():
        for a in entries:
            recorded_anywhere.setdefault(a, []).append(s)
        if not healthy:
            out['unhealthy'][why] = out['unhealthy'].get(why, 0) + 1
            continue
        for a, (ident, expires, _ct) in entries.items():
            out['healthy_entries'] += 1
            app = cell.apps.get(a)
            if app is None:
                out['violations'].append(('recorded-instance-dropped', '%s recorded under healthy %s is not in the model' % (a, s)))
                continue
            if app.server != s:
                out['violations'].append(('recorded-placement-not-restored',
                                          '%s recorded under healthy %s, rebuilt model has it on %r' % (a, s, app.server)))
                continue
            if app.identity != ident:
                out['violations'].append(('recorded-identity-not-restored',
                                          '%s on %s recorded identity %r, rebuilt %r' % (a, s, ident, app.identity)))
            if app.placement_expiry != expires:
                out['violations'].append(('recorded-expiry-not-restored',
                                          '%s on %s recorded expires %r, rebuilt %r' % (a, s, expires, app.placement_expiry)))
            if old.get(a, (None,))[0] != s:
                out['violations'].append(('failover-moved-instance', '%s was on %r in the old master, %s after fail-over' % (a, old.get(a), s)))
    for a, app in cell.apps.items():
        if app.server is not None and app.server not in recorded_anywhere.get(a, []):
            out['violations'].append(('placed-without-record', 'rebuilt model places %s on %s, which is not recorded' % (a, app.server)))
    H = d.H
    out['flags'] = dict(
        down_with_apps=any(v[2] and H.servers.get(s, {}).get('state') == 'down' for s, v in ref.items()),
        lease_or_once=any(H.apps[a]['lease'] or H.apps[a]['once'] for v in ref.values() for a in v[2]),
        identity=any(e[0] is not None for v in ref.values() for e in v[2].values()),
        restarted=any(v[1] == 'restarted-since-placed' for v in ref.values()),
        # the successor slotted the server for a reboot before the recorded lease ends (e.g. the partition's
        # reboot schedule was declared meanwhile): the record must be restored all the same
        lease_outlives_new_slot=any(
            v[0] and e[1] and H.apps.get(a, {}).get('lease') and s in m.servers and e[1] > m.servers[s].valid_until
            for s, v in ref.items() for a, e in v[2].items()))
    return out
