"""Master-level driver: a real scheduler.master.Master on ZkBackend on the fake
ZooKeeper; events are produced with the repository's own masterapi; the driver
does what Master.run_loop does (handler of the changed watched path, then
reschedule() + check_placement_integrity()) without threads (DESIGN 2.1)."""
import json
import re

import numpy as np

from .. import zkfake
from ..sched import celldrv, oracles

TRAITS = ['T0', 'T1', 'T2', 'T3']
TRAIT_BIT = {'T0': 2, 'T1': 4, 'T2': 8, 'T3': 16}
# traits that are declared nowhere and that no server reports until op_new_trait_then_allocation introduces them
NEW_TRAITS = ['N%d' % i for i in range(8)]
TRAIT_BIT.update({t: 32 << i for i, t in enumerate(NEW_TRAITS)})
UNKNOWN_TRAIT = 'zz-unknown'
# the harness' name for the affinity of manifests without an 'affinity' key (masterapi.create_apps does not fill one in, only
# the instance API does): the scheduler keys them by None - one affinity like any other, with the limits they declare
NOAFF = '~no-affinity-key'


def aff_of(man):
    return man.get('affinity', NOAFF)


def own_mb(spelled):
    """Independent unit parser (megabytes)."""
    s = str(spelled).strip().upper()
    m = re.fullmatch(r'(\d+)([KMGT])', s)
    n, u = int(m.group(1)), m.group(2)
    return {'K': n // 1024, 'M': n, 'G': n * 1024, 'T': n * 1024 * 1024}[u]


def own_cpu(spelled):
    s = str(spelled).strip()
    return int(s[:-1]) if s.endswith('%') else int(s)


def own_secs(spelled):
    if spelled is None:
        return None
    s = str(spelled).strip().lower()
    return int(s[:-1]) * {'s': 1, 'm': 60, 'h': 3600, 'd': 86400}[s[-1]]


def spell_mb(rng, mb):
    c = rng.randrange(6)
    if c == 0 and mb % 1024 == 0 and mb:
        return '%dG' % (mb // 1024)
    if c == 1:
        return '%dK' % (mb * 1024)
    if c == 2:
        return '%dm' % mb
    if c == 3:
        return ' %dM ' % mb
    if c == 4 and mb % (1024 * 1024) == 0 and mb:
        return '%dT' % (mb // 1024 // 1024)
    return '%dM' % mb


def glob_match(pat, s):
    """Own shell-pattern matcher ('*' and '?' only)."""
    if not pat:
        return not s
    if pat[0] == '*':
        return any(glob_match(pat[1:], s[i:]) for i in range(len(s) + 1))
    if not s:
        return False
    if pat[0] == '?' or pat[0] == s[0]:
        return glob_match(pat[1:], s[1:])
    return False


def spell_secs(rng, secs):
    if secs % 60 == 0 and secs and rng.random() < 0.5:
        return '%dm' % (secs // 60)
    return '%ds' % secs


def trait_bits(names):
    b = 0
    for n in names or []:
        b |= TRAIT_BIT.get(n, 1)
    return b


class MProfile:
    def __init__(self, **kw):
        self.n_steps = (8, 22)
        self.p_restart = 0.5
        self.max_servers = 7
        self.weights = None
        self.big_disk = 0.15
        self.p_running = 0.7
        self.p_read_fault = (0.2, 0.02)     # a connection loss at one read while the master handles what is pending: (events pending, none)
        self.__dict__.update(kw)


MWEIGHTS = {
    'create_apps': 10, 'delete_apps': 4, 'prio': 3, 'allocations': 3,
    'server_new': 2, 'server_delete': 1, 'server_cap': 3, 'server_attrs': 2,
    'server_traits': 1, 'presence_down': 4, 'presence_up': 4, 'server_state': 3,
    'blacklist': 2, 'group': 3, 'del_group': 1, 'clock': 6, 'cell_event': 1,
    'integrity': 2, 'restart': 0, 'noop': 1, 'blackout_server': 1, 'partition_schedule': 1, 'bucket_new': 1,
    'stale_finished': 1, 'swap_apps': 1, 'retention_update': 1, 'bucket_remove': 0, 'server_delete_event_lost': 1,
    'servers_reload_all': 1, 'bucket_reparent': 0, 'stale_presence': 2, 'maintenance': 2, 'group_squeeze': 3, 'blackout_then_redeclare': 2, 'agent_reregisters': 2, 'server_stub': 1, 'new_trait_then_allocation': 1, 'clock_back': 0,       # bucket_reparent: C11 only (its profile)
}


class MasterDriver:
    def __init__(self, rng, clock, mon, profile=None):
        from treadmill import scheduler
        from treadmill import zknamespace as z
        from treadmill import zkutils
        from treadmill.scheduler import master, masterapi, zkbackend
        self.sch, self.z, self.zkutils = scheduler, z, zkutils
        self.master_mod, self.api, self.zkbackend = master, masterapi, zkbackend
        scheduler.DIMENSION_COUNT = 3
        self.rng = rng
        self.clock = clock
        self.mon = mon
        self.pf = profile or MProfile()
        # (ZooKeeper's clock is its own: it does not follow the master host's clock when that is stepped back)
        self.zk_offset = 0.0
        self.srv = zkfake.ZkServer(clock=lambda: clock.peek() + self.zk_offset)
        self.srv.keep_log = False
        # a real server lists children in no particular order
        self.srv.child_order, self.srv.order_salt = 'hash', str(rng.random())
        self.admin = self.srv.client('admin')
        self.srv.on_op = self._between_operator_writes
        self.interleaving = False
        self.node_clients = {}      # server -> client holding its presence node
        self.master = None
        self.mclient = None
        self.H = celldrv.HModel()
        self.Z = dict(servers={}, apps={}, allocs=[], groups={}, blacklist=[], buckets={}, cell=[])
        self.delivered = {}         # watched path -> children last delivered
        self.ops = []
        self.nseq = 0
        self.batch = 0
        self.app_batch = {}
        self.marks = {}             # server -> set(apps marked for unscheduling)
        self.restarts = 0
        self.alloc_specs = {}       # (label, path) -> spec (accumulated, allocations are never removed)
        self.assignments = []       # (pattern, priority, key) in load order
        self.depth = 0
        self.lost = {}              # server -> window in which the master learnt that its presence is gone
        self.step_no = 0
        self.state_event_step = {}  # server -> step in which an explicit server_state event was last issued
        self.cutter = None
        self._install_hooks()

    # ------------------------------------------------------------------
    def _install_hooks(self):
        drv_marks = self.marks
        m = self.master_mod.Master
        if getattr(m, '_vf_wrapped', False):
            m._vf_sink[0] = self
            return
        sink = [self]
        orig = m._freeze_server

        def freeze(self_, servername, apps=None, *a, **kw):
            sink[0].marks.setdefault(servername, set()).update(apps or [])
            sink[0].mon.count('freeze_server_calls')
            return orig(self_, servername, apps, *a, **kw)
        m._freeze_server = freeze
        m._vf_wrapped = True
        m._vf_sink = sink
        c = self.sch.Cell
        orig_sched = c.schedule

        def schedule(self_, *a, **kw):
            res = orig_sched(self_, *a, **kw)
            sink[0].last_placement = res
            return res
        c.schedule = schedule

    def _next(self):
        self.nseq += 1
        return self.nseq

    # ------------------------------------------------------------------
    def build(self):
        rng, z, api, zk = self.rng, self.z, self.api, self.admin
        boot = self.srv.client('boot')
        self.master_mod.Master(self.zkbackend.ZkBackend(boot), 'cell').create_rootns()
        self.labels = ['_default'] + ['part%d' % i for i in range(1, rng.choice([1, 2, 2, 3]))]
        self.partition_per_rack = len(self.labels) > 1 and rng.random() < 0.4
        self.rack_label = {}
        self.H.labels = list(self.labels)
        self.traits_on = rng.random() < 0.5
        # the cell's declared trait list: all of them, or a subset (servers then report undeclared traits, which
        # the loader adds on the fly), possibly listing one trait twice
        self.declared = list(TRAITS)
        if rng.random() < 0.5:
            self.declared = rng.sample(TRAITS, rng.randint(1, 3))
            if rng.random() < 0.4:
                self.declared.insert(rng.randrange(len(self.declared) + 1), rng.choice(self.declared))
        self.known_traits = set(self.declared)      # traits the master can have a code for (declared or seen on a server)
        self.zkutils.put(zk, z.path.traits(), self.declared)
        for lb in self.labels[1:]:
            self.zkutils.put(zk, z.path.partition(lb), {})
        depth = rng.choice([1, 1, 2])
        self.depth = depth
        self.leaf_parents = []
        # bucket ids are '<level>:<name>' by convention; a record may instead carry an explicit 'level'
        self.explicit_levels = rng.random() < 0.3
        self.n_racks = self.n_pods = 0
        if depth == 1:
            for _ in range(rng.randint(1, 3)):
                self._new_rack(None)
        else:
            for _ in range(rng.randint(1, 2)):
                pod = self._new_pod()
                for _ in range(rng.randint(1, 2)):
                    self._new_rack(pod)
        self.tenants = ['t%d' % i for i in range(rng.randint(1, 3))]
        self.proids = ['foo', 'bar', 'baz']
        self.appnames = ['%s.app%d' % (p, i) for p in self.proids for i in range(3)]
        # the other legal shape of an instance name: <user>@<proid>.<app>
        self.appnames += ['ops@%s.app0' % p for p in self.proids if rng.random() < 0.5]
        self.op_allocations(initial=True)
        for _ in range(rng.randint(2, self.pf.max_servers)):
            self.op_server_new()
        for g in ('g0', 'g1'):
            if rng.random() < 0.6:
                self.op_group(g, rng.randint(0, 4))
        for _ in range(rng.randint(1, 4)):
            self.op_create_apps()

    def _new_rack(self, parent):
        name = ('r%02d' if self.explicit_levels else 'rack:r%d') % self.n_racks
        self.n_racks += 1
        self._bucket(name, parent, 'rack')
        self.leaf_parents.append(name)
        return name

    def _new_pod(self):
        name = ('p%02d' if self.explicit_levels else 'pod:p%d') % self.n_pods
        self.n_pods += 1
        self._bucket(name, None, 'pod')
        return name

    def _bucket(self, name, parent, level):
        if self.explicit_levels:
            if self.zkutils.put(self.admin, self.z.path.bucket(name), {'traits': 0, 'parent': parent, 'level': level},
                                check_content=True):
                self.api.create_event(self.admin, 0, 'buckets', None)
        else:
            self.api.create_bucket(self.admin, name, parent)
        if parent is None:
            self.api.cell_insert_bucket(self.admin, name)
            self.Z.setdefault('cell_members', set()).add(name)
        self.Z['buckets'][name] = parent
        self.H.buckets[name] = dict(level=level, parent=parent)

    def op_bucket_new(self):
        """The topology grows while the master runs: a rack (under an existing pod, or top level) or a pod with a
        rack is defined ('buckets' event) and inserted into the cell ('cell' event); servers follow."""
        rng = self.rng
        if self.master is not None:
            # the master has handled what was pending before the operator touches the topology (a 'cell' event
            # handled while /cell already lists a bucket whose 'buckets' event is still queued stops the master
            # with a KeyError in load_cell: a robustness matter outside the twenty properties, see DESIGN 6)
            self.settle_delivery()
        if self.depth == 1:
            rack = self._new_rack(None)
        elif rng.random() < 0.5:
            rack = self._new_rack(self._new_pod())
        else:
            pods = sorted(b for b, h in self.H.buckets.items() if h['level'] == 'pod')
            rack = self._new_rack(rng.choice(pods))
        self.ops.append(('bucket_new', rack, self.H.buckets[rack]['parent']))
        for _ in range(rng.randint(1, 2)):
            self.op_server_new(parent=rack)

    # ------------------------------------------------------------------
    # producer-side operations
    def gen_cap(self):
        rng = self.rng
        mem = rng.choice([4, 6, 8, 10, 12, 16]) * 1024
        cpu = rng.choice([4, 6, 8, 10, 12, 16]) * 100
        if rng.random() < self.pf.big_disk:
            disk = rng.choice([1, 2, 40]) * 1024 * 1024          # up to 40T (beyond what a 32-bit float holds exactly)
        else:
            disk = rng.choice([4, 6, 8, 10, 12, 16]) * 1024
        return [mem, cpu, disk]

    def _server_record(self, name, cap, label, parent, traits):
        rng = self.rng
        rec = {'parent': parent, 'partition': label if (label != '_default' or rng.random() < 0.5) else None,
               'memory': celldrv.spell_cap(rng, cap[0], spell_mb), 'cpu': celldrv.spell_cpu(rng, cap[1]),
               'disk': celldrv.spell_cap(rng, cap[2], spell_mb), 'traits': list(traits),
               'up_since': int(self.clock.peek()) - rng.choice([0, 3600, 86400 * 3, 86400 * 10, 86400 * 10, 86400 * 17])}
        return rec

    def op_server_new(self, parent=None, extra_traits=()):
        rng = self.rng
        name = 's%d' % self._next()
        label = rng.choice(self.labels)
        parent = parent or rng.choice(self.leaf_parents)
        if self.partition_per_rack:
            # partitions laid out along the topology: all servers of a rack belong to one partition
            label = self.rack_label.setdefault(parent, label)
        traits = [t for t in TRAITS if self.traits_on and rng.random() < 0.4] + list(extra_traits)
        self.pending_known = getattr(self, 'pending_known', set()) | set(traits)
        cap = self.gen_cap()
        self.api.create_server(self.admin, name, parent, label)
        rec = self._server_record(name, cap, label, parent, traits)
        self.zkutils.update(self.admin, self.z.path.server(name), rec)
        self.api.create_event(self.admin, 0, 'servers', [name])
        self.Z['servers'][name] = dict(rec=rec, cap=cap, label=label, parent=parent, traits=traits)
        self._presence_up(name)
        self.ops.append(('server_new', name, rec))
        return name

    def op_new_trait_then_allocation(self):
        """An operator doing two legal things in quick succession: a server that reports a trait nobody declared or
        reported before is configured and, right behind it, an allocation that requires that trait (and an assignment
        into it).  The master handles events in creation order, so it has a code for the trait when it loads the
        allocations - also when both events are still pending together.  Nothing else happens before the delivery."""
        free = [t for t in NEW_TRAITS if t not in self.known_traits and t not in getattr(self, 'pending_known', set())]
        if not self.traits_on or not free or self.master is None or getattr(self, 'master_died', None):
            return None
        t = free[0]
        name = self.op_server_new(extra_traits=[t])
        label = self.Z['servers'][name]['label']
        self.op_allocations(force=(label, t))
        self.must_settle = True
        self.mon.count('allocation_requires_trait_introduced_by_a_server_event_still_pending')
        return t

    def _presence_up(self, name):
        cl = self.srv.client('node-' + name)
        self.node_clients[name] = cl
        self.zkutils.put(cl, self.z.path.server_presence(name), {}, ephemeral=True,
                         acl=[cl.make_servers_acl()])

    def op_presence_down(self, name):
        cl = self.node_clients.pop(name, None)
        if cl is not None:
            t_gone = self.clock.peek()
            st = self.zkutils.get_default(self.admin, self.z.path.placement(name)) or {}
            if st.get('state') != 'up':
                t_gone = None       # it was not recorded up when it went: its down-since may lie earlier
            self.srv.expire(cl.sid)
            self.lost[name] = dict(t_lo=None, t_hi=None, step=self.step_no, t_gone=t_gone)     # window filled in when the master is told
        self.ops.append(('presence_down', name))

    def op_presence_up(self, name):
        if name not in self.node_clients and name in self.Z['servers']:
            self.lost.pop(name, None)
            self._presence_up(name)
            # a rebooted node reports a new up_since (and sometimes new capacity)
            if self.rng.random() < 0.5:
                rec = self.Z['servers'][name]['rec']
                rec['up_since'] = int(self.clock.peek())
                self.zkutils.update(self.admin, self.z.path.server(name), rec)
        self.ops.append(('presence_up', name))

    def op_server_cap(self, name):
        rng = self.rng
        zs = self.Z['servers'][name]
        cap = list(zs['cap'])
        mode = rng.choice(['new', 'new', 'tiny', 'respelled'])
        if mode == 'new':
            cap = self.gen_cap()
        elif mode == 'tiny':
            i = rng.randrange(3)
            cap[i] = max(1, cap[i] - rng.choice([1, 2, 10]))
        rec = zs['rec']
        spelled = dict(memory=celldrv.spell_cap(rng, cap[0], spell_mb), cpu=celldrv.spell_cpu(rng, cap[1]),
                       disk=celldrv.spell_cap(rng, cap[2], spell_mb))
        if mode == 'tiny':
            spelled = dict(memory='%dM' % cap[0], cpu=cap[1], disk='%dM' % cap[2])
        self.api.update_server_capacity(self.admin, name, **spelled)
        rec.update(spelled)
        zs['cap'] = cap
        self.ops.append(('server_cap', name, mode, spelled))

    def op_server_attrs(self, name):
        label = self.rng.choice(self.labels)
        self.api.update_server_attrs(self.admin, name, label)
        self.Z['servers'][name]['rec']['partition'] = label
        self.Z['servers'][name]['label'] = label
        self.ops.append(('server_attrs', name, label))

    def op_server_traits(self, name):
        zs = self.Z['servers'][name]
        traits = [t for t in TRAITS if self.rng.random() < 0.4]
        self.pending_known = getattr(self, 'pending_known', set()) | set(traits)
        zs['rec']['traits'] = traits
        zs['traits'] = traits
        if self.zkutils.update(self.admin, self.z.path.server(name), zs['rec'], check_content=True):
            self.api.create_event(self.admin, 0, 'servers', [name])
        self.ops.append(('server_traits', name, traits))

    def op_server_delete(self, name):
        self.api.delete_server(self.admin, name)
        self.lost.pop(name, None)
        del self.Z['servers'][name]
        cl = self.node_clients.pop(name, None)
        if cl is not None:
            self.srv.expire(cl.sid)
        self.ops.append(('server_delete', name))

    def op_server_state(self, name, state, apps, foreign=()):
        self.lost.pop(name, None)       # an operator's explicit state event supersedes what presence implied
        self.state_event_step[name] = self.step_no
        self.state_requested = getattr(self, 'state_requested', {})
        self.state_requested[name] = (state, self.step_no, len(self.ops))
        listed = (list(apps or []) + list(foreign)) or None
        self.api.update_server_state(self.admin, name, state, listed)
        if state == 'frozen':
            self.marks.setdefault(name, set()).update(apps or [])
        self.ops.append(('server_state', name, state, listed))

    def op_stale_presence(self):
        """The presence watch reads its listing, the world moves on, then the master's main loop processes that
        listing: a server in it may have lost its presence node meanwhile ('up-then-gone'), one missing from it may
        have registered again ('gone-then-back').  The next cycle runs before the following listing arrives."""
        rng, z = self.rng, self.z
        self.settle_delivery()
        up = sorted(n for n in self.node_clients if n in self.Z['servers'])
        down = sorted(n for n in self.Z['servers'] if n not in self.node_clients)
        kinds = [k for k, ok in (('up-then-gone', down), ('gone-then-back', up)) if ok]
        if not kinds:
            return
        kind = rng.choice(kinds)
        # (only servers whose recorded state is what presence alone made it: up / down with no operator's hand in it)
        cands = [n for n in (down if kind == 'up-then-gone' else up)
                 if (self.zkutils.get_default(self.admin, z.path.placement(n)) or {}).get('state') ==
                 ('down' if kind == 'up-then-gone' else 'up')]
        if not cands:
            return
        self.interleaving = True            # nothing reaches the master in between
        try:
            if kind == 'up-then-gone':
                name = rng.choice(cands)
                self.op_presence_up(name)
                listing = list(self.srv.children(z.SERVER_PRESENCE))
                self.op_presence_down(name)
                self.lost.pop(name, None)
            else:
                name = rng.choice(cands)
                self.op_presence_down(name)
                self.lost.pop(name, None)
                listing = list(self.srv.children(z.SERVER_PRESENCE))
                self.op_presence_up(name)
        finally:
            self.interleaving = False
        if (name in listing) != (kind == 'up-then-gone'):
            return
        self.master.watch_event_handlers[z.SERVER_PRESENCE](list(listing))
        self.master.up_to_date = False
        self.delivered[z.SERVER_PRESENCE] = listing
        self.stale_presence = dict(kind=kind, server=name, step=self.step_no)
        self.mon.count('stale_presence_listing_' + kind)
        self.ops.append(('stale_presence', kind, name))

    def op_group(self, name, count):
        self.api.update_identity_group(self.admin, name, count)
        self.Z['groups'][name] = count
        self.ops.append(('group', name, count))

    def op_group_squeeze(self):
        """The operator shrinks an identity group below an identity a placed member still holds (the holder has to
        give it up and take a lower one); the member holding the lowest identity may be deleted in the same batch,
        so that a lower identity is free.  Returns the group or None."""
        cell = getattr(getattr(self, 'master', None), 'cell', None)
        if cell is None:
            return None
        holders = {}
        for name, app in cell.apps.items():
            if app.identity_group and app.server and app.identity is not None and name in self.Z['apps'] \
                    and app.identity_group in self.Z['groups']:
                holders.setdefault(app.identity_group, {})[app.identity] = name
        cands = sorted(g for g, h in holders.items() if max(h) >= 1)
        if not cands:
            # nothing to squeeze yet: a group of three or four identities gets three small members
            g = self.rng.choice(['g0', 'g1', 'g2'])
            if self.Z['groups'].get(g, 0) < 3:
                self.op_group(g, self.rng.choice([3, 4]))
            man, demand = self.gen_manifest()
            man.update(memory='0M', cpu='0%', disk='0M', identity_group=g, priority=self.rng.choice([10, 50, 100]))
            for k in ('schedule_once', 'traits', 'lease'):
                man.pop(k, None)
            ids = self.api.create_apps(self.admin, self.rng.choice(self.appnames), man, 3)
            for i in ids:
                self.Z['apps'][i] = dict(man=dict(man), demand=[0, 0, 0])
            self.ops.append(('create_apps', ids, man))
            return None
        g = self.rng.choice(cands)
        top = max(holders[g])
        free_below = set(range(top)) - set(holders[g])
        if not free_below or self.rng.random() < 0.3:
            low = holders[g][min(holders[g])]
            if low != holders[g][top]:
                self.api.delete_apps(self.admin, [low])
                del self.Z['apps'][low]
                self.ops.append(('delete_apps', [low]))
        self.op_group(g, top)
        self.mon.count('identity_group_shrunk_below_held_identity')
        return g

    def op_del_group(self, name):
        self.api.delete_identity_group(self.admin, name)
        self.Z['groups'].pop(name, None)
        self.ops.append(('del_group', name))

    def op_blacklist(self):
        rng = self.rng
        bl = list(self.Z['blacklist'])
        mode = rng.choice(['fresh', 'add', 'add', 'add-overlap', 'add-glob', 'remove', 'remove', 'clear'])
        if mode == 'fresh':
            bl = [an for an in self.appnames if rng.random() < 0.12]
            if rng.random() < 0.3:
                bl.append(rng.choice(self.proids) + '.*')
        elif mode == 'add':
            bl.append(rng.choice(self.appnames + [p + '.*' for p in self.proids]))
        elif mode == 'add-glob':
            # blackout entries are shell patterns over the whole application name
            an = rng.choice(self.appnames)
            proid, _, rest = an.partition('.')
            bl.append(rng.choice(['*.' + rest, proid[:1] + '*.' + rest, '?' + proid[1:] + '.*', '*' + rest[-1:],
                                  proid + '.' + rest[:-1] + '?']))
        elif mode == 'add-overlap':
            # a wildcard and an exact entry matching the same application
            an = rng.choice(self.appnames)
            bl += [an, an.split('.')[0] + '.*']
        elif mode == 'remove' and bl:
            bl.remove(rng.choice(bl))
        elif mode == 'clear':
            bl = []
        bl = sorted(set(bl), key=bl.index)
        self.zkutils.put(self.admin, self.z.BLACKEDOUT_APPS, bl)
        self.api.create_event(self.admin, 0, 'apps_blacklist', None)
        self.Z['blacklist'] = bl
        self.ops.append(('blacklist', bl))

    def op_blackout_then_redeclare(self):
        """Two operator commands in quick succession: every application with an instance on one server is blacked out,
        then that server's record is re-declared (a capacity update) - both before the next cycle."""
        hosting = sorted(s_ for s_ in self.Z['servers'] if s_ in self.node_clients and self.srv.children(self.z.path.placement(s_)))
        if not hosting:
            return
        name = self.rng.choice(hosting)
        bases = sorted({a.split('#')[0] for a in self.srv.children(self.z.path.placement(name))})
        bl = sorted(set(self.Z['blacklist']) | set(bases))
        self.zkutils.put(self.admin, self.z.BLACKEDOUT_APPS, bl)
        self.api.create_event(self.admin, 0, 'apps_blacklist', None)
        self.Z['blacklist'] = bl
        self.ops.append(('blacklist', bl))
        self.op_server_cap(name)
        self.mon.count('applications_blacked_out_then_their_server_redeclared')

    def op_agent_reregisters(self):
        """A node agent restarts without a reboot: its presence goes and comes back, presence.register_server rewrites
        the capacity in the server record (what the node measures now) and posts no event; up_since is unchanged."""
        up = sorted(s_ for s_ in self.node_clients if s_ in self.Z['servers'])
        if not up or getattr(self, 'stale_presence', None) or \
                self.delivered.get(self.z.SERVER_PRESENCE) != self.srv.children(self.z.SERVER_PRESENCE):
            return          # (only from a state in which the master knows the present listing)
        name = self.rng.choice(up)
        self.op_presence_down(name)
        self.settle_delivery()          # the master learns that it is gone (a flap it never sees changes nothing for it)
        so = self.master.servers.get(name) if self.master is not None else None
        if so is None or so.state is not self.sch.State.down:
            # an operator's explicit state event processed in the same batch keeps the absent server 'up' (or it is
            # frozen): the master then has no reason to read the record again when the node is back - not this history
            self.lost.pop(name, None)
            self._presence_up(name)
            self.settle_delivery()
            return
        zs = self.Z['servers'][name]
        cap = [max(1, int(c * self.rng.choice([0.5, 0.5, 0.75, 1.0]))) for c in zs['cap']]
        spelled = dict(memory='%dM' % cap[0], cpu='%d%%' % cap[1], disk='%dM' % cap[2])
        zs['rec'].update(spelled)
        zs['cap'] = cap
        self.zkutils.update(self.admin, self.z.path.server(name), zs['rec'])
        self.lost.pop(name, None)
        self._presence_up(name)
        self.settle_delivery()          # ... and that it is back (that is when it reads the record again)
        self.ops.append(('agent_reregisters', name, spelled))
        self.mon.count('agent_reregistered_with_new_capacity_same_boot_time')

    def op_burst(self, count=None):
        """More than a thousand instances of one application submitted at once (one listing of /scheduled names them all)."""
        count = count or self.rng.randint(1005, 1150)
        man, demand = self.gen_manifest()
        man.update(memory='0M', cpu='0%', disk='0M', priority=self.rng.choice([1, 10, 50]))
        for k in ('schedule_once', 'traits', 'lease', 'identity_group', 'affinity_limits', 'data_retention_timeout'):
            man.pop(k, None)
        self.interleaving = True            # (the master is busy: it reads /scheduled once, after the whole burst)
        try:
            ids = self.api.create_apps(self.admin, self.rng.choice(self.appnames), man, count)
        finally:
            self.interleaving = False
        for i in ids:
            self.Z['apps'][i] = dict(man=dict(man), demand=[0, 0, 0])
        self.ops.append(('create_apps_burst', len(ids), ids[0], man))
        self.mon.count('instances_submitted_in_one_burst', len(ids))

    def op_server_stub(self):
        """A create_server that died after its first request: /servers/<name> exists with an empty payload, no event."""
        name = 'stub%d' % self._next()
        self.admin.ensure_path(self.z.path.server(name))
        self.ops.append(('server_stub', name))
        self.mon.count('server_record_with_empty_payload')

    def op_allocations(self, initial=False, force=None):
        rng = self.rng
        allocs = []
        used_patterns = set()
        patterns = list(self.appnames) + [p + '.*' for p in self.proids] + [p + '.app*' for p in self.proids]
        self.trait_alloc = None
        if force is not None:
            # one allocation of the given partition requires the given (just introduced) trait; the application
            # '<proid>.nt' is assigned to it first of all (listed nowhere else)
            label, t = force
            app_id = self.proids[0] + '.nt'
            res = [rng.choice([0, 1, 2]) * 1024, rng.choice([0, 1, 2]) * 100, rng.choice([0, 1, 2]) * 1024]
            obj = {'name': 'ntenant', 'partition': label, 'memory': spell_mb(rng, res[0]),
                   'cpu': celldrv.spell_cpu(rng, res[1]), 'disk': spell_mb(rng, res[2]), 'rank': rng.choice([100, 50, 120]),
                   'rank_adjustment': 0, 'max_utilization': None, 'traits': [t],
                   'assignments': [{'pattern': app_id, 'priority': rng.choice([1, 10, 50])}]}
            obj['_res'] = res
            obj['_eff'] = self._effective_traits(obj['traits'], assume_known={t})
            allocs.append(obj)
            self.trait_alloc = dict(app_id=app_id, key=(label, ('ntenant',)), trait=t)
        for label in self.labels:
            for t in self.tenants:
                if rng.random() < 0.75:
                    depth = rng.choice([1, 1, 2, 3])
                    parts = [t] + ['sub%d' % rng.randint(0, 1) for _ in range(depth - 1)]
                    # sometimes the allocations on the way down are defined too (an allocation that is
                    # both a tenant's own and the parent of another one)
                    chain = [parts]
                    if depth > 1 and rng.random() < 0.5:
                        chain += [parts[:i] for i in range(1, depth) if rng.random() < 0.7]
                    for parts in chain:
                        name = parts[0]
                        for part in parts[1:]:
                            name += rng.choice(['/', ':']) + part
                        res = [rng.choice([0, 0, 1, 2, 4]) * 1024, rng.choice([0, 0, 1, 2, 4]) * 100,
                               rng.choice([0, 0, 1, 2, 4]) * 1024]
                        rank = rng.choice([100, 100, 50, 80, 120, 0])
                        adj = rng.choice([0, 0, 10, 20, 50])
                        if rng.random() >= 0.15:
                            adj = min(rank, adj)        # (else the adjustment may exceed the rank: both are 0..100 by the schema)
                        obj = {'name': name, 'partition': label,
                               'memory': spell_mb(rng, res[0]), 'cpu': celldrv.spell_cpu(rng, res[1]),
                               'disk': spell_mb(rng, res[2]), 'rank': rank, 'rank_adjustment': adj,
                               'max_utilization': rng.choice([None, None, None, 100, 2, 1.5, 1, 0.5, 0]),
                               # a trait the master surely has a code for, or one that is declared nowhere
                               'traits': ([UNKNOWN_TRAIT] if rng.random() < 0.15 else [rng.choice(sorted(self.known_traits))])
                               if self.traits_on and self.known_traits and rng.random() < 0.25 else [],
                               'assignments': []}
                        for an in patterns:
                            # an application may be matched by several entries (a wildcard and an exact one,
                            # or the same pattern under two allocations): the first one listed decides
                            if rng.random() < (0.25 if an not in used_patterns else 0.05):
                                used_patterns.add(an)
                                obj['assignments'].append({'pattern': an, 'priority': rng.choice([0, 1, 10, 50])})
                        rng.shuffle(obj['assignments'])
                        obj['_res'] = res
                        obj['_eff'] = self._effective_traits(obj['traits'])
                        allocs.append(obj)
        if not allocs:
            return
        # the listing order is the administrator's: children may come before their parents
        rng.shuffle(allocs)
        if force is not None:
            allocs.sort(key=lambda a: a['name'] != 'ntenant')        # (stable) its assignment is listed first of all
        wire = [{k: v for k, v in a.items() if not k.startswith('_')} for a in allocs]
        self.api.update_allocations(self.admin, wire)
        self.Z['allocs'] = allocs
        self.ops.append(('allocations', wire))

    def gen_manifest(self):
        rng = self.rng
        H = self.H
        named = [a for a in sorted(H.affinities) if a != NOAFF]
        retired = [a for a in named if H.affinities[a] and
                   not any(aff_of(za['man']) == a for za in self.Z['apps'].values())]
        if (retired and rng.random() < 0.3) or (named and rng.random() < 0.6):
            aff = rng.choice(retired) if retired and rng.random() < 0.5 else rng.choice(named)
            limits = H.affinities[aff]
            if limits and rng.random() < 0.7 and not any(aff_of(za['man']) == aff for za in self.Z['apps'].values()):
                # every instance of the affinity is gone: the application comes back with its limits on other levels
                vals = list(limits.values())
                rng.shuffle(vals)
                levels = rng.sample(['server', 'rack', 'pod', 'cell'], len(vals))
                limits = dict(zip(levels, vals))
                H.affinities[aff] = limits
        else:
            aff = 'aff%d' % self._next()
            limits = {}
            if rng.random() < 0.5:
                for lv in ('server', 'rack', 'pod', 'cell'):
                    if rng.random() < 0.45:
                        limits[lv] = rng.choice([1, 1, 2, 2, 3])
            H.affinities[aff] = limits
        demand = [rng.choice([0, 1, 1, 2, 2, 3, 4, 6]) * 1024, rng.choice([0, 1, 1, 2, 2, 3, 4, 6]) * 100,
                  rng.choice([0, 1, 1, 2, 2, 3, 4, 6]) * 1024]
        if rng.random() < 0.15:
            demand[2] += rng.choice([1, 3, 5, 1023])              # not every demand is a round number
        man = {'memory': spell_mb(rng, demand[0]), 'cpu': celldrv.spell_cpu(rng, demand[1]),
               'disk': spell_mb(rng, demand[2]), 'affinity': aff}
        if rng.random() < 0.06:
            # a manifest written without the 'affinity' key (it is optional in the schema)
            del man['affinity']
            aff = NOAFF
            if NOAFF not in H.affinities or not any(aff_of(za['man']) == NOAFF for za in self.Z['apps'].values()):
                H.affinities[NOAFF] = {lv: rng.choice([1, 1, 2]) for lv in ('server', 'rack', 'pod', 'cell') if rng.random() < 0.5}
            limits = H.affinities[NOAFF]
            self.mon.count('manifests_without_affinity_key')
        if limits:
            man['affinity_limits'] = dict(limits)
        if rng.random() < 0.8:
            man['priority'] = rng.choice([0, 0, 1, 1, 5, 10, 10, 50, 100])
        if rng.random() < 0.35:
            man['identity_group'] = rng.choice(['g0', 'g1', 'g2'])
        if rng.random() < 0.12:
            man['schedule_once'] = True
        if self.traits_on and rng.random() < 0.25:
            man['traits'] = [rng.choice(TRAITS + [UNKNOWN_TRAIT])]
        if rng.random() < 0.3:
            man['lease'] = spell_secs(rng, rng.choice([60, 3600, 86400, 5 * 86400, 9 * 86400, 9 * 86400, 14 * 86400, 30 * 86400]))
        r = rng.choice([None, None, 0, 5, 30, 120])
        if r is not None:
            man['data_retention_timeout'] = spell_secs(rng, r)
        return man, demand

    def op_create_apps(self, priority=None):
        rng = self.rng
        app_id = rng.choice(self.appnames)
        man, demand = self.gen_manifest()
        if priority is not None:
            man['priority'] = priority
        count = rng.choice([1, 1, 2, 3, 4])
        ids = self.api.create_apps(self.admin, app_id, man, count)
        for i in ids:
            self.Z['apps'][i] = dict(man=dict(man), demand=demand)
        self.ops.append(('create_apps', ids, man))

    def _assigned_partition(self, name):
        base = name.split('#')[0]
        for a in self.Z['allocs']:
            for asg in a['assignments']:
                pat = asg['pattern']
                if pat == base or (pat.endswith('*') and base.startswith(pat[:-1])):
                    return a['partition']
        return '_default'

    def op_delete_apps(self, placed_only=False, prefer=()):
        apps = sorted(self.Z['apps'])
        if placed_only:
            # instances that have a placement record right now
            placed = {a for s in self.srv.children(self.z.PLACEMENT) for a in self.srv.children(self.z.path.placement(s))}
            apps = [a for a in apps if a in placed]
            if [a for a in apps if a in prefer]:
                apps = [a for a in apps if a in prefer]
        if not apps:
            return
        victims = self.rng.sample(apps, min(len(apps), self.rng.choice([1, 1, 2])))
        self.api.delete_apps(self.admin, victims)
        for v in victims:
            del self.Z['apps'][v]
        self.ops.append(('delete_apps', victims))

    def op_prio(self):
        # (an instance the master has unscheduled itself meanwhile - schedule-once - is gone from /scheduled)
        apps = sorted(a for a in self.Z['apps'] if self.admin.exists(self.z.path.scheduled(a)))
        if not apps:
            return
        upd = {a: self.rng.choice([0, 1, 5, 10, 50, 100]) for a in self.rng.sample(apps, min(len(apps), 2))}
        import kazoo.exceptions
        try:
            self.api.update_app_priorities(self.admin, upd)
        except kazoo.exceptions.NoNodeError:
            self.mon.count('operator_command_met_vanished_instance')
            return
        for a, p in upd.items():
            self.Z['apps'][a]['man']['priority'] = p
        self.ops.append(('prio', upd))

    def op_plant_duplicate(self):
        """Stored state of a master (of any version) that died between creating a moved instance's record and
        deleting the old one: the instance is recorded under two servers when the next master starts."""
        z = self.z
        servers = [s for s in self.srv.children(z.PLACEMENT) if s in self.Z['servers']]
        cands = [(s, a) for s in servers for a in self.srv.children(z.path.placement(s))]
        if not cands or len(servers) < 2:
            return False
        s, a = self.rng.choice(cands)
        other = self.rng.choice([x for x in servers if x != s])
        data = self.zkutils.get_default(self.admin, z.path.placement(s, a))
        self.zkutils.put(self.admin, z.path.placement(other, a), data)
        self.planted_apps = getattr(self, 'planted_apps', set()) | {a}
        self.ops.append(('plant_duplicate', a, s, other))
        self.mon.count('planted_duplicates')
        return True

    def op_running(self):
        """Node agents register /running/<instance> for what is placed on them."""
        zk, z = self.admin, self.z
        running = set(self.srv.children(z.RUNNING))
        placed = {a for s in self.srv.children(z.PLACEMENT) for a in self.srv.children(z.path.placement(s))}
        for a in sorted(placed - running):
            if self.rng.random() < self.pf.p_running:
                self.zkutils.put(zk, z.path.running(a), 'host')
        for a in sorted(running - placed):
            self.zkutils.ensure_deleted(zk, z.path.running(a))

    def op_clock(self):
        rng = self.rng
        now = self.clock.peek()
        deadlines = []
        for s, h in self.H.servers.items():
            if h.get('state') == 'down' and self.master is not None:
                srv = self.master.servers.get(s)
                if srv is not None:
                    for a in srv.apps.values():
                        deadlines.append(h['since_hi'] + (a.data_retention_timeout or 0))
            if h.get('valid_until'):
                deadlines.append(h['valid_until'])
        for d in list(self.master.pending_start.values()) if self.master else []:
            deadlines.append(d['since'] + 300)
        future = sorted(d for d in deadlines if d > now)
        if future and rng.random() < 0.6:
            d = rng.choice(future[:4])
            dt = max(0.1, d - now + rng.choice([-200.0, -30.0, -2.0, -0.5, 0.5, 2.0, 10.0]))
        else:
            dt = rng.choice([0.5, 1, 3, 10, 40, 100, 400, 86400])
        self.clock.advance(dt)
        self.ops.append(('clock', dt))

    # ------------------------------------------------------------------
    def random_op(self):
        rng = self.rng
        if getattr(self, 'must_settle', False):
            return 'noop'           # the two events of op_new_trait_then_allocation are delivered before anything else happens
        w = dict(MWEIGHTS)
        if self.pf.weights:
            w.update(self.pf.weights)
        names = sorted(w)
        kind = rng.choices(names, [w[n] for n in names])[0]
        servers = sorted(self.Z['servers'])
        if kind == 'create_apps':
            self.op_create_apps()
        elif kind == 'delete_apps':
            self.op_delete_apps()
        elif kind == 'prio':
            self.op_prio()
        elif kind == 'allocations':
            before = {a: self._assigned_partition(a) for a in self.Z['apps']}
            self.op_allocations()
            if rng.random() < 0.5:
                # a running instance is deleted right after its assignment moved (to another partition, if there
                # is such an instance): same batch of events, before the next cycle looks at invalid placements
                moved = [a for a in sorted(self.Z['apps']) if before.get(a) != self._assigned_partition(a)]
                self.op_delete_apps(placed_only=True, prefer=moved)
        elif kind == 'server_new' and len(servers) < self.pf.max_servers + 2:
            self.op_server_new()
        elif kind == 'server_delete' and len(servers) > 1:
            self.op_server_delete(rng.choice(servers))
        elif kind == 'server_cap' and servers:
            self.op_server_cap(rng.choice(servers))
        elif kind == 'server_attrs' and servers:
            self.op_server_attrs(rng.choice(servers))
            if rng.random() < 0.3:
                self.op_delete_apps(placed_only=True)
        elif kind == 'server_traits' and servers and self.traits_on:
            self.op_server_traits(rng.choice(servers))
        elif kind == 'presence_down' and self.node_clients:
            self.op_presence_down(rng.choice(sorted(self.node_clients)))
        elif kind == 'presence_up':
            down = [s for s in servers if s not in self.node_clients]
            if down:
                self.op_presence_up(rng.choice(down))
        elif kind == 'server_state' and servers:
            name = rng.choice(servers)
            state = rng.choice(['frozen', 'frozen', 'up', 'down'])
            apps = None
            foreign = []
            if state == 'frozen':
                on = self.srv.children(self.z.path.placement(name))
                apps = [a for a in on if rng.random() < 0.4] or None
                if rng.random() < 0.3:
                    # a stale list: it also names instances that are not (or no longer) on this server
                    foreign = [a for a in sorted(self.Z['apps']) if a not in on and rng.random() < 0.3][:3]
            self.op_server_state(name, state, apps, foreign)
        elif kind == 'blacklist':
            self.op_blacklist()
        elif kind == 'group':
            self.op_group(rng.choice(['g0', 'g1', 'g2']), rng.choice([0, 1, 2, 2, 3, 4, 6]))
        elif kind == 'group_squeeze':
            self.op_group_squeeze()
        elif kind == 'blackout_then_redeclare':
            self.op_blackout_then_redeclare()
        elif kind == 'agent_reregisters':
            self.op_agent_reregisters()
        elif kind == 'server_stub' and not any(op[0] == 'server_stub' for op in self.ops):
            self.op_server_stub()
        elif kind == 'del_group' and self.Z['groups']:
            self.op_del_group(rng.choice(sorted(self.Z['groups'])))
        elif kind == 'clock':
            self.op_clock()
        elif kind == 'cell_event':
            self.api.create_event(self.admin, 0, 'cell', None)
            self.ops.append(('cell_event',))
        elif kind == 'blackout_server' and servers:
            s = rng.choice(servers)
            path = self.z.path.blackedout_server(s)
            if self.admin.exists(path):
                self.zkutils.ensure_deleted(self.admin, path)
            else:
                self.zkutils.put(self.admin, path, {})
            self.ops.append(('blackout_server', s))
        elif kind == 'bucket_new' and len(self.H.buckets) < 9:
            self.op_bucket_new()
        elif kind == 'stale_finished' and self.Z['apps'] and servers:
            # a terminal event queued on a host that no longer owns the placement reaches ZooKeeper late:
            # trace.app.zk.publish rewrites /finished/<instance> naming that host and leaves /scheduled alone
            a = rng.choice(sorted(self.Z['apps']))
            rec = {'state': rng.choice(['finished', 'killed', 'aborted']), 'when': self.clock.peek(),
                   'host': rng.choice(servers), 'data': rng.choice(['0.0', 'oom', None])}
            self.zkutils.put(self.admin, self.z.path.finished(a), rec)
            self.ops.append(('stale_finished', a, rec['host']))
        elif kind == 'swap_apps' and self.Z['apps']:
            # as many instances deleted as created between two deliveries of /scheduled
            old = sorted(self.Z['apps'])
            self.op_create_apps()
            made = len(self.Z['apps']) - len(old)
            victims = rng.sample(old, min(len(old), made))
            if victims:
                self.api.delete_apps(self.admin, victims)
                for v in victims:
                    del self.Z['apps'][v]
                self.ops.append(('delete_apps', victims))
        elif kind == 'maintenance' and servers:
            # an operator takes a server out (state down), changes it (partition / traits / capacity) and puts it back,
            # preferably one that runs nothing
            idle = [s_ for s_ in servers if not self.srv.children(self.z.path.placement(s_))]
            s_ = rng.choice(idle or servers)
            self.op_server_state(s_, 'down', None)
            what = rng.choice(['attrs', 'traits', 'cap'])
            if what == 'attrs':
                self.op_server_attrs(s_)
            elif what == 'traits' and self.traits_on:
                self.op_server_traits(s_)
            else:
                self.op_server_cap(s_)
            self.op_server_state(s_, 'up', None)
        elif kind == 'stale_presence' and self.master is not None and not getattr(self, 'stale_presence', None):
            self.op_stale_presence()
        elif kind == 'bucket_reparent' and self.depth == 2:
            # a rack is re-declared under another pod (masterapi.create_bucket on an existing id): a running master
            # never loads a bucket twice and keeps its hierarchy, its successor builds the new one
            racks = sorted(b for b, h in self.H.buckets.items() if h['level'] == 'rack')
            pods = sorted(b for b, h in self.H.buckets.items() if h['level'] == 'pod')
            rack = rng.choice(racks)
            others = [p_ for p_ in pods if p_ != self.Z['buckets'][rack]]
            if others:
                pod = rng.choice(others)
                if self.explicit_levels:
                    if self.zkutils.put(self.admin, self.z.path.bucket(rack), {'traits': 0, 'parent': pod, 'level': 'rack'},
                                        check_content=True):
                        self.api.create_event(self.admin, 0, 'buckets', None)
                else:
                    self.api.create_bucket(self.admin, rack, pod)
                self.Z['buckets'][rack] = pod
                self.ops.append(('bucket_reparent', rack, pod))
        elif kind == 'retention_update' and self.Z['apps']:
            # the manifest of a scheduled instance is rewritten in place (another data retention timeout) and the
            # master is told to reload it ('apps' event), as update_app_priorities does for the priority
            a = rng.choice(sorted(self.Z['apps']))
            if not self.admin.exists(self.z.path.scheduled(a)):
                return kind         # unscheduled by the master itself meanwhile (schedule-once)
            man = self.Z['apps'][a]['man']
            r = rng.choice([None, 0, 5, 30, 120, 3600])
            if r is None:
                man.pop('data_retention_timeout', None)
            else:
                man['data_retention_timeout'] = spell_secs(rng, r)
            stored = self.zkutils.get(self.admin, self.z.path.scheduled(a))
            stored.pop('data_retention_timeout', None)
            if r is not None:
                stored['data_retention_timeout'] = man['data_retention_timeout']
            self.zkutils.put(self.admin, self.z.path.scheduled(a), stored)
            self.api.create_event(self.admin, 1, 'apps', [a])
            self.ops.append(('retention_update', a, man.get('data_retention_timeout')))
        elif kind == 'bucket_remove' and self.depth == 2 and self.master is not None:
            # a pod is taken out of the cell while its servers run instances (masterapi.cell_remove_bucket).
            # Weight 0: the histories the properties quantify over add, remove and change servers, not buckets, and the
            # unchanged code mishandles a populated pod that leaves the cell in several ways (DESIGN 6, side observations)
            pods = sorted(b for b, h in self.H.buckets.items() if h['level'] == 'pod' and b in self.Z['cell_members'])
            if len(pods) > 1:
                self.settle_delivery()
                pod = rng.choice(pods)
                self.api.cell_remove_bucket(self.admin, pod)
                self.Z['cell_members'].discard(pod)
                self.ops.append(('bucket_remove', pod))
        elif kind == 'server_delete_event_lost' and len(servers) > 2:
            # masterapi.delete_server that lost its connection after the nodes were deleted and before the 'servers'
            # event was created; the operator then asks for a reload of all servers (a 'servers' event naming none)
            s_ = rng.choice(servers)
            self.zkutils.ensure_deleted(self.admin, self.z.path.server(s_))
            self.zkutils.ensure_deleted(self.admin, self.z.path.placement(s_))
            self.lost.pop(s_, None)
            del self.Z['servers'][s_]
            cl = self.node_clients.pop(s_, None)
            if cl is not None:
                self.srv.expire(cl.sid)
            self.api.create_event(self.admin, 0, 'servers', None)
            self.ops.append(('server_delete_event_lost_then_reload_all', s_))
        elif kind == 'servers_reload_all':
            self.api.create_event(self.admin, 0, 'servers', None)
            self.ops.append(('servers_reload_all',))
        elif kind == 'partition_schedule':
            # what cellsync writes when the partition's reboot schedule is (re)declared: a running master
            # never re-reads it, its successor slots the servers of the partition by the new schedule
            lb = rng.choice(self.labels)        # cellsync also writes /partitions/_default
            days = rng.sample(range(7), rng.randint(1, 3))
            sched = {str(d): [rng.choice([0, 6, 23]), rng.choice([0, 30, 59]), rng.choice([0, 59])] for d in days}
            self.zkutils.put(self.admin, self.z.path.partition(lb), {'reboot-schedule': sched} if rng.random() < 0.85 else {})
            self.ops.append(('partition_schedule', lb, sched))
        elif kind == 'new_trait_then_allocation':
            self.op_new_trait_then_allocation()
        elif kind == 'clock_back' and self.master is not None:
            # the master host's clock is stepped back (time synchronisation); ZooKeeper's is not.  Weight 0 except in C09's
            # profile: the statement of C09 does not depend on time, the retention windows of C08 would not be defined
            back = rng.choice([1, 30, 300, 300, 3600])
            self.clock.now -= back
            self.zk_offset += back
            self.ops.append(('clock_back', back))
            self.mon.count('master_clock_stepped_back')
        elif kind == 'integrity':
            return 'integrity'
        elif kind == 'restart':
            return 'restart'
        return kind

    # ------------------------------------------------------------------
    # master side
    def start_master(self):
        """A (newly elected) master: fresh session, load_model, init_schedule."""
        if self.mclient is not None:
            self.mclient.dead = True           # the old master process is gone
        self.mclient = self.srv.client('master%d' % self.restarts)
        self.restarts += 1
        self.master = self.master_mod.Master(self.zkbackend.ZkBackend(self.mclient), 'cell')
        self.mon.reset_cycle()
        self.last_placement = None
        t_lo = self.clock.peek()
        # the trait codes of a new master: the declared list plus what the stored server records report
        self.known_traits = set(self.declared)
        for zs in self.Z['servers'].values():
            self.known_traits |= set(zs['traits'])
        self.pending_known = set()
        self.must_settle = False
        for a in self.Z['allocs']:
            a['_eff'] = self._effective_traits(a['traits'])
        for b, parent in self.Z['buckets'].items():
            self.H.buckets[b]['parent'] = parent         # a new master builds the hierarchy as it is declared now
        self.master.load_model()
        self.loaded = self.snapshot_model()
        if self.cutter is not None:
            self.cutter.arm('init_schedule')
        try:
            self.master.init_schedule()
        finally:
            if self.cutter is not None:
                cutter, self.cutter = self.cutter, None     # children of the final cut restart without cuts
                try:
                    cutter.disarm()
                finally:
                    self.cutter = cutter
        t_hi = self.clock.peek()
        # a new master has seen everything that is stored now
        for name, w in self.lost.items():
            if w['t_lo'] is None:
                w.update(t_lo=t_lo, t_hi=t_hi)
            else:
                # told to a master that is gone: if that one had not recorded the server down yet (it died first, or did not
                # know the server then), its successor does so on its own clock
                w['t_hi'] = max(w['t_hi'], t_hi)
        z = self.z
        for path in (z.SERVER_PRESENCE, z.SCHEDULED, z.EVENTS, z.BLACKEDOUT_SERVERS):
            self.delivered[path] = self.srv.children(path)
        # events queued while no master was running are still in /events: the children watch a new
        # master attaches delivers them first thing (attach_watchers' initial callback)
        if self.delivered[z.EVENTS]:
            self.delivered[z.EVENTS] = None
        # arrival order after a restart is the order apps are listed in
        self.batch += 1
        for i, n in enumerate(self.srv.children(z.SCHEDULED)):
            self.app_batch[n] = (self.batch, 0)      # listed in no particular order: instances a new master finds together arrive together
        self.sync_H()
        return t_lo, t_hi

    def _effective_traits(self, names, assume_known=()):
        """What an allocation's trait list means when the master loads it: a trait it
        has no code for (declared nowhere, reported by no loaded server) is a requirement
        no server meets."""
        b = 0
        for n in names or []:
            b |= TRAIT_BIT[n] if n in TRAIT_BIT and (n in self.known_traits or n in assume_known) else 1
        return b

    def _between_operator_writes(self, client, op, path):
        """An operator command is several ZooKeeper requests; the master's watches may fire between any two of them.
        Now and then the master handles what is pending right before the next write of the operator."""
        rf = getattr(self, 'read_fault', None)
        if rf is not None and client is self.mclient and op in ('get', 'get_children', 'exists') and path.startswith(rf[0]):
            rf[1] -= 1
            if rf[1] <= 0:
                # the master's connection drops at this one request (kazoo raises ConnectionLoss to the caller)
                import kazoo.exceptions as _kx
                self.read_fault = None
                self.read_fault_fired = (op, path)
                raise _kx.ConnectionLoss()
        if (client is not self.admin or op not in ('create', 'set', 'delete') or self.master is None or self.interleaving
                or getattr(self, 'master_died', None)
                or self.cutter is not None and getattr(self.cutter, 'armed', False)):
            return
        if self.cutter is not None and hasattr(self.cutter, 'mid_command') and self.rng.random() < 0.3:
            self.interleaving = True
            try:
                self.cutter.mid_command(op, path)
            finally:
                self.interleaving = False
        if self.rng.random() >= 0.06:
            return
        self.interleaving = True
        try:
            if self.deliver():
                self.mon.count('deliveries_between_operator_writes')
        except zkfake.Crash:
            raise
        except Exception as err:       # pylint: disable=broad-except
            # the master process dies on what it found half-way through the operator's command (e.g. KeyError in
            # set_server_valid_until for a server whose record is already gone): a robustness matter outside the twenty
            # properties - its successor would load a consistent state; the history ends here without a verdict
            self.master_died = '%s: %s' % (type(err).__name__, err)
            self.mon.count('master_died_between_operator_writes:%s' % type(err).__name__)
        finally:
            self.interleaving = False

    def snapshot_model(self):
        cell = self.master.cell
        return {n: (a.server, a.identity, a.placement_expiry) for n, a in cell.apps.items()}

    def deliver(self, shuffle=True):
        """What the four children watches do: handler(children) for each
        watched path whose children changed (also by the master's own writes)."""
        z = self.z
        paths = [z.SERVER_PRESENCE, z.SCHEDULED, z.EVENTS, z.BLACKEDOUT_SERVERS]
        if shuffle:
            self.rng.shuffle(paths)
        n = 0
        for path in paths:
            if path == z.SERVER_PRESENCE and getattr(self, 'stale_presence', None):
                continue            # the listing that follows a stale one arrives after the next cycle
            cur = self.srv.children(path)
            if cur != self.delivered.get(path):
                self.delivered[path] = cur
                if path == z.SCHEDULED:
                    self.batch += 1
                    for a in cur:
                        self.app_batch.setdefault(a, (self.batch, 0))
                t_lo = self.clock.peek()
                self.master.watch_event_handlers[path](list(cur))
                t_hi = self.clock.peek()
                if path == z.SERVER_PRESENCE:
                    for name, w in self.lost.items():
                        if w['t_lo'] is None and name not in cur:
                            w.update(t_lo=t_lo, t_hi=t_hi)
                self.master.up_to_date = False
                n += 1
        return n

    def _learn_traits(self):
        self.known_traits |= getattr(self, 'pending_known', set())
        self.pending_known = set()

    def settle_delivery(self):
        for _ in range(4):
            if not self.deliver():
                break
        self._learn_traits()
        self.must_settle = False

    # ------------------------------------------------------------------
    def sync_H(self):
        """H := what the master has been told (projection of the harness'
        own desired state Z), plus the published state / reboot records."""
        H, Z, z = self.H, self.Z, self.z
        H.groups = dict(Z['groups'])
        # allocations accumulate (never removed)
        for label in self.labels:
            self.alloc_specs.setdefault((label, ()), dict(reserved=[0, 0, 0], rank=100, adj=0, maxutil=None, traits=0))
        self.assignments = []
        for a in Z['allocs']:
            parts = tuple(re.split('[/:]', a['name']))
            label = a['partition']
            for i in range(1, len(parts)):
                self.alloc_specs.setdefault((label, parts[:i]),
                                            dict(reserved=[0, 0, 0], rank=100, adj=0, maxutil=None, traits=0))
            self.alloc_specs[(label, parts)] = dict(
                reserved=list(a['_res']), rank=a['rank'], adj=a['rank_adjustment'],
                maxutil=a['max_utilization'], traits=a['_eff'])
            for asg in a['assignments']:
                self.assignments.append((asg['pattern'], asg['priority'], (label, parts)))
        H.allocs = self.alloc_specs
        # servers
        H.servers = {}
        for name, zs in Z['servers'].items():
            top = zs['parent']
            while self.H.buckets.get(top, {}).get('parent'):
                top = self.H.buckets[top]['parent']
            if top not in Z.get('cell_members', ()):
                continue        # its pod was taken out of the cell: not a server of the cell any more
            st = self.zkutils.get_default(self.admin, z.path.placement(name))
            pres = self.zkutils.get_default(self.admin, z.path.server_presence(name))
            state, since = (st['state'], st['since']) if st else (None, None)
            H.servers[name] = dict(
                cap=list(zs['cap']), label=zs['label'], traits=trait_bits(zs['traits']),
                parent=zs['parent'], valid_until=(pres or {}).get('valid_until') or 0,
                state=state, since_lo=since, since_hi=since, spelled=zs['rec'],
                unsched=self.marks.get(name, set()), present=name in self.node_clients,
                lost=dict(self.lost[name]) if name in self.lost and self.lost[name]['t_lo'] is not None and
                self.state_event_step.get(name, -1) < self.lost[name]['step'] else None)
        # apps (only those the master has been told about: delivered /scheduled)
        told = set(self.delivered.get(z.SCHEDULED, []))
        stored = set(self.srv.children(z.SCHEDULED))
        for name in [n for n in Z['apps'] if n not in stored]:
            del Z['apps'][name]         # unscheduled by the master itself (schedule-once)
        H.apps = {}
        for name, za in Z['apps'].items():
            if name not in told:
                continue
            man = za['man']
            base = name.split('#')[0]
            prio, key = 1, ('_default', ('_default', base.split('.')[0]))
            for pat, p, k in self.assignments:
                if pat == base or (pat.endswith('*') and base.startswith(pat[:-1])):
                    prio, key = p, k
                    break
            if key not in H.allocs:
                for i in range(1, len(key[1]) + 1):
                    H.allocs.setdefault((key[0], key[1][:i]),
                                        dict(reserved=[0, 0, 0], rank=100, adj=0, maxutil=None, traits=0))
            if 'priority' in man and man['priority'] != -1:
                prio = man['priority']
            bl = any(glob_match(b, base) for b in Z['blacklist'])
            H.apps[name] = dict(
                name=name, demand=list(za['demand']), priority=prio, affinity=aff_of(man),
                limits=dict(man.get('affinity_limits', {})), lease=own_secs(man.get('lease', '0s')),
                retention=own_secs(man.get('data_retention_timeout')), group=man.get('identity_group'),
                once=bool(man.get('schedule_once')), traits=trait_bits(man.get('traits')),
                alloc=key, blacklisted=bl, seq=self.app_batch.get(name, (0, 0)), spelled=man)
        # a still-told app that the harness already deleted stays known to the
        # master until /scheduled is delivered: keep it out of H (oracles skip
        # instances not in H)
        return H
