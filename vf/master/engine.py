"""Master-level history engine: C01/C03-C08 oracles on the master's cell plus
the C09 oracle (published placement == model) after every cycle."""
import sys
import traceback

from .. import env
from ..sched import engine as cengine
from ..sched import oracles
from . import drv as mdrv

MON = cengine.MON


def c09_oracle(d, when):
    """Full dump of /placement/** vs master.cell."""
    out = []
    z = d.z
    cell = d.master.cell
    scheduled = set(d.srv.children(z.SCHEDULED))
    stored = {}
    for s in d.srv.children(z.PLACEMENT):
        for a in d.srv.children(z.path.placement(s)):
            stored.setdefault(a, []).append(s)
    for a, servers in stored.items():
        if len(servers) > 1:
            out.append(oracles.V('C09', 'entry-under-two-servers', '%s stored under %s (%s)' % (a, servers, when)))
    members = cell.members()
    for sname in set(members) | set(d.srv.children(z.PLACEMENT)):
        have = set(d.srv.children(z.path.placement(sname)))
        want = set(members[sname].apps) if sname in members else set()
        for a in sorted(have - want):
            app = cell.apps.get(a)
            if a not in scheduled:
                kind = 'unscheduled'
            elif app is None or app.server is None:
                kind = 'pending'
            else:
                kind = 'placed-elsewhere'
            out.append(oracles.V('C09', 'stale-entry:%s:%s' % (kind, when),
                                 '/placement/%s/%s exists but the model has it %s' % (sname, a, kind)))
        for a in sorted(want & have):
            if a not in scheduled:
                # model and store agree with each other, but the instance is no longer scheduled at all
                out.append(oracles.V('C09', 'entry-of-unscheduled-instance:' + when,
                                     '/placement/%s/%s exists (and the model still places it) but /scheduled/%s is gone' % (sname, a, a)))
        for a in sorted(want - have):
            out.append(oracles.V('C09', 'missing-entry:' + when,
                                 'model places %s on %s, no entry stored' % (a, sname)))
        for a in sorted(want & have):
            data = d.zkutils.get_default(d.admin, z.path.placement(sname, a)) or {}
            app = cell.apps[a]
            if data.get('identity') != app.identity:
                out.append(oracles.V('C09', 'stale-identity:' + when,
                                     '/placement/%s/%s identity %r, model %r' % (sname, a, data.get('identity'), app.identity)))
            if data.get('expires') != app.placement_expiry:
                out.append(oracles.V('C09', 'stale-expiry:' + when,
                                     '/placement/%s/%s expires %r, model %r' % (sname, a, data.get('expires'), app.placement_expiry)))
    return out


def c05_published_oracle(d, when):
    """C05 at Master level: the identity published in /placement/<server>/<instance> is the one the
    model holds, and no two published members of a group carry the same identity."""
    out = []
    z = d.z
    cell = d.master.cell
    seen = {}
    for s in d.srv.children(z.PLACEMENT):
        for a in d.srv.children(z.path.placement(s)):
            app = cell.apps.get(a)
            h = d.H.apps.get(a)
            if app is None or h is None or not h['group'] or app.server != s:
                continue
            data = d.zkutils.get_default(d.admin, z.path.placement(s, a)) or {}
            ident = data.get('identity')
            if ident != app.identity:
                out.append(oracles.V('C05', 'published-identity-differs-from-model:' + when,
                                     '/placement/%s/%s publishes identity %r, the model holds %r' % (s, a, ident, app.identity)))
            if ident is not None:
                seen.setdefault((h['group'], ident), []).append(a)
    for (g, ident), apps in seen.items():
        if len(apps) > 1:
            out.append(oracles.V('C05', 'published-duplicate-identity:' + when,
                                 'identity %r of %s is published for %s' % (ident, g, sorted(apps))))
    return out


class MHistory:
    def __init__(self, ctx, rng, profile, props):
        self.ctx = ctx
        self.rng = rng
        self.props = list(props)
        self.clock = env.VClock()
        self.clock.install()
        MON.install()
        MON.counters.clear()
        MON.reset_cycle()
        self.d = mdrv.MasterDriver(rng, self.clock, MON, profile)
        self.dead = set()
        self.flags = {p: False for p in props}
        self.cycles = 0
        self.aborted = False
        self.seen_evict = False
        self.moved = 0
        self.hooks = []          # callables(h, when) run after each completed cycle

    def guard(self, fn, what):
        try:
            return fn()
        except AssertionError:
            et, ev, tb = sys.exc_info()
            self._exception(et, ev, tb, what)
        except zk_crash():
            raise
        except Exception:   # noqa
            self._exception(*sys.exc_info(), what)
        return None

    def _exception(self, et, ev, tb, what):
        fr = cengine._exc_site(tb)
        self.aborted = True
        self.ctx.violation('exception:%s@%s:%s' % (et.__name__, fr.name, what),
                           '%s in %s line %s during %s: %s' % (et.__name__, fr.name, fr.lineno, what, ev),
                           witness=traceback.format_exception(et, ev, tb)[-4:],
                           case=dict(ops=self.d.ops[-40:], cycle=self.cycles))

    # ------------------------------------------------------------------
    def run(self):
        d = self.d
        d.build()
        if self.guard(self.start, 'start') is None:
            return self
        n = self.rng.randint(*d.pf.n_steps)
        restart_at = {self.rng.randrange(n)} if self.rng.random() < d.pf.p_restart else set()
        every = getattr(d.pf, 'restart_every', 0)
        if every:
            restart_at |= {i for i in range(n) if self.rng.random() < every}
        if getattr(d.pf, 'standby', False):
            self.guard(self.start_standby, 'standby-start')
        burst_at = self.rng.randrange(n) if getattr(d.pf, 'burst', False) else -1
        for i in range(n):
            if self.aborted:
                break
            if i == burst_at:
                d.op_burst()
            integrity = False
            for _ in range(self.rng.choice([1, 1, 2, 3])):
                kind = d.random_op()
                integrity = integrity or kind == 'integrity'
            if getattr(d, 'master_died', None):
                self.ctx.count('histories_ended_master_died_between_operator_writes')
                self.aborted = True
                break
            if i in restart_at and self.rng.random() < 0.6:
                # work piles up while no master runs: the new master's first cycle has to evict / move
                for _ in range(self.rng.randint(1, 3)):
                    d.op_create_apps(priority=self.rng.choice([50, 100, 100]))
            if i in restart_at and self.rng.random() < 0.5:
                # things change while no master runs: the records of a server that hosts something are met by the
                # new master's start-up path only - its node goes away, it is re-labelled into another partition or
                # shrinks (its instances move between servers that are up), an identity group shrinks below an
                # identity a placed member holds
                hosts = sorted(s for s in d.node_clients if d.srv.children(d.z.path.placement(s)))
                what = self.rng.choice(['node-lost', 'node-lost', 'relabel', 'shrink'])
                if self.rng.random() < 0.45 and d.op_group_squeeze():
                    self.ctx.count('identity_group_shrunk_during_master_outage')
                elif hosts:
                    victim = self.rng.choice(hosts)
                    if what == 'node-lost':
                        d.op_presence_down(victim)
                        self.ctx.count('node_lost_during_master_outage')
                    elif what == 'relabel' and len(d.labels) > 1:
                        d.op_server_attrs(victim)
                        self.ctx.count('server_relabelled_during_master_outage')
                    elif what == 'shrink':
                        d.op_server_cap(victim)
                        self.ctx.count('server_capacity_changed_during_master_outage')
            if self.rng.random() < 0.6:
                d.op_running()
            if i in restart_at and self.rng.random() < 0.2:
                d.op_plant_duplicate()
            if i in restart_at:
                self.ctx.count('master_restarts')
                d.ops.append(('restart',))
                if self.guard(self.start, 'restart') is None:
                    break
                continue
            if self.guard(lambda: self.step(integrity), 'step') is None:
                break
        if getattr(self, 'standby_thread', None) is not None and not self.aborted:
            self.guard(self.failover_to_standby, 'failover')
        return self

    # ------------------------------------------------------------------
    def start_standby(self):
        """A second master process is started the way the service starts it - Master.run(): it queues for
        the election lock the leader holds - and is left waiting while the history goes on."""
        import threading
        d = self.d
        path = d.z.path.election('treadmill.scheduler.master')
        d.mclient.ensure_path(path)
        d.mclient.Lock(path).acquire()
        self.standby_client = d.srv.client('standby')
        sb = d.master_mod.Master(d.zkbackend.ZkBackend(self.standby_client), 'cell')
        self.standby = sb
        self.standby_result = {}
        hist = self

        class _Elected(BaseException):
            pass

        def init_schedule_hook():
            # the model the new leader has when it is about to compute its first cycle
            from . import crash
            ref, old = hist.standby_ref
            hist.standby_result['out'] = crash.compare_loaded(d, sb, ref, old)
            raise _Elected()
        sb.init_schedule = init_schedule_hook

        def body():
            try:
                sb.run(once=True)
            except _Elected:
                pass
            except BaseException as err:      # noqa
                hist.standby_result['error'] = '%s: %s' % (type(err).__name__, err)
                hist.standby_result['tb'] = traceback.format_exc()[-1200:]
        t = threading.Thread(target=body, daemon=True)
        t.start()
        self.standby_thread = t
        # until it is queued on the lock
        import time as _time
        for _ in range(400):
            if d.srv.lock_waiters.get(path):
                break
            if not t.is_alive():
                break
            _time.sleep(0.005)
        self.ctx.count('standby_masters_started')
        return True

    def failover_to_standby(self):
        import os as _os
        from . import crash
        d = self.d
        d.settle_delivery()
        self.standby_ref = (crash.reference_from_store(d), d.snapshot_model())
        real_exit = _os._exit

        def fake_exit(code):
            raise RuntimeError('os._exit(%r) in the standby master' % (code,))
        _os._exit = fake_exit
        try:
            d.mclient.dead = True
            d.srv.expire(d.mclient.sid)          # the leader is gone: its session ends, the lock is free
            self.standby_thread.join(60)
        finally:
            _os._exit = real_exit
        res = self.standby_result
        self.ctx.count('standby_failovers')
        case = dict(ops=d.ops[-40:], cycle=self.cycles, when='standby-failover')
        if self.standby_thread.is_alive():
            self.ctx.count('standby_never_elected')
            return True
        if 'error' in res:
            self.ctx.violation('standby-master-failed-to-start', res['error'], witness=res.get('tb'), case=case)
            return True
        out = res.get('out')
        if out is None:
            self.ctx.count('standby_elected_without_reaching_init_schedule')
            return True
        self.ctx.count('standby_healthy_entries', out['healthy_entries'])
        for mech, msg in out['violations']:
            self.ctx.violation(mech + ':standby-failover', msg, case=case)
        return True

    def start(self):
        d = self.d
        pre = {}
        t_lo, t_hi = d.start_master()
        self.after_cycle(pre, t_lo, t_hi, 'init_schedule', startup=True)
        return True

    def step(self, integrity):
        d = self.d
        d.step_no += 1
        # now and then the master's connection drops at one of the requests it makes while it handles what is pending
        # (the k-th read under one of the trees it reads): the process dies on the ConnectionLoss - a new master starts -
        # or it copes; either way what is published afterwards is judged as always
        import kazoo.exceptions as _kx
        pf_ = getattr(d.pf, 'p_read_fault', (0, 0))
        d.read_fault, d.read_fault_fired = None, None
        if self.rng.random() < (pf_[0] if d.srv.children(d.z.EVENTS) else pf_[1]):
            d.read_fault = [self.rng.choice(['/placement', '/placement', '/servers', '/scheduled', '/server.presence', '/', '/']),
                            self.rng.choice([1, 1, 2, 3, 5, 9])]
        try:
            d.settle_delivery()
        except _kx.ConnectionLoss:
            if not d.read_fault_fired:
                raise
            d.read_fault = None
            self.ctx.count('master_died_on_a_connection_loss_while_handling_events')
            d.ops.append(('connection_loss_then_restart', d.read_fault_fired[0], d.read_fault_fired[1]))
            # an operator's server_state event the dead master had not handled yet is handled by its successor, in the
            # batch of whatever happens next: for the presence oracles it speaks as late as that batch
            for ev in d.srv.children(d.z.EVENTS):
                if '-server_state-' in ev:
                    data = d.zkutils.get_default(d.admin, d.z.path.event(ev))
                    if data:
                        d.state_event_step[data[0]] = d.step_no
                        if data[0] in getattr(d, 'state_requested', {}):
                            st_ = d.state_requested[data[0]]
                            d.state_requested[data[0]] = (st_[0], d.step_no, st_[2])
            return self.start()
        finally:
            d.read_fault = None
        if d.read_fault_fired:
            self.ctx.count('master_survived_a_connection_loss_while_handling_events')
            d.ops.append(('connection_loss_survived', d.read_fault_fired[0], d.read_fault_fired[1]))
        now = self.clock.peek()
        if integrity or now - getattr(self, 'last_integrity', -1e9) >= 30.0:
            self.last_integrity = now
            d.master.check_integrity()
            self.ctx.count('check_integrity_calls')
        d.sync_H()
        cell = d.master.cell
        pre = {n: dict(identity=a.identity, renew=a.renew, server=a.server) for n, a in cell.apps.items()}
        MON.reset_cycle()
        d.last_placement = None
        t_lo = self.clock.peek()
        if d.cutter is not None:
            d.cutter.arm('reschedule')
        try:
            d.master.reschedule()
        finally:
            if d.cutter is not None:
                cutter, d.cutter = d.cutter, None
                try:
                    cutter.disarm()
                finally:
                    d.cutter = cutter
        d.master.check_placement_integrity()
        t_hi = self.clock.peek()
        d.ops.append(('cycle',))
        self.after_cycle(pre, t_lo, t_hi, 'reschedule')
        if 'C03' in self.props and 'C03' not in self.dead:
            self.reboot_requests()
        return True

    def reboot_requests(self):
        """The periodic task of the service loop that asks servers past their reboot time to reboot (Master.check_reboot):
        a server that is not yet due by the master's own record is not asked to reboot while an instance on it holds a
        lease that has not ended ('not due for reboot before the lease ends')."""
        d, ctx = self.d, self.ctx
        try:
            before = set(d.srv.children(d.z.REBOOTS))
        except Exception:   # noqa  (no /reboots node yet)
            before = set()
        d.master.check_reboot()
        try:
            after = set(d.srv.children(d.z.REBOOTS))
        except Exception:   # noqa
            after = set()
        now = self.clock.peek()
        for s in sorted(after - before):
            ctx.count('reboot_requests_seen')
            srv = d.master.servers.get(s)
            if srv is None:
                continue
            leased = sorted(n for n, a in srv.apps.items() if a.lease and a.placement_expiry and a.placement_expiry > now)
            if leased:
                ctx.count('reboot_requests_for_a_server_hosting_an_unexpired_lease')
            if leased and now <= srv.valid_until:
                self.dead.add('C03')
                ctx.violation('reboot-requested-before-lease-ends',
                              '%s was asked to reboot at t=%.3f, before its reboot time %.3f, while %s hold leases that end later' % (
                                  s, now, srv.valid_until, leased[:3]),
                              case=dict(ops=d.ops[-40:], cycle=self.cycles))
            # the node reboots: the request is consumed
            d.zkutils.ensure_deleted(d.admin, d.z.path.reboot(s))

    def after_cycle(self, pre, t_lo, t_hi, when, startup=False):
        d, ctx = self.d, self.ctx
        self.cycles += 1
        cell = d.master.cell
        placement = d.last_placement or []
        via = {}
        for ev in MON.events:
            if ev['t'] == 'put':
                via[(ev['app'], ev['server'])] = ev['via']
        if any(ev['t'] == 'evict' for ev in MON.events):
            self.seen_evict = True
        for p in placement:
            if p[1] and p[3] and p[1] != p[3]:
                self.moved += 1
                ctx.count('moved_between_servers')
            if p[1] == p[3] and p[2] != p[4] and p[1]:
                ctx.count('expiry_changed_in_place')
        if startup:
            d.sync_H()
            # tuples of the start-up cycle relate to the model as loaded
            pre = {n: dict(identity=v[1], renew=False, server=v[0]) for n, v in d.loaded.items()}
        rec = dict(H=d.H, cell=cell, placement=placement, t_lo=t_lo, t_hi=t_hi,
                   queues=MON.queues, events=MON.events, via=via, pre=pre, exit={},
                   regrown={}, seen_evict=self.seen_evict, group_churn=True, reloaded=True,
                   after_server={p[0]: p[3] for p in placement})
        rec['pos'] = oracles.queue_positions(rec)
        expired = False
        for name, before, _eb, after, _ea in placement:
            s = d.H.servers.get(before) if before else None
            if s is not None and s['state'] == 'down':
                expired = expired or after != before
                ctx.count('down_retained' if after == before else 'down_expired')
            if s is not None and s['state'] == 'frozen':
                ctx.count('frozen_kept' if after == before else 'frozen_unscheduled')
        rec['expired_now'] = expired
        for p in self.props:
            if p in self.dead:
                continue
            if p == 'C09':
                vs = c09_oracle(d, when)
            elif p == 'C05':
                vs = oracles.ALL[p](rec) + c05_published_oracle(d, when)
            elif p in oracles.ALL:
                vs = oracles.ALL[p](rec)
            else:
                continue
            for v in vs:
                self.dead.add(p)
                ctx.violation(v.mechanism, v.message, v.witness,
                              case=dict(ops=d.ops[-40:], cycle=self.cycles, when=when))
        fprop = next((p_ for p_ in ('C08', 'C03') if p_ in self.props and p_ not in self.dead), None)
        if not startup and fprop is not None:
            # an operator's freeze that the master acknowledged (the event is gone) took effect and stays in effect: the
            # record says frozen and no cycle assigns anything new to the server - as long as nothing else spoke about
            # the server's state since: no presence change, no later operator command naming it other than a change of
            # its capacity / traits / partition (a modified server is replaced in the model and takes its recorded state
            # over), still in the cell, not blacked out
            for sname, (state, step, at) in sorted(getattr(d, 'state_requested', {}).items()):
                if state != 'frozen' or step > d.step_no - 1 or sname not in d.Z['servers'] or sname not in d.node_clients \
                        or sname in d.lost or getattr(d, 'stale_presence', None):
                    continue
                later = [op for op in d.ops[at + 1:] if op[0] != 'cycle' and sname in repr(op[1:])]
                if any(op[0] not in ('server_cap', 'server_traits', 'server_attrs') for op in later):
                    continue
                if d.admin.exists(d.z.path.blackedout_server(sname)) or d.srv.children(d.z.EVENTS):
                    continue
                ctx.count('freeze_requests_checked')
                if later:
                    ctx.count('freeze_requests_checked_after_the_frozen_server_was_modified')
                recorded = (d.zkutils.get_default(d.admin, d.z.path.placement(sname)) or {}).get('state')
                newly = sorted(p[0] for p in placement if p[3] == sname and p[1] != sname)
                if recorded != 'frozen' or newly:
                    self.dead.add(fprop)
                    ctx.violation('freeze-request-without-effect' + (':assigned-after-freeze' if newly else '') +
                                  (':after-the-server-was-modified' if later else ''),
                                  'the operator froze %s in step %d and the master consumed the event; at step %d the server is recorded %r%s' % (
                                      sname, step, d.step_no, recorded, ' and the cycle assigned %s to it' % newly if newly else ''),
                                  case=dict(ops=d.ops[-40:], cycle=self.cycles))
                    break
        st = getattr(d, 'stale_presence', None)
        if st is not None and not startup:
            # the cycle that follows a listing that was stale when the master processed it (C03: nothing is assigned to
            # a server whose presence node was gone by then; C07 / C08: a server whose presence node existed by then is
            # not treated as failed)
            sname = st['server']
            still = (sname not in d.node_clients) if st['kind'] == 'up-then-gone' else (sname in d.node_clients)
            if d.state_event_step.get(sname, -1) >= st['step'] or not still:
                # an operator's state event came after it (the record is the operator's), or the server's presence
                # changed once more before the cycle (what the master then learns by other routes is not stale)
                placement_checked = []
            else:
                placement_checked = placement
            for name, before, _eb, after, _ea in placement_checked:
                if st['kind'] == 'up-then-gone' and after == sname and before != sname and 'C03' in self.props and 'C03' not in self.dead:
                    self.dead.add('C03')
                    ctx.violation('assigned-to-server-without-presence:listing-stale-when-processed',
                                  '%s assigned to %s, whose presence node was gone when the master processed the listing '
                                  'that still named it' % (name, sname), case=dict(ops=d.ops[-40:], cycle=self.cycles))
                if st['kind'] == 'gone-then-back' and before == sname and after != sname and name in d.H.apps and \
                        not d.H.apps[name]['blacklisted']:
                    recorded = (d.H.servers.get(sname) or {}).get('state')
                    for p in ('C07', 'C08'):
                        if p in self.props and p not in self.dead and recorded == 'down':
                            self.dead.add(p)
                            ctx.violation('lost-placement-on-server-with-presence:listing-stale-when-processed',
                                          '%s left %s (-> %s): the server is recorded down although its presence node existed '
                                          'when the master processed the listing that did not name it' % (name, sname, after),
                                          case=dict(ops=d.ops[-40:], cycle=self.cycles))
            ctx.count('cycles_after_stale_presence_listing')
            d.stale_presence = None
        fl = oracles.nontrivial_flags(rec)
        fl['C09'] = self.moved > 0 or any(op[0] in ('server_delete', 'restart') for op in d.ops)
        for p in self.props:
            if fl.get(p):
                self.flags[p] = True
        for hook in self.hooks:
            hook(self, when)

    def summary(self):
        d = self.d
        return dict(level='master', servers=len(d.Z['servers']), apps=len(d.Z['apps']), depth=d.depth,
                    cycles=self.cycles, restarts=d.restarts - 1,
                    ops=[op[0] for op in d.ops])

    def absorb_counters(self):
        for k, v in MON.counters.items():
            self.ctx.count(k, v)
        MON.counters.clear()


def zk_crash():
    from .. import zkfake
    return zkfake.Crash


def run_histories(ctx, props, profile_for=None, prefix='m_', special=None):
    for idx, rng in ctx.cases():
        if special is not None and special(ctx, idx, rng):
            continue
        pf = profile_for(rng) if profile_for else mdrv.MProfile()
        h = MHistory(ctx, rng, pf, props)
        try:
            h.run()
        finally:
            env.VClock.uninstall()
        h.absorb_counters()
        summ = h.summary()
        ctx.count('master_cycles', h.cycles)
        ctx.count('master_histories')
        nt = h.flags.get(ctx.pid, False)
        ctx.done(case_desc=('master', summ['ops'], summ['servers'], summ['apps']),
                 nontrivial=nt, sample=dict(history=idx, **summ) if nt else None,
                 evals=max(1, h.cycles))
