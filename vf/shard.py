import sys
from vf import rt
if __name__ == '__main__':
    sys.exit(rt.shard_main(sys.argv[1:]))
