"""Interpreter bootstrap: import treadmill from /repo's *current working tree*,
compat shims, virtual clock.  Everything here is harness-side (DESIGN 1.3/1.4)."""
import inspect
import logging
import os
import sys
import time

REPO = os.environ.get('VERIF_REPO', '/repo')
VERIF = os.path.dirname(os.path.dirname(os.path.abspath(__file__)))

SHIMS = [
    'decorator.getargspec = inspect.getfullargspec (treadmill.schema needs an API decorator 5 dropped)',
    'treadmill imported from %s/lib/python (not installed in /venv)' % REPO,
    'logging disabled; TZ=UTC; PYTHONDONTWRITEBYTECODE',
]

_REAL_TIME = time.time


def bootstrap():
    sys.dont_write_bytecode = True
    path = os.path.join(REPO, 'lib', 'python')
    if path not in sys.path:
        sys.path.insert(0, path)
    os.environ['TZ'] = 'UTC'
    time.tzset()
    os.environ.setdefault('TREADMILL_ID', 'verif')
    import decorator
    if not hasattr(decorator, 'getargspec'):
        decorator.getargspec = inspect.getfullargspec
    logging.disable(logging.CRITICAL)


class VClock:
    """Virtual clock: explicit advances + a small tick per read (keeps
    Application.global_order unique).  Installed by rebinding time.time."""

    def __init__(self, base=1700000000.0, tick=1e-4):
        self.now = float(base)
        self.tick = tick
        self.reads = 0

    def time(self):
        self.reads += 1
        self.now += self.tick
        return self.now

    def peek(self):
        return self.now

    def advance(self, delta):
        assert delta >= 0
        self.now += delta

    def set(self, when):
        assert when >= self.now
        self.now = when

    def install(self):
        time.time = self.time

    @staticmethod
    def uninstall():
        time.time = _REAL_TIME
