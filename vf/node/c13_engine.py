"""History generator, executor and shrinker for C13."""
import os
import time

from . import c13_drv as drv
from . import c13_fakes as fakes
from . import c13_oracle as oracle_mod

# Instance-name domain (DESIGN 1.5): proid [A-Za-z0-9_-]{2,20}, components
# [\w-]+, optional user@, 10-digit instance id.
_APPS = [
    'foo.bar', 'a-b.c_d-1', 'u1@pr-x.web.api', 'Zz.9', 'treadm1ll.sleep-svc',
    'foo.bar-0000000001', 'x_y.z.z.z', 'pro-id-20-chars-long.app', 'ab.a-b-c',
    'foo.bar-baz', 'foo.bar.baz', 'U@zz.w',
]

_WEIGHTS = [
    ('put', 18), ('del', 14), ('replace', 8), ('refresh', 6),
    ('deliver', 26), ('drain', 6),
    ('ready0', 4), ('ready1', 9),
    ('exit', 8), ('tomb', 6), ('tomb_term', 4), ('monitor', 9),
    ('monitor_restart', 4), ('fault', 5), ('finish_replace', 5),
    ('clean', 9), ('late_created', 4), ('midsync', 4), ('midsync_monitor', 6),
    ('restart', 7), ('node_start', 2), ('reboot_after_exit', 2), ('clean_race', 3),
]


def pick_instances(rng):
    n = rng.choice((1, 2, 2, 3, 3, 4))
    out = []
    while len(out) < n:
        if out and rng.random() < 0.3:
            app = out[-1].split('#')[0]          # sibling instance, same app
        else:
            app = rng.choice(_APPS)
        num = rng.choice((1, 2, 3, 10, 4294967295, 9999999999,
                          rng.randrange(1, 10 ** 10)))
        inst = '%s#%010d' % (app, num)
        if inst not in out:
            out.append(inst)
    return out


def _shape(rng):
    return {
        'services': rng.randrange(0, 2), 'endpoints': rng.randrange(0, 3),
        'env': rng.randrange(0, 4), 'cpu': rng.randrange(0, 4),
        'mem': rng.randrange(0, 50), 'limit': rng.randrange(0, 4),
        'identity': rng.choice((None, None, 0, 3)),
    }


class Gen:
    """Chooses the next operation from rng and the visible node state."""

    def __init__(self, rng, tier):
        self.rng = rng
        self.insts = pick_instances(rng)
        self.next_gen = 1
        self.length = (rng.randrange(8, 30) if tier == 'quick'
                       else rng.randrange(12, 56))
        self.p_bad = rng.choice((0.0, 0.1, 0.15, 0.3))
        # tidy histories: events are delivered promptly and old containers are
        # cleaned before the manager (re)synchronises - long histories in which
        # at most one generation of an instance exists at a synchronisation
        self.tidy = rng.random() < 0.4
        self._composite = False

    def _new_gen(self):
        self.next_gen += 1
        return self.next_gen - 1

    def opening(self):
        """Bring the node into a populated state quickly."""
        rng = self.rng
        ops = []
        if rng.random() < 0.7:
            ops.append(('ready', 1))
        for inst in self.insts:
            if rng.random() < 0.75:
                ops.append(('put', inst, self._new_gen(),
                            rng.random() < self.p_bad, _shape(rng)))
        if rng.random() < 0.8:
            if ops and ops[0] != ('ready', 1):
                ops.append(('ready', 1))
            ops.append(('drain',))
        return ops

    def closing(self):
        rng = self.rng
        ops = [('ready', 1), ('drain',)]
        if self.tidy:
            ops.append(('clean_all',))
        else:
            ops.append(('monitor',))
        r = rng.random()
        if r < 0.45:
            ops += [('restart',), ('ready', 1), ('drain',)]
        elif r < 0.55:
            ops += [('node_start',), ('ready', 1), ('drain',)]
        return ops

    def next_op(self, node):
        self._composite = False
        ops = self._next_op(node)
        if not self.tidy or self._composite:
            return ops
        out = []
        if ops and ops[0][0] == 'exit':
            # the container ends, its tombstone is written and handled at
            # once (an armed s6 failure may hit the monitor)
            out = [ops[0], ('tomb', ops[0][1])]
            if self.rng.random() < 0.3:
                out.append(('fault', 'svscan', 1))
            out += [('drain',), ('clean_all',), ('monitor',),
                    ('fault', 'svscan', 0)]
            return out
        for op in ops:
            if op[0] in ('refresh', 'tomb_term', 'tomb'):
                continue
            if op[0] == 'fault':
                # tidy histories keep the manager alive: s6 fails only when
                # the node monitor calls it
                if not any(o[0] == 'monitor' for o in ops):
                    continue
                op = ('fault', 'svscan', 1)
            idle = op[0] in ('restart', 'node_start') or op == ('ready', 0)
            if idle or op[0] == 'monitor':
                # (monitor: it names the cleanup link after the instance;
                # clean the previous generation's first)
                out += [('drain',), ('clean_all',)]
            if op[0] == 'deliver':
                op = ('drain',)
            out.append(op)
            if idle:
                # no cache change while the manager is idle
                out += [('drain',), ('ready', 1), ('drain',)]
            elif op[0] == 'del':
                # the terminated container stops, its tombstone is written
                # and handled before the instance can come back
                out += [('drain',), ('tomb_term_all',), ('monitor',),
                        ('fault', 'svscan', 0)]
            elif op[0] == 'monitor':
                out.append(('fault', 'svscan', 0))
            elif op[0] in ('put', 'ready'):
                out.append(('drain',))
        return out or [('drain',)]

    def _next_op(self, node):
        rng = self.rng
        for _ in range(20):
            kind = _weighted(rng, _WEIGHTS)
            inst = rng.choice(self.insts)
            cached = os.path.exists(node.cache_path(inst))
            if kind == 'put':
                if cached:
                    continue
                bad = rng.random() < self.p_bad
                return [('put', inst, self._new_gen(), bad, _shape(rng))]
            if kind == 'del':
                if not cached:
                    continue
                return [('del', inst)]
            if kind == 'replace':
                # evicted and placed again on this node
                if not cached:
                    continue
                ops = [('del', inst)]
                if rng.random() < 0.4:
                    ops.append(('deliver', rng.randrange(1, 3)))
                ops.append(('put', inst, self._new_gen(), False, _shape(rng)))
                return ops
            if kind == 'refresh':
                # EventMgr._cache(check_existing=True): only while not ready
                if not cached or os.path.exists(node.cache_path('.ready')):
                    continue
                return [('refresh', inst, self._new_gen(), False, _shape(rng))]
            if kind == 'deliver':
                return [('deliver', rng.randrange(1, 4))]
            if kind == 'drain':
                return [('drain',)]
            if kind == 'ready0':
                return [('ready', 0)]
            if kind == 'ready1':
                return [('ready', 1)]
            if kind == 'exit':
                if node.running_target(inst) is None:
                    continue
                how = rng.choice(('exitinfo', 'exitinfo0', 'aborted', 'oom',
                                  'sigabrt', 'killed'))
                ops = [('exit', inst, how)]
                if rng.random() < 0.6:
                    ops.append(('tomb', inst))
                    if rng.random() < 0.3:
                        ops.append(('fault', 'svscan', 1))
                    if rng.random() < 0.6:
                        ops.append(('monitor',))
                return ops
            if kind == 'finish_replace':
                # the instance ends, is cleaned up, is scheduled on this node
                # again; s6 may fail while the monitor hands it over and the
                # monitor may restart afterwards - every step prompt
                if node.running_target(inst) is None or not cached \
                        or inst in node.pending_exit:
                    continue
                how = rng.choice(('exitinfo', 'aborted', 'oom', 'sigabrt'))
                ops = [('drain',), ('exit', inst, how), ('tomb', inst)]
                if rng.random() < 0.6:
                    ops.append(('fault', 'svscan', 1))
                ops += [('monitor',), ('fault', 'svscan', 0), ('clean_all',),
                        ('del', inst), ('drain',),
                        ('put', inst, self._new_gen(), False, _shape(rng)),
                        ('drain',)]
                if rng.random() < 0.7:
                    ops.append(('monitor_restart',))
                ops.append(('monitor',))
                self._composite = True
                return ops
            if kind == 'tomb':
                if not node.pending_exit:
                    continue
                ops = [('tomb', rng.choice(sorted(node.pending_exit)))]
                if rng.random() < 0.3:
                    ops.append(('monitor_restart',))   # finds it at start
                if rng.random() < 0.5:
                    ops.append(('monitor',))
                return ops
            if kind == 'tomb_term':
                if not node.terminated_candidates():
                    continue
                ops = [('tomb_term', rng.randrange(0, 8))]
                if rng.random() < 0.3:
                    ops.append(('monitor_restart',))
                if rng.random() < 0.5:
                    ops.append(('monitor',))
                return ops
            if kind == 'monitor':
                return [('monitor',)]
            if kind == 'monitor_restart':
                ops = [('monitor_restart',)]
                if rng.random() < 0.7:
                    ops.append(('monitor',))
                return ops
            if kind == 'fault':
                target = rng.choice(('svscan', 'svscan', 'svscan', 'service'))
                ops = [('fault', target, rng.choice((1, 1, 2)))]
                r = rng.random()
                if r < 0.4:
                    ops.append(('monitor',))
                elif r < 0.8:
                    ops.append(('deliver', rng.randrange(1, 3)))
                return ops
            if kind == 'midsync':
                # the manager is inactive while the cache changes (an eviction and/or a placement); during the
                # synchronisation that follows the readiness event the event manager unlinks one more entry,
                # between the manager's listing of the cache and its look at the entry
                if not cached:
                    continue
                self._composite = True
                ops = [('drain',), ('ready', 0), ('drain',)]
                others = [i for i in self.insts if i != inst]
                for other in others[:2]:
                    if os.path.exists(node.cache_path(other)):
                        if rng.random() < 0.6:
                            ops.append(('del', other))
                    elif rng.random() < 0.7:
                        ops.append(('put', other, self._new_gen(), False, _shape(rng)))
                ops += [('fault', 'midsync_unlink', 1), ('ready', 1), ('drain',), ('fault', 'midsync_unlink', 0)]
                if rng.random() < 0.7:
                    ops += [('ready', 1), ('drain',)]       # the next heartbeat
                return ops
            if kind == 'midsync_monitor':
                # two processes, file operation by file operation: the container of a cached instance ends while the
                # manager is inactive (restarted, or the cache not ready); its tombstone is there when the readiness
                # event arrives, and the node monitor hands the container to cleanup (its atomic rename
                # running/<instance> -> cleanup/<instance>) right before the k-th look the manager takes at the file
                # system inside the synchronisation.  Everything older is settled first (events, tombstones, cleanups).
                target = node.running_target(inst)
                if not cached or target is None or inst in node.pending_exit or target in node.ended:
                    continue
                have = drv.read_marker(node.cache_path(inst))
                runs = drv.read_marker(os.path.join(node.apps_dir, target, 'data', 'manifest.yml'))
                if have is None or runs is None or have[:2] != runs[:2]:
                    continue
                self._composite = True
                how = rng.choice(('exitinfo', 'exitinfo0', 'aborted', 'oom', 'sigabrt', 'sigabrt'))
                n_apps = len(os.listdir(node.apps_dir))
                ops = [('drain',), ('fault', 'svscan', 0), ('fault', 'service', 0), ('monitor',), ('clean_all',),
                       ('restart',) if rng.random() < 0.5 else ('ready', 0), ('drain',)]
                others = [i for i in self.insts if i != inst]
                for other in others[:2]:
                    # the cache may change while the manager is inactive (more containers for the synchronisation)
                    if not os.path.exists(node.cache_path(other)) and rng.random() < 0.5:
                        ops.append(('put', other, self._new_gen(), False, _shape(rng)))
                ops += [('exit', inst, how), ('tomb', inst),
                        ('midsync_monitor', rng.randrange(1, 3 * n_apps + 3)), ('ready', 1), ('drain',),
                        ('midsync_monitor', 0)]
                if rng.random() < 0.5:
                    ops += [('ready', 1), ('drain',)]       # the next heartbeat
                return ops
            if kind == 'late_created':
                # an instance is placed right after the cache became ready: the synchronisation triggered by .ready
                # configures it before its own created event is read; the container ends, is handed to cleanup
                # (which may complete, or be interrupted half-way) and only then the created event arrives
                if cached or node.running_target(inst) is not None or inst in node.pending_exit:
                    continue
                self._composite = True
                how = rng.choice(('exitinfo', 'exitinfo_sig', 'aborted', 'oom', 'sigabrt'))
                ops = [('drain',), ('ready', 0), ('drain',), ('ready', 1),
                       ('put', inst, self._new_gen(), False, _shape(rng)), ('deliver', 1)]
                if rng.random() < 0.3:
                    # ... or the instance is evicted and placed again on this node while its first created event is still
                    # queued: the late event meets a cache entry that is already the next generation's
                    ops += [('del', inst), ('put', inst, self._new_gen(), False, _shape(rng))]
                    if rng.random() < 0.5:
                        ops.append(('deliver', 1))
                    ops.append(('drain',))
                    self.planned_late_replace = getattr(self, 'planned_late_replace', 0) + 1
                    return ops
                ops += [('exit', inst, how), ('tomb', inst), ('monitor',)]
                r = rng.random()
                if r < 0.5:
                    ops.append(('clean', 0, rng.choice((0.05, 0.3, 0.6, 0.9))))
                elif r < 0.75:
                    ops.append(('clean_all',))
                ops.append(('deliver', 1))
                return ops
            if kind == 'clean':
                if not node.cleanup_links():
                    continue
                if rng.random() < 0.25:
                    # the removal is interrupted half-way; events that were pending reach the manager before the retry
                    ops = [('clean', rng.randrange(0, 8), rng.choice((0.05, 0.3, 0.6, 0.9)))]
                    if rng.random() < 0.6:
                        ops.append(('deliver', rng.randrange(1, 3)))
                    return ops
                return [('clean', rng.randrange(0, 8))]
            if kind == 'restart':
                ops = [('restart',)]
                if rng.random() < 0.7:
                    ops.append(('ready', 1))
                    if rng.random() < 0.7:
                        ops.append(('drain',))
                return ops
            if kind == 'clean_race':
                # three processes: a container ended and waits in cleanup under the instance name; the instance was
                # evicted and placed again, its next container runs and ends as well; the node monitor executes that
                # tombstone while the clean-up job of the FIRST container is between its two steps (container
                # directory removed, cleanup link not yet unlinked); later the manager synchronises again
                if not cached or node.running_target(inst) is None or inst in node.pending_exit \
                        or node.running_target(inst) in node.ended or not node.model_active:
                    continue
                self._composite = True
                how1 = rng.choice(('exitinfo', 'exitinfo0', 'aborted', 'oom', 'sigabrt', 'killed'))
                how2 = rng.choice(('exitinfo', 'aborted', 'sigabrt', 'killed', 'killed', 'killed'))
                ops = [('drain',), ('fault', 'svscan', 0), ('fault', 'service', 0), ('monitor',), ('clean_all',),
                       ('exit', inst, how1), ('tomb', inst), ('monitor',),
                       ('del', inst), ('drain',), ('put', inst, self._new_gen(), False, _shape(rng)), ('drain',),
                       ('exit', inst, how2), ('tomb', inst), ('clean', inst, 'monitor-inside'), ('monitor',)]
                r = rng.random()
                if r < 0.4:
                    ops += [('restart',), ('ready', 1), ('drain',)]
                elif r < 0.8:
                    ops += [('ready', 0), ('drain',), ('ready', 1), ('drain',)]
                return ops
            if kind == 'reboot_after_exit':
                # the node goes down (and starts again) soon after a container ended: its clean-up has not run, the
                # instance is still placed here
                if not cached or node.running_target(inst) is None or inst in node.pending_exit:
                    continue
                self._composite = True
                how = rng.choice(('exitinfo', 'exitinfo0', 'exitinfo0', 'exitinfo_sig', 'aborted', 'aborted', 'oom', 'oom', 'sigabrt'))
                ops = [('drain',), ('exit', inst, how)]
                if rng.random() < 0.6:
                    ops += [('tomb', inst), ('monitor',)]
                ops += [('node_start',), ('ready', 1), ('drain',)]
                return ops
            if kind == 'node_start':
                ops = [('node_start',)]
                if rng.random() < 0.8:
                    ops += [('ready', 1), ('drain',)]
                return ops
        return [('deliver', 1)]


def _weighted(rng, table):
    total = sum(w for _k, w in table)
    x = rng.random() * total
    for k, w in table:
        x -= w
        if x < 0:
            return k
    return table[-1][0]


class Run:
    """Executes operations on a fresh node and evaluates the oracle after
    every handler call / actor step."""

    def __init__(self):
        self.node = drv.Node()
        self.oracle = oracle_mod.Oracle(self.node)
        self.reach = {}
        self.violations = []       # (mechanism, message, witness)
        self.flags = set()         # non-triviality facts

    def close(self):
        self.node.close()

    def count(self, name, n=1):
        self.reach[name] = self.reach.get(name, 0) + n

    # ------------------------------------------------------------------
    def _after(self, kind, step_name, event=None, sync=False, active=False,
               tombs=()):
        prov = oracle_mod.Provenance(step_name, fakes.link_log(),
                                     fakes.call_log())
        found = self.oracle.step(kind, step_name, prov, event=event,
                                 sync=sync, active=active, tombs=tombs)
        cur = self.oracle.prev
        per_inst = {}
        for c in cur.apps:
            ident = cur.ident.get(c)
            if ident is not None:
                per_inst[ident[0]] = per_inst.get(ident[0], 0) + 1
        if any(v > 1 for v in per_inst.values()):
            self.flags.add('two-generations')
            self.count('observations_two_generations_coexist')
        self.violations.extend(found)
        return not found

    def _exception(self, err):
        mech = 'exception:%s' % err
        snap = oracle_mod.Snapshot(self.node, self.oracle.ident)
        # naming only: an entry of running/ or cleanup/ that is not a link
        # (MonitorContainerCleanup with signal 6 and no running link creates
        # running/<instance>/data/ as real directories) is the usual cause
        where = [d for d, links in (('running', snap.running),
                                    ('cleanup', snap.cleanup))
                 if any(t is None for t in links.values())]
        if where:
            mech += '[non-link-entry-in-%s]' % '+'.join(where)
        self.violations.append((mech, '%r escaped %s' % (err.err, err.where),
                                {'state': oracle_mod.Snapshot(
                                    self.node, self.oracle.ident).describe()}))

    def _deliver(self):
        """One meaningful event.  False: nothing pending or violation."""
        node = self.node
        before_active = node.model_active
        fakes.reset_logs()
        if not node.pending():
            return False
        self.oracle.before()
        try:
            ev = node.deliver_one()
        except drv.ManagerCrash as crash:
            # _refresh_supervisor does not catch the s6 failure: the manager
            # process dies inside the handler and its supervisor restarts it
            if 'vanished' in crash.where:
                self.count('manager_crashes_on_cache_entry_vanished_during_sync')
            else:
                self.count('manager_crashes_on_s6_failure')
            ok = self._after('manager-crash', crash.where, tombs=self._midsync_tombs())
            node.restart_manager()
            return ok
        if ev is None:
            return False
        self.count('events_%s' % ev[0])
        sync = (not before_active) and node.model_active
        if ev[1] != '.ready':
            if not before_active:
                self.count('events_while_idle')
            elif ev[0] == 'deleted' and os.path.exists(
                    node.cache_path(ev[1])):
                self.count('stale_deleted_events')
            elif ev[0] == 'created' and ev[1] in self.oracle.prev.running:
                self.count('created_events_with_running_link')
        if sync:
            self.count('syncs')
            if self.oracle.prev.apps:
                self.count('syncs_with_containers')
                self.flags.add('sync-with-containers')
            if not any(h == '_synchronize' for h, _a in fakes.call_log()):
                self.count('syncs_expected_but_not_observed')
        return self._after('manager', '_on_%s' % ev[0], event=ev, sync=sync,
                           active=before_active, tombs=self._midsync_tombs())

    def _midsync_tombs(self):
        """What the node monitor executed inside the synchronisation of this step (it was given the CPU right before
        one of the manager's looks at the file system)."""
        node = self.node
        tombs = node.take_midsync_tombs()
        looks = [h for h in fakes.fault_hits() if h[0] == 'midsync_actor']
        if looks:
            self.count('midsync_monitor_ran_inside_synchronisation')
        for tid, _stamp, _nth, _res, owner, target, _origin in tombs:
            self.count('midsync_tombstones_executed')
            if target is not None and target == owner:
                self.count('midsync_container_handed_to_cleanup_inside_synchronisation')
                self.flags.add('handed-to-cleanup-inside-sync')
                for _h, _stack, fn, path in looks:
                    where = os.path.basename(os.path.dirname(path))
                    if os.path.basename(path) in (tid, owner):
                        self.count('midsync_handover_right_before_a_look_at_its_%s_link' % where)
                    self.count('midsync_handover_before_%s' % fn.replace('.', '_'))
        return tombs

    def apply(self, op):
        """Returns False when the case must stop (violation)."""
        node = self.node
        kind = op[0]
        if kind not in ('deliver', 'drain'):
            fakes.reset_logs()
        try:
            if kind in ('put', 'refresh'):
                _k, inst, gen, bad, shape = op
                had = bool(self.oracle.prev.generations_of(inst))
                if node.put(inst, gen, bad, shape,
                            overwrite=(kind == 'refresh')):
                    self.count('cache_%s' % kind)
                    if bad:
                        self.count('cache_put_unconfigurable')
                    if had:
                        self.count('placed_again_while_old_generation_exists')
                return True
            if kind == 'del':
                if node.delete(op[1]):
                    self.count('cache_del')
                return True
            if kind == 'ready':
                node.notify(bool(op[1]))
                self.count('ready_%d' % op[1])
                return True
            if kind == 'deliver':
                for _ in range(op[1]):
                    if not self._deliver():
                        break
                return not self.violations
            if kind == 'drain':
                n = 0
                while n < 200 and self._deliver():
                    n += 1
                return not self.violations
            if kind in ('exit', 'clean', 'node_start', 'monitor'):
                self.oracle.before()
            if kind == 'exit':
                if node.container_exit(op[1], op[2]):
                    for hit in fakes.fault_hits():
                        self.count('s6_failures_in_container_down_%s' % hit[0])
                    self.count('self_finish')
                    self.count('self_finish_%s' % op[2])
                    self.flags.add('self-finish')
                    return self._after('env', 'monitor.container-exit')
                return True
            if kind == 'tomb':
                if node.tombstone(op[1]):
                    self.count('tombstones_written')
                    self.count('tombstones_written_ended_container')
                return True
            if kind == 'tomb_term':
                if node.tombstone_terminated(op[1]):
                    self.count('tombstones_written')
                    self.count('tombstones_written_terminated_container')
                return True
            if kind == 'tomb_term_all':
                n = 0
                while n < 20 and node.tombstone_terminated(0):
                    self.count('tombstones_written')
                    self.count('tombstones_written_terminated_container')
                    n += 1
                return True
            if kind == 'fault':
                fakes.arm_fault(op[1], op[2])
                if op[2]:
                    self.count('faults_armed_%s' % op[1])
                return True
            if kind == 'midsync_monitor':
                node.arm_midsync_monitor(op[1])
                if op[1]:
                    self.count('midsync_monitor_armed')
                return True
            if kind == 'monitor_restart':
                node.start_monitor()
                self.count('monitor_restarts')
                if node.tombstone_files():
                    self.count('monitor_restarts_with_tombstones_left')
                return True
            if kind == 'monitor':
                tombs = node.run_monitor()
                self.count('monitor_runs')
                for hit in fakes.fault_hits():
                    self.count('s6_failures_in_monitor_%s' % hit[0])
                for _tid, _stamp, nth, res, owner, target, _origin in tombs:
                    self.count('tombstones_executed')
                    if nth > 1:
                        self.count('tombstones_re_executed')
                    if not res:
                        self.count('tombstones_kept')
                    if target is not None and target != owner:
                        self.count('stale_tombstones_hit_other_container')
                    elif target is None:
                        self.count('tombstones_without_running_link')
                return self._after('monitor', 'MonitorContainerCleanup',
                                   tombs=tombs)
            if kind == 'clean':
                mode = op[2] if len(op) > 2 else None
                target = self.oracle.prev.cleanup.get(op[1]) if isinstance(op[1], str) else None
                res = node.cleanup_one(op[1], mode)
                if res == 'interrupted':
                    self.count('cleanups_interrupted_half_way')
                    return self._after('env', 'Cleanup.invoke(interrupted)')
                if res and mode == 'monitor-inside':
                    self.count('cleanups_completed')
                    self.count('cleanups_with_monitor_between_finish_and_unlink')
                    tombs = node.take_midsync_tombs()
                    for tid, _stamp, _nth, _res, owner, running, _origin in tombs:
                        if tid == op[1] and running is not None and running == owner and running != target:
                            # the monitor handed the NEXT container of the instance over while the link named after
                            # the instance still pointed at the directory the job had just removed
                            self.count('cleanup_race_next_generation_handed_over_between_finish_and_unlink')
                            self.flags.add('handover-inside-cleanup-job')
                    return self._after('env', 'Cleanup.invoke+MonitorContainerCleanup', tombs=tombs)
                if res:
                    self.count('cleanups_completed')
                    return self._after('env', 'Cleanup.invoke')
                return True
            if kind == 'clean_all':
                n = 0
                while n < 50 and node.cleanup_links():
                    self.oracle.before()
                    node.cleanup_one(0)
                    self.count('cleanups_completed')
                    if not self._after('env', 'Cleanup.invoke'):
                        return False
                    n += 1
                return True
            if kind == 'restart':
                node.restart_manager()
                self.count('manager_restarts')
                return True
            if kind == 'node_start':
                node.node_start()
                self.count('node_starts')
                fakes.reset_logs()
                ok = self._after('env', 'node-start')
                self.oracle.node_started()
                return ok
            raise AssertionError(op)
        except drv.HandlerError as err:
            self._exception(err)
            return False

    def merged_reach(self):
        out = dict(self.reach)
        for k, v in self.oracle.reach.items():
            out[k] = out.get(k, 0) + v
        for k, v in self.node.counters.items():
            out[k] = out.get(k, 0) + v
        return out


def replay(ops):
    """Run a fixed operation list; returns (mechanisms, violations, nops)."""
    run = Run()
    try:
        n = 0
        for op in ops:
            n += 1
            if not run.apply(op):
                break
        return [v[0] for v in run.violations], run.violations, n
    finally:
        run.close()


def shrink(ops, mechanism, budget_s=6.0):
    """Delta debugging (chunks, then single operations) keeping `mechanism`
    observable; bounded by a wall-clock budget (the budget bounds only the
    effort, the result is always a history that failed when replayed)."""
    t0 = time.perf_counter()
    best = list(ops)
    best_v = None
    chunk = max(1, len(best) // 2)
    while time.perf_counter() - t0 < budget_s:
        removed = False
        i = max(0, len(best) - 1 - chunk)
        while i >= 0 and time.perf_counter() - t0 < budget_s:
            cand = best[:i] + best[i + chunk:]
            if len(cand) < len(best) and cand:
                mechs, viols, n = replay(cand)
                if mechanism in mechs:
                    best = cand[:n]
                    best_v = [v for v in viols if v[0] == mechanism][0]
                    removed = True
                    i = min(i, len(best) - 1)
            i -= chunk
        if chunk == 1 and not removed:
            break
        if not removed:
            chunk = max(1, chunk // 2)
    return best, best_v
