"""Driver for C13: the real AppCfgMgr on a real temporary Treadmill root.

Actors (everything between the boundaries of c13_fakes is repository code):

* "event manager": writes / unlinks cache files exactly as
  ``EventMgr._cache`` / ``_synchronize`` do (``fs.write_safe`` with the dot
  prefix, ``os.unlink``) and flips readiness with the real
  ``EventMgr._cache_notify``;
* "app configuration manager": the real ``AppCfgMgr`` whose handlers are bound
  to a real ``dirwatch.DirWatcher`` (inotify) on ``cache/``; its ``run()``
  loop is replaced by the driver calling ``watch.process_events(max_events=1)``
  so that other actors can act between any two events; a restart is a new
  ``AppCfgMgr`` plus a new watcher (pending events are lost, the manager is
  idle until the next readiness notification, as in production);
* "supervisor" (s6 boundary): when a container's supervised process dies the
  finish script (templates/s6.finish, policy limit 0) touches a tombstone file
  ``tombstones/running/<instance>,<time>,<rc>,<signal>``; the driver writes
  that file, for containers that ended on their own and for containers the
  manager handed to cleanup (s6 stops them), at an arbitrary later point;
* "node monitor": the real ``treadmill.monitor.Monitor`` with the real
  ``MonitorContainerCleanup`` action configured on ``tombstones/running``; a
  restartable actor: every life starts with the real ``_configure`` (re-reads
  the tombstone directory, stale tombstones included) and runs the real
  ``run()`` loop until nothing is pending; also ``MonitorContainerDown``,
  ``appcfg.abort.flag_aborted`` and the ``oom`` flag file of the cgroup
  service;
* s6 control commands can be armed to fail (``subproc.CalledProcessError``)
  for the next n calls; a failure escaping an AppCfgMgr handler
  (``_refresh_supervisor`` does not catch it) is the manager process dying
  and being restarted;
* "cleanup service": the real ``Cleanup.invoke`` on one cleanup link;
* "node start": ``run_real.sh`` empties ``running/`` and ``cleanup/`` and all
  services start again.

Operations are plain tuples so that a history can be replayed and shrunk.
"""
import os
import re
import shutil
import tempfile

from . import c13_fakes as fakes

_DIRS = ('cache', 'running', 'cleanup', 'apps', 'appevents', 'cleaning',
         'cleanup_apps', 'tombstones/running', 'tombstones/cleanup',
         'tombstones/init', 'monitor-config')

MARK_RE = re.compile(r'vfgen=(\d+)=([01])=(\S+?)=end')


def marker(inst, gen, bad):
    """Generation marker carried inside the manifest (an environ value)."""
    return 'vfgen=%d=%d=%s=end' % (gen, 1 if bad else 0, inst)


def read_marker(path):
    """(inst, gen, bad) of a manifest file or None."""
    try:
        with open(path) as f:
            text = f.read()
    except OSError:
        return None
    m = MARK_RE.search(text)
    if not m:
        return None
    return (m.group(3), int(m.group(1)), m.group(2) == '1')


def build_manifest(inst, gen, bad, shape):
    """A manifest the instance schema admits.  shape: small ints from the
    generator.  bad => asks for a feature this node does not offer (the
    realistic reason for a manifest that cannot be configured)."""
    proid = inst.split('.')[0]
    if '@' in proid:
        proid = proid.split('@')[1]
    services = [{
        'name': 'svc%d' % i,
        'command': '/bin/sleep %d' % (5 + i),
        'restart': {'limit': shape.get('limit', 3), 'interval': 60},
    } for i in range(1 + shape.get('services', 0))]
    manifest = {
        'services': services,
        'proid': proid,
        'environment': ('dev', 'qa', 'uat', 'prod')[shape.get('env', 0) % 4],
        'cpu': '%d%%' % (10 + 5 * shape.get('cpu', 0)),
        'memory': '%dM' % (100 + shape.get('mem', 0)),
        'disk': '100M',
        'task': inst[inst.index('#') + 1:],
        'environ': [{'name': 'VF_GEN', 'value': marker(inst, gen, bad)}],
        'endpoints': [{'name': 'ep%d' % i, 'port': 8000 + i}
                      for i in range(shape.get('endpoints', 0))],
        'identity': shape.get('identity'),
        'expires': 1700000000 + gen,
    }
    if bad:
        manifest['features'] = ['docker']
    return manifest


class HandlerError(Exception):
    """An exception escaped a driven operation."""

    def __init__(self, where, err):
        Exception.__init__(self, '%s@%s' % (type(err).__name__, where))
        self.where = where
        self.err = err


class ManagerCrash(Exception):
    """An injected s6 failure escaped an AppCfgMgr handler: the manager
    process dies (and is restarted by its supervisor)."""

    def __init__(self, where, err):
        Exception.__init__(self, '%s@%s' % (type(err).__name__, where))
        self.where = where
        self.err = err


ROOT_VIA_SYMLINK = False     # set per case by the check (every 4th case)
RELATIVE_LINKS = False       # set per case by the check: running links found at a manager restart are in the
#                              relative form the module docstring documents (running/<inst> -> ../apps/<container>)


class Node:
    """One temporary Treadmill root with its actors."""

    def __init__(self):
        fakes.install()
        fakes.new_case()
        from treadmill import eventmgr
        self._real_root = tempfile.mkdtemp(prefix='vf-')
        self.root = self._real_root
        if ROOT_VIA_SYMLINK:
            # the Treadmill root is reached through a symlink (e.g. /treadmill -> /data/treadmill)
            self.root = self._real_root + '.lnk'
            os.symlink(self._real_root, self.root)
        for d in _DIRS:
            os.makedirs(os.path.join(self.root, d))
        self.tombstone_dir = os.path.join(self.root, 'tombstones', 'running')
        self.monitor_config = os.path.join(self.root, 'monitor-config')
        with open(os.path.join(self.monitor_config, 'default'), 'w') as f:
            # bootstrap/node/linux/init/monitor.yml
            f.write('%s;container-cleanup\n' % self.tombstone_dir)
        self.cache_dir = os.path.join(self.root, 'cache')
        self.running_dir = os.path.join(self.root, 'running')
        self.cleanup_dir = os.path.join(self.root, 'cleanup')
        self.apps_dir = os.path.join(self.root, 'apps')
        self.eventmgr = eventmgr.EventMgr(self.root)
        self.mgr = None
        self.watch = None
        self.model_active = False      # harness' own view (from delivered events)
        self.monitor = None
        self.pending_exit = {}         # inst -> (container, signal): ended,
        #                                tombstone not written yet
        self.ended = set()             # containers that ended on their own
        self.down_recorded = {}        # container -> exit kind: the real MonitorContainerDown ran for it
        self.exit_kind = {}            # container -> how it ended (reach counters only)
        self.tombstoned = set()        # containers whose tombstone was written
        self.tomb_owner = {}           # (id, timestamp) -> container
        self.tomb_seq = 0
        self.supervised = set()        # containers seen under running/
        self.counters = {}
        self.midsync_tombs = []        # tombstones the monitor executed inside a synchronisation of the manager
        self.start_manager()
        self.start_monitor()

    # -- life cycle -------------------------------------------------------
    def start_manager(self):
        from treadmill import appcfgmgr
        from treadmill import dirwatch
        self._close_watch()
        self.mgr = appcfgmgr.AppCfgMgr(self.root, 'linux')
        self.watch = dirwatch.DirWatcher(self.cache_dir)
        self.watch.on_created = self.mgr._on_created
        self.watch.on_modified = self.mgr._on_modified
        self.watch.on_deleted = self.mgr._on_deleted
        self.model_active = False

    def _close_watch(self):
        if self.watch is not None:
            try:
                self.watch.inotify.close()
            finally:
                self.watch = None

    def _close_monitor(self):
        mon = self.monitor
        self.monitor = None
        fakes.forget_monitor_watcher()
        if mon is not None and mon._dirwatcher is not None:
            mon._dirwatcher.inotify.close()

    def close(self):
        try:
            self._close_watch()
            self._close_monitor()
        finally:
            if self.root != self._real_root:
                try:
                    os.unlink(self.root)
                except OSError:
                    pass
            shutil.rmtree(self._real_root, ignore_errors=True)

    def _count(self, name, n=1):
        self.counters[name] = self.counters.get(name, 0) + n

    # -- "event manager" --------------------------------------------------
    def cache_path(self, inst):
        return os.path.join(self.cache_dir, inst)

    def put(self, inst, gen, bad, shape, overwrite=False):
        """EventMgr._cache: temp dot file + rename into place."""
        from treadmill import fs
        from treadmill import yamlwrapper as yaml
        path = self.cache_path(inst)
        exists = os.path.exists(path)
        if exists != overwrite:
            return False
        manifest = build_manifest(inst, gen, bad, shape)
        fs.write_safe(
            path,
            lambda f: yaml.dump(manifest, stream=f),
            prefix='.%s-' % inst,
            mode='w',
            permission=0o644
        )
        return True

    def delete(self, inst):
        """EventMgr._synchronize: extra entries are unlinked."""
        path = self.cache_path(inst)
        if not os.path.exists(path):
            return False
        os.unlink(path)
        return True

    def notify(self, ready):
        self.eventmgr._cache_notify(ready)
        return True

    # -- "app configuration manager" --------------------------------------
    def pending(self):
        """True when an event is waiting."""
        return bool(self.watch.event_list) or self.watch.wait_for_events(0)

    def deliver_one(self):
        """Deliver events up to and including the next one that is not about
        a temporary dot file.  Returns (event, name) or None."""
        from treadmill import dirwatch
        while self.pending():
            if not self.watch.event_list:
                self.watch.event_list.extend(self.watch._read_events())
                if not self.watch.event_list:
                    return None
            event, path = self.watch.event_list[0]
            name = os.path.basename(path)
            dot = name.startswith('.') and name != '.ready'
            fakes.reset_logs()
            self.note_supervised()
            try:
                self.watch.process_events(max_events=1, resume=True)
            except Exception as err:      # pylint: disable=broad-except
                from treadmill import subproc
                if isinstance(err, subproc.CalledProcessError) \
                        and fakes.fault_hits():
                    raise ManagerCrash('_on_%s' % event.value, err)
                if isinstance(err, FileNotFoundError) and any(h[0] == 'midsync_unlink' for h in fakes.fault_hits()):
                    # a cache entry vanished between the listing and the stat inside the synchronisation: the
                    # service dies and its supervisor restarts it (inactive until the next readiness event)
                    raise ManagerCrash('_on_%s(cache entry vanished)' % event.value, err)
                raise HandlerError('_on_%s' % event.value, err)
            finally:
                self.note_supervised()
            if dot:
                self._count('dot_events')
                continue
            if name == '.ready':
                if event == dirwatch.DirWatcherEvent.DELETED:
                    self.model_active = False
                elif event in (dirwatch.DirWatcherEvent.CREATED,
                               dirwatch.DirWatcherEvent.MODIFIED):
                    self.model_active = True
            return (event.value, name)
        return None

    # -- "node monitor" ---------------------------------------------------
    def running_target(self, inst):
        link = os.path.join(self.running_dir, inst)
        try:
            return os.path.basename(os.readlink(link))
        except OSError:
            return None

    def note_supervised(self):
        for name in os.listdir(self.running_dir):
            target = self.running_target(name)
            if target is not None:
                self.supervised.add(target)

    def container_exit(self, inst, how):
        """The container running for `inst` ends on its own."""
        from treadmill import monitor
        from treadmill import utils
        from treadmill.appcfg import abort as app_abort
        container = self.running_target(inst)
        if container is None or inst in self.pending_exit \
                or container in self.ended:
            return False
        cdir = os.path.join(self.apps_dir, container)
        data_dir = os.path.join(cdir, 'data')
        if not os.path.isdir(data_dir):
            return False
        signal = 0
        try:
            if how in ('exitinfo', 'exitinfo0', 'exitinfo_sig'):
                # the service's tombstone: exit status 1, a service that ran to completion (0, no signal), or one
                # that was killed by a signal (s6 reports return code 256 then)
                rc, sig = {'exitinfo': (1, 0), 'exitinfo0': (0, 0), 'exitinfo_sig': (256, 15)}[how]
                svc = 'svc0'
                monitor.MonitorContainerDown(self.mgr.tm_env).execute({
                    'id': '%s,%s' % (container, svc),
                    'return_code': rc, 'signal': sig, 'timestamp': 1700000000.0,
                })
                # the product's own action was told that the container's service is down for good
                self.down_recorded[container] = how
            elif how == 'aborted':
                app_abort.flag_aborted(data_dir,
                                       why=app_abort.AbortedReason.PORTS)
            elif how == 'oom':
                utils.touch(os.path.join(data_dir, 'oom'))
            elif how == 'sigabrt':
                signal = 6
            elif how == 'killed':
                signal = 9          # the container's pid1 is killed (SIGKILL): nobody records anything
            else:
                raise AssertionError(how)
        except Exception as err:      # pylint: disable=broad-except
            raise HandlerError('monitor.container_exit:%s' % how, err)
        self.pending_exit[inst] = (container, signal)
        self.ended.add(container)
        self.exit_kind[container] = how
        return True

    def _write_tombstone(self, inst, container, signal, origin):
        """templates/s6.finish: touch <path>/<id>,<%014.3f>,<%03d>,<%03d>."""
        self.tomb_seq += 1
        stamp = 1700000000.0 + self.tomb_seq
        name = '%s,%014.3f,%03d,%03d' % (inst, stamp,
                                         0 if not signal else 128 + signal,
                                         signal)
        with open(os.path.join(self.tombstone_dir, name), 'w'):
            pass
        self.tomb_owner[(inst, stamp)] = (container, origin)
        self.tombstoned.add(container)

    def tombstone(self, inst):
        """The supervised process of a container that ended on its own is
        gone: the finish script leaves the tombstone (id = instance name)."""
        if inst not in self.pending_exit:
            return False
        container, signal = self.pending_exit.pop(inst)
        self._write_tombstone(inst, container, signal, 'ended-container')
        return True

    def terminated_candidates(self):
        """Containers the manager took out of running/ (s6 stops them; their
        finish script leaves a tombstone as well)."""
        out = []
        running = set(self.running_target(n)
                      for n in os.listdir(self.running_dir))
        for c in sorted(os.listdir(self.apps_dir)):
            if c in self.tombstoned or c in self.ended or c in running:
                continue
            if c not in self.supervised:
                continue
            mark = read_marker(os.path.join(self.apps_dir, c, 'data',
                                            'manifest.yml'))
            if mark is not None:
                out.append((c, mark[0]))
        return out

    def tombstone_terminated(self, idx):
        cands = self.terminated_candidates()
        if not cands:
            return False
        container, inst = cands[idx % len(cands)]
        self._write_tombstone(inst, container, 15, 'terminated-container')
        return True

    def tombstone_files(self):
        return sorted(n for n in os.listdir(self.tombstone_dir)
                      if not n.startswith('.'))

    def start_monitor(self):
        """A new life of the monitor process (nothing runs until
        run_monitor)."""
        from treadmill import monitor
        self._close_monitor()
        self.monitor = monitor.Monitor(self.mgr.tm_env, self.monitor_config)
        return True

    def run_monitor(self):
        """The real Monitor.run() until it would block.  Returns the list of
        (id, timestamp, nth execution, result, owner container, running
        target before, origin) of the tombstones executed."""
        before = {n: self.running_target(n)
                  for n in os.listdir(self.running_dir)}
        fakes.reset_logs()
        try:
            self.monitor.run()
        except fakes.MonitorIdle:
            pass
        except Exception as err:      # pylint: disable=broad-except
            raise HandlerError('Monitor.run', err)
        out = []
        for tid, stamp, nth, res in fakes.tomb_log():
            owner, origin = self.tomb_owner.get((tid, stamp), (None, None))
            out.append((tid, stamp, nth, res, owner, before.get(tid),
                        origin))
        return out

    def arm_midsync_monitor(self, k):
        """The node monitor is a process of its own: it gets the CPU right before the k-th file-system look of the
        manager's next synchronisation and runs its real loop until nothing is pending (k = 0: disarm)."""
        fakes.arm_midsync_actor(k, self._midsync_monitor if k else None)

    def _midsync_monitor(self):
        before = {n: self.running_target(n) for n in os.listdir(self.running_dir)}
        done = len(fakes.tomb_log())
        try:
            self.monitor.run()
        except fakes.MonitorIdle:
            pass
        self._count('midsync_monitor_runs')
        for tid, stamp, nth, res in fakes.tomb_log()[done:]:
            owner, origin = self.tomb_owner.get((tid, stamp), (None, None))
            self.midsync_tombs.append((tid, stamp, nth, res, owner, before.get(tid), origin))

    def take_midsync_tombs(self):
        out, self.midsync_tombs = self.midsync_tombs, []
        return out

    # -- "cleanup service" ------------------------------------------------
    def cleanup_links(self):
        return sorted(n for n in os.listdir(self.cleanup_dir)
                      if not n.startswith('.'))

    def cleanup_one(self, idx, partial=None):
        """idx: position in the sorted listing, or the name of a cleanup link.  partial: a fraction (the removal is
        interrupted half-way) or 'monitor-inside' (the node monitor runs its real loop between the two steps of the
        job: container directory removed, cleanup link not yet unlinked)."""
        from treadmill import cleanup
        links = self.cleanup_links()
        if not links:
            return False
        if isinstance(idx, str):
            if idx not in links:
                return False
            name = idx
        else:
            name = links[idx % len(links)]
        fakes.reset_logs()
        if partial == 'monitor-inside':
            fakes._STATE['finish_then'] = self._midsync_monitor       # pylint: disable=protected-access
        elif partial is not None:
            fakes._STATE['finish_partial'] = partial       # pylint: disable=protected-access
        try:
            cleanup.Cleanup(self.mgr.tm_env).invoke('linux', name)
        except fakes.CleanupInterrupted:
            self._count('cleanups_interrupted_half_way')
            return 'interrupted'        # the job died; its supervisor retries it later
        except Exception as err:      # pylint: disable=broad-except
            raise HandlerError('Cleanup.invoke', err)
        finally:
            fakes._STATE.pop('finish_partial', None)       # pylint: disable=protected-access
            fakes._STATE.pop('finish_then', None)          # pylint: disable=protected-access
        return True

    # -- restarts ---------------------------------------------------------
    def _released_names(self):
        """State written by the released version: a container that runs for a cache entry is named after the entry by
        the documented formula (instance id, inode and creation time in microseconds, 77 bits in base 62, 13 characters).
        A manager restart (what an upgrade implies) meets containers under THOSE names: where the name on disk is
        another one it is put right (directory and running link).  The harness carries its own copy of the formula."""
        import string
        numerals = string.digits + string.ascii_lowercase + string.ascii_uppercase
        for name in sorted(os.listdir(self.running_dir)):
            link = os.path.join(self.running_dir, name)
            cache = self.cache_path(name)
            try:
                target = os.readlink(link)
                st = os.stat(cache)
            except OSError:
                continue
            have = os.path.basename(target)
            mine = read_marker(cache)
            runs = read_marker(os.path.join(self.apps_dir, have, 'data', 'manifest.yml'))
            if mine is None or runs is None or mine[:2] != runs[:2]:
                continue        # not the container of the present cache entry
            seed = ((int(st.st_ctime * 10 ** 6) << 64) + ((int(st.st_ino) ^ (int(name.rpartition('#')[2]) << 31)) & (2 ** 64 - 1))) & (2 ** 77 - 1)
            digits = ''
            while seed:
                seed, r = divmod(seed, 62)
                digits = numerals[r] + digits
            want = '%s-%s' % (name.replace('#', '-'), (digits or '0').rjust(13, '0'))
            self._count('running_containers_checked_against_released_name_formula')
            if want != have and not os.path.exists(os.path.join(self.apps_dir, want)):
                os.rename(os.path.join(self.apps_dir, have), os.path.join(self.apps_dir, want))
                os.unlink(link)
                os.symlink(os.path.join(os.path.dirname(target), want), link)
                self._count('running_containers_renamed_to_released_name')

    def restart_manager(self):
        self._released_names()
        if RELATIVE_LINKS:
            # links left by an earlier release: same container, relative target
            for name in os.listdir(self.running_dir):
                link = os.path.join(self.running_dir, name)
                try:
                    target = os.readlink(link)
                except OSError:
                    continue
                if os.path.isabs(target) and os.path.dirname(target) in (self.apps_dir, os.path.realpath(self.apps_dir)):
                    os.unlink(link)
                    os.symlink(os.path.join('..', 'apps', os.path.basename(target)), link)
                    self._count('running_links_made_relative')
        self.start_manager()
        return True

    def node_start(self):
        """run_real.sh: rm running/* cleanup/*; every service starts again
        (the event manager starts not ready)."""
        for d in (self.running_dir, self.cleanup_dir, self.tombstone_dir):
            for name in os.listdir(d):
                try:
                    os.unlink(os.path.join(d, name))
                except IsADirectoryError:
                    pass        # "rm -f" (no -r) leaves a directory behind
        self.pending_exit.clear()
        self.supervised.clear()
        ready = os.path.join(self.cache_dir, '.ready')
        if os.path.exists(ready):
            os.unlink(ready)
        self.start_manager()
        self.start_monitor()
        return True
