"""Boundary fakes and provenance observers for the C13 driver.

Only true external boundaries are replaced (DESIGN 1.4):

* ``treadmill.runtime.get_runtime_cls`` -> ``LinuxRuntime`` (no entry points
  are registered in the sandbox);
* ``treadmill.runtime.get_runtime`` -> a runtime object whose ``finish()``
  removes the container directory (what ``RuntimeBase.finish`` ends with; the
  kernel-level teardown before it is the boundary);
* ``treadmill.subproc.resolve`` (path lookup of executables),
  ``treadmill.supervisor.control_svscan`` / ``control_service`` (s6);
* ``os.fsync`` (durability barrier; no crash cuts in C13);
* ``plugin_manager.load('treadmill.tombstones', 'container-cleanup')`` ->
  ``monitor.MonitorContainerCleanup`` (no entry points registered).

The s6 control fakes can be made to FAIL at scripted points:
``arm_fault('svscan'|'service', n)`` makes the next n calls raise
``subproc.CalledProcessError`` (svscan busy / restarting), whoever the caller
is (``AppCfgMgr._refresh_supervisor``, ``MonitorContainerCleanup``,
``MonitorContainerDown``).

The node monitor (``treadmill.monitor.Monitor``) runs its real ``run()``:
``_configure`` (which re-reads the tombstone directories) is executed by the
first entry of a monitor life only, and the endless loop is left through
``wait_for_events`` raising ``MonitorIdle`` when nothing is pending.

Observers (signature-transparent wrappers, they call the original and return
its result) record WHO created or moved a link:

* ``AppCfgMgr._on_created/_on_deleted/_on_modified/_synchronize/_terminate/
  _configure`` push their name on a context stack;
* ``treadmill.fs.symlink_safe`` / ``treadmill.fs.replace`` log
  ``(context, link path)``.

The oracle never reads this log to reach a verdict; it is used only to name
the mechanism of a violation the directory listing already showed.
"""
import os
import shutil

_STATE = {
    'installed': False,
    'stack': [],
    'log': [],          # (kind, ctx tuple, path, extra)
    'calls': [],        # (handler, arg) every wrapped AppCfgMgr call
    'svscan': 0,
    'orig': {},
    'faults': {'svscan': 0, 'service': 0, 'midsync_unlink': 0},
    'midsync_actor': None,   # [k, fn]: fn() runs right before the k-th file-system look of a synchronisation
    'sync_looks': 0,         # file-system looks (exists / islink / readlink ...) of the current synchronisation
    'fault_hits': [],        # (target, context) of the current step
    'monitor_watcher': None,  # the DirWatcher of the live monitor
    'tomb_exec': {},         # (id, timestamp) -> number of executions
    'tomb_log': [],          # (id, timestamp, nth execution, result)
}


class MonitorIdle(BaseException):
    """The monitor has nothing left to do and would block."""

_WRAPPED = ('_on_created', '_on_deleted', '_on_modified', '_synchronize',
            '_terminate', '_configure')


class CleanupInterrupted(OSError):
    """The container removal was interrupted half-way."""


class FakeRuntime:
    """What is left of a runtime once the kernel boundary is removed."""

    def __init__(self, container_dir):
        self.container_dir = container_dir

    def finish(self):
        frac = _STATE.pop('finish_partial', None)
        if frac is not None:
            # the removal fails half-way (EBUSY on a lingering mount): some files are gone, the rest stays; the
            # clean-up job dies and is retried later by its supervisor
            files = []
            for base, _dirs, names in os.walk(self.container_dir):
                # (the records that say the container ended - exitinfo / aborted / oom - are among what is left:
                # without them nothing on disk tells a finished container from one that never ran, and such a
                # history is outside the property)
                files += [os.path.join(base, n) for n in names if n not in ('exitinfo', 'aborted', 'oom')]
            files.sort()
            for path in files[:max(1, int(len(files) * frac))]:
                os.unlink(path)
            raise CleanupInterrupted(16, 'Device or resource busy (injected half-way through the removal)',
                                     self.container_dir)
        shutil.rmtree(self.container_dir)
        then = _STATE.pop('finish_then', None)
        if then is not None:
            # the clean-up job is one process among several: another actor gets the CPU between its two steps (the
            # container directory is gone, the cleanup link is still there)
            then()


def _mk_method_wrapper(name, orig):
    def wrapper(self_, *args, **kwargs):
        if name == '_synchronize':
            _STATE['sync_looks'] = 0
        _STATE['stack'].append(name)
        _STATE['calls'].append((name, args[0] if args else None))
        try:
            return orig(self_, *args, **kwargs)
        finally:
            _STATE['stack'].pop()
    wrapper.__name__ = name
    wrapper.__vf_orig__ = orig
    return wrapper


def _mk_fs_wrapper(kind, orig):
    def wrapper(*args, **kwargs):
        _STATE['log'].append((kind, tuple(_STATE['stack']), args[:2]))
        return orig(*args, **kwargs)
    wrapper.__name__ = kind
    wrapper.__vf_orig__ = orig
    return wrapper


def install():
    """Install fakes and observers once per process."""
    if _STATE['installed']:
        return
    from treadmill import appcfgmgr
    from treadmill import context
    from treadmill import fs
    from treadmill import runtime as tm_runtime
    from treadmill import subproc
    from treadmill import supervisor
    from treadmill.runtime.linux import runtime as linux_runtime

    tm_runtime.get_runtime_cls = lambda _name: linux_runtime.LinuxRuntime
    tm_runtime.get_runtime = (
        lambda _rt, _tm_env, container_dir, _param=None:
        FakeRuntime(container_dir)
    )
    subproc.resolve = lambda exe: '/vf-fake/' + exe

    def _maybe_fail(target, cmd):
        if _STATE['faults'][target] > 0:
            _STATE['faults'][target] -= 1
            _STATE['fault_hits'].append((target, tuple(_STATE['stack'])))
            raise subproc.CalledProcessError(111, cmd)

    def control_svscan(_scan_dir, _actions):
        _maybe_fail('svscan', 's6-svscanctl')
        _STATE['svscan'] += 1

    def control_service(*_args, **_kwargs):
        _maybe_fail('service', 's6-svc')
        return True

    supervisor.control_svscan = control_svscan
    supervisor.control_service = control_service

    # durability barrier of the kernel; C13 has no crash cuts, the listing the
    # oracle reads is the same with or without it
    import os
    os.fsync = lambda _fd: None

    context.GLOBAL.cell = 'vfcell'
    context.GLOBAL.zk.url = 'zookeeper://vf@vf-fake:2181/treadmill/vfcell'

    # the event manager keeps applying placement changes while the manager synchronises: with the fault armed it
    # unlinks one cache entry right after the manager listed the cache directory inside _synchronize
    import glob as _glob

    class _Glob:
        def __getattr__(self, name):
            return getattr(_glob, name)

        @staticmethod
        def glob(pattern, *args, **kwargs):
            res = _glob.glob(pattern, *args, **kwargs)
            if (_STATE['faults']['midsync_unlink'] > 0 and '_synchronize' in _STATE['stack']
                    and os.path.basename(os.path.dirname(pattern)) == 'cache'):
                victims = sorted(p for p in res if not os.path.basename(p).startswith('.'))
                if victims:
                    _STATE['faults']['midsync_unlink'] -= 1
                    victim = victims[len(_STATE['calls']) % len(victims)]
                    os.unlink(victim)
                    _STATE['fault_hits'].append(('midsync_unlink', tuple(_STATE['stack'])))
            return res
    appcfgmgr.glob = _Glob()

    # the manager is one process among several: every look it takes at the file system (os.path.exists / islink /
    # lexists / isdir, os.readlink, os.stat / lstat, os.listdir of the module's `os` global) inside a synchronisation
    # is a point at which another actor's real operation can have happened.  The proxy forwards every call to the
    # real os; with an actor armed it runs that actor right BEFORE the k-th look of the synchronisation.
    import os as _os

    def _look(fn, path):
        armed_ = _STATE['midsync_actor']
        if '_synchronize' not in _STATE['stack'] or _STATE.get('in_midsync_actor'):
            return
        _STATE['sync_looks'] += 1
        if armed_ is None or armed_[0] != _STATE['sync_looks']:
            return
        _STATE['midsync_actor'] = None
        _STATE['in_midsync_actor'] = True
        try:
            _STATE['fault_hits'].append(('midsync_actor', tuple(_STATE['stack']), fn, str(path)))
            armed_[1]()
        finally:
            _STATE['in_midsync_actor'] = False

    def _looking(fn, real):
        def call(path, *args, **kwargs):
            _look(fn, path)
            return real(path, *args, **kwargs)
        call.__name__ = fn
        return call

    class _OsPath:
        def __getattr__(self, name):
            return getattr(_os.path, name)
    for fn in ('exists', 'lexists', 'islink', 'isdir', 'isfile'):
        setattr(_OsPath, fn, staticmethod(_looking('os.path.' + fn, getattr(_os.path, fn))))

    class _Os:
        path = _OsPath()

        def __getattr__(self, name):
            return getattr(_os, name)
    for fn in ('readlink', 'stat', 'lstat', 'listdir'):
        setattr(_Os, fn, staticmethod(_looking('os.' + fn, getattr(_os, fn))))
    appcfgmgr.os = _Os()

    cls = appcfgmgr.AppCfgMgr
    for name in _WRAPPED:
        orig = getattr(cls, name)
        setattr(cls, name, _mk_method_wrapper(name, orig))
    fs.symlink_safe = _mk_fs_wrapper('symlink_safe', fs.symlink_safe)
    fs.replace = _mk_fs_wrapper('replace', fs.replace)
    _install_monitor_shims()
    _STATE['installed'] = True


def _install_monitor_shims():
    from treadmill import dirwatch
    from treadmill import monitor
    from treadmill import plugin_manager

    orig_load = plugin_manager.load

    def load(namespace, name):
        if namespace == 'treadmill.tombstones' and name == 'container-cleanup':
            return monitor.MonitorContainerCleanup
        return orig_load(namespace, name)

    plugin_manager.load = load

    orig_configure = monitor.Monitor._configure

    def _configure(self_, *args, **kwargs):
        if self_._dirwatcher is not None:
            return None              # same monitor life: resume the loop
        res = orig_configure(self_, *args, **kwargs)
        _STATE['monitor_watcher'] = self_._dirwatcher
        return res

    monitor.Monitor._configure = _configure

    cls = dirwatch.DirWatcher
    orig_wait = cls.wait_for_events

    def wait_for_events(self_, *args, **kwargs):
        if self_ is _STATE['monitor_watcher']:
            if orig_wait(self_, 0):
                return True
            raise MonitorIdle()
        return orig_wait(self_, *args, **kwargs)

    cls.wait_for_events = wait_for_events

    orig_execute = monitor.MonitorContainerCleanup.execute

    def execute(self_, data, *args, **kwargs):
        key = (data['id'], data['timestamp'])
        nth = _STATE['tomb_exec'].get(key, 0) + 1
        _STATE['tomb_exec'][key] = nth
        _STATE['stack'].append('MonitorContainerCleanup')
        try:
            res = orig_execute(self_, data, *args, **kwargs)
        finally:
            _STATE['stack'].pop()
        _STATE['tomb_log'].append((data['id'], data['timestamp'], nth, res))
        return res

    monitor.MonitorContainerCleanup.execute = execute


def new_case():
    """Forget everything that belongs to the previous node."""
    _STATE['faults']['svscan'] = 0
    _STATE['faults']['service'] = 0
    _STATE['faults']['midsync_unlink'] = 0
    _STATE['midsync_actor'] = None
    _STATE['sync_looks'] = 0
    _STATE['in_midsync_actor'] = False
    _STATE['tomb_exec'].clear()
    _STATE['monitor_watcher'] = None
    reset_logs()


def arm_fault(target, count):
    """The next `count` calls of the s6 control command fail."""
    _STATE['faults'][target] = count


def armed(target):
    return _STATE['faults'][target]


def arm_midsync_actor(k, fn):
    """fn() runs right before the k-th file-system look of the next synchronisation (k = 0: disarm)."""
    _STATE['midsync_actor'] = [k, fn] if k else None


def fault_hits():
    """[(target, context)] faults injected in the current step."""
    return list(_STATE['fault_hits'])


def tomb_log():
    """[(id, timestamp, nth execution, result)] of the current step."""
    return list(_STATE['tomb_log'])


def forget_monitor_watcher():
    _STATE['monitor_watcher'] = None


def reset_logs():
    """Forget provenance of the previous step."""
    del _STATE['log'][:]
    del _STATE['calls'][:]
    del _STATE['stack'][:]
    del _STATE['fault_hits'][:]
    del _STATE['tomb_log'][:]


def link_log():
    """[(kind, context tuple, (arg0, arg1))] of the current step."""
    return list(_STATE['log'])


def call_log():
    """[(handler, first arg)] of the current step."""
    return list(_STATE['calls'])
