"""Boundary fakes and provenance observers for the C13 driver.

Only true external boundaries are replaced (DESIGN 1.4):

* ``treadmill.runtime.get_runtime_cls`` -> ``LinuxRuntime`` (no entry points
  are registered in the sandbox);
* ``treadmill.runtime.get_runtime`` -> a runtime object whose ``finish()``
  removes the container directory (what ``RuntimeBase.finish`` ends with; the
  kernel-level teardown before it is the boundary);
* ``treadmill.subproc.resolve`` (path lookup of executables),
  ``treadmill.supervisor.control_svscan`` / ``control_service`` (s6);
* ``os.fsync`` (durability barrier; no crash cuts in C13).

Observers (signature-transparent wrappers, they call the original and return
its result) record WHO created or moved a link:

* ``AppCfgMgr._on_created/_on_deleted/_on_modified/_synchronize/_terminate/
  _configure`` push their name on a context stack;
* ``treadmill.fs.symlink_safe`` / ``treadmill.fs.replace`` log
  ``(context, link path)``.

The oracle never reads this log to reach a verdict; it is used only to name
the mechanism of a violation the directory listing already showed.
"""
import shutil

_STATE = {
    'installed': False,
    'stack': [],
    'log': [],          # (kind, ctx tuple, path, extra)
    'calls': [],        # (handler, arg) every wrapped AppCfgMgr call
    'svscan': 0,
    'orig': {},
}

_WRAPPED = ('_on_created', '_on_deleted', '_on_modified', '_synchronize',
            '_terminate', '_configure')


class FakeRuntime:
    """What is left of a runtime once the kernel boundary is removed."""

    def __init__(self, container_dir):
        self.container_dir = container_dir

    def finish(self):
        shutil.rmtree(self.container_dir)


def _mk_method_wrapper(name, orig):
    def wrapper(self_, *args, **kwargs):
        _STATE['stack'].append(name)
        _STATE['calls'].append((name, args[0] if args else None))
        try:
            return orig(self_, *args, **kwargs)
        finally:
            _STATE['stack'].pop()
    wrapper.__name__ = name
    wrapper.__vf_orig__ = orig
    return wrapper


def _mk_fs_wrapper(kind, orig):
    def wrapper(*args, **kwargs):
        _STATE['log'].append((kind, tuple(_STATE['stack']), args[:2]))
        return orig(*args, **kwargs)
    wrapper.__name__ = kind
    wrapper.__vf_orig__ = orig
    return wrapper


def install():
    """Install fakes and observers once per process."""
    if _STATE['installed']:
        return
    from treadmill import appcfgmgr
    from treadmill import context
    from treadmill import fs
    from treadmill import runtime as tm_runtime
    from treadmill import subproc
    from treadmill import supervisor
    from treadmill.runtime.linux import runtime as linux_runtime

    tm_runtime.get_runtime_cls = lambda _name: linux_runtime.LinuxRuntime
    tm_runtime.get_runtime = (
        lambda _rt, _tm_env, container_dir, _param=None:
        FakeRuntime(container_dir)
    )
    subproc.resolve = lambda exe: '/vf-fake/' + exe

    def control_svscan(_scan_dir, _actions):
        _STATE['svscan'] += 1

    def control_service(*_args, **_kwargs):
        return True

    supervisor.control_svscan = control_svscan
    supervisor.control_service = control_service

    # durability barrier of the kernel; C13 has no crash cuts, the listing the
    # oracle reads is the same with or without it
    import os
    os.fsync = lambda _fd: None

    context.GLOBAL.cell = 'vfcell'
    context.GLOBAL.zk.url = 'zookeeper://vf@vf-fake:2181/treadmill/vfcell'

    cls = appcfgmgr.AppCfgMgr
    for name in _WRAPPED:
        orig = getattr(cls, name)
        setattr(cls, name, _mk_method_wrapper(name, orig))
    fs.symlink_safe = _mk_fs_wrapper('symlink_safe', fs.symlink_safe)
    fs.replace = _mk_fs_wrapper('replace', fs.replace)
    _STATE['installed'] = True


def reset_logs():
    """Forget provenance of the previous step."""
    del _STATE['log'][:]
    del _STATE['calls'][:]
    del _STATE['stack'][:]


def link_log():
    """[(kind, context tuple, (arg0, arg1))] of the current step."""
    return list(_STATE['log'])


def call_log():
    """[(handler, first arg)] of the current step."""
    return list(_STATE['calls'])
