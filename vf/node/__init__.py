"""Node-side drivers and oracles (DESIGN section 4)."""
