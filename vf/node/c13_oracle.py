"""Oracle of C13, written from the property statement.

Observation = the directory listing only: ``running/*`` and ``cleanup/*``
(link name -> target), the directories of ``apps/``, the flag files
``data/{exitinfo,aborted,oom}`` of each container, the files of ``cache/``.

Which instance and *generation* a container belongs to is read from a marker
the harness put into the manifest (``data/manifest.yml`` is the copy of the
cache file the container was configured from); the repository's naming
functions (``gen_uniqueid``, ``app_name`` ...) are NOT used.

Invariants (statement -> code):

I1  always: a container directory is the target of at most one link among
    running/* and cleanup/*; a running link is named after the container's
    instance.
I3  always: a container that has been seen with exitinfo|aborted|oom, or with
    a cleanup link, never *gains* a running link afterwards.
I4  manager steps and node-monitor steps: a running link whose container is
    unfinished and whose cache entry (same generation) is present when the
    handler runs is still there after the handler.  (At a monitor step
    "unfinished" also excludes the containers whose supervised process the
    environment ended - that is what the monitor is there to hand over.)
I5  a delivered "deleted" event for an instance with no cache entry, manager
    active: the instance has no running link afterwards and the container that
    had it has a cleanup link.
I2  after a synchronisation (manager idle -> active): for every cached
    instance X of generation g -
      not configurable            => no running/X;
      no container of g yet       => running/X -> a container of g;
      container of g idle/running,
        unfinished, not in cleanup => running/X -> that container;
      container finished / in cleanup => running/X absent or the untouched link;
    every running link has a cache entry of its container's generation; every
    container whose generation is not the cached one has a cleanup link and no
    running link ("handed to cleanup").
"""
import os

from . import c13_drv as drv

FLAGS = ('exitinfo', 'aborted', 'oom')


class Snapshot:
    """The observable state of the node."""
    __slots__ = ('running', 'cleanup', 'apps', 'flags', 'cache', 'ident')

    def __init__(self, node, ident_cache):
        self.running = _links(node.running_dir)
        self.cleanup = _links(node.cleanup_dir)
        self.apps = set()
        self.flags = {}
        self.ident = ident_cache          # container -> (inst, gen, bad) | None
        for name in os.listdir(node.apps_dir):
            cdir = os.path.join(node.apps_dir, name)
            if not os.path.isdir(cdir):
                continue
            self.apps.add(name)
            data = os.path.join(cdir, 'data')
            self.flags[name] = tuple(f for f in FLAGS
                                     if os.path.exists(os.path.join(data, f)))
            if ident_cache.get(name) is None:
                ident_cache[name] = drv.read_marker(
                    os.path.join(data, 'manifest.yml'))
        self.cache = {}
        for name in os.listdir(node.cache_dir):
            if name.startswith('.'):
                continue
            mark = drv.read_marker(os.path.join(node.cache_dir, name))
            if mark is not None:
                self.cache[name] = (mark[1], mark[2])       # gen, bad

    def links_to(self, container):
        out = [('running', n) for n, t in sorted(self.running.items())
               if t == container]
        out += [('cleanup', n) for n, t in sorted(self.cleanup.items())
                if t == container]
        return out

    def container_of(self, inst, gen):
        for c in sorted(self.apps):
            ident = self.ident.get(c)
            if ident is not None and ident[0] == inst and ident[1] == gen:
                return c
        return None

    def generations_of(self, inst):
        return sorted(c for c in self.apps
                      if self.ident.get(c) is not None
                      and self.ident[c][0] == inst)

    def describe(self):
        return {
            'running': dict(self.running),
            'cleanup': dict(self.cleanup),
            'apps': {c: {'ident': self.ident.get(c), 'flags': self.flags[c]}
                     for c in sorted(self.apps)},
            'cache': {k: {'gen': v[0], 'bad': v[1]}
                      for k, v in sorted(self.cache.items())},
        }


def _links(directory):
    out = {}
    for name in os.listdir(directory):
        if name.startswith('.'):
            continue
        path = os.path.join(directory, name)
        try:
            out[name] = os.path.basename(os.readlink(path))
        except OSError:
            out[name] = None           # not a link
    return out


def _scheme(snapshot, kind, name, container):
    """How a link is named: after the instance or after the container."""
    if kind == 'running':
        return 'running'
    if name == container:
        return 'cleanup(unique-name)'
    ident = snapshot.ident.get(container)
    if ident is not None and name == ident[0]:
        return 'cleanup(instance-name)'
    return 'cleanup(other-name)'


def _ctx_name(ctx):
    """'_on_modified>_synchronize>_terminate' -> '_synchronize>_terminate'."""
    ctx = list(ctx)
    if '_synchronize' in ctx:
        ctx = ctx[ctx.index('_synchronize'):]
    return '>'.join(ctx)


class Provenance:
    """Names the code path that created / moved a link in the current step
    (from the observers of c13_fakes; never used for the verdict)."""

    def __init__(self, step_name, link_log, call_log):
        self.step = step_name
        self.by_link = {}
        for kind, ctx, args in link_log:
            if kind == 'symlink_safe':
                link = args[0]
            else:                      # replace(src, dst): dst is the new link
                link = args[1] if len(args) > 1 else None
                src = args[0] if args else None
                self.by_link.setdefault(('moved-from', src),
                                        _ctx_name(ctx) or self.step)
            self.by_link[('made', link)] = _ctx_name(ctx) or self.step
        self.calls = call_log
        self.raw = list(link_log)

    def overwritten_link_to(self, container, held=()):
        """Naming only: a cleanup link of `container` - one it held before the step (`held`: link names) or one
        made in this step by symlink_safe - was afterwards, in the same step, the destination of a rename
        (fs.replace) that is not symlink_safe's own: returns the code path of that rename."""
        def key(path):
            path = str(path)
            return (os.path.basename(os.path.dirname(path)), os.path.basename(path))
        mine = {('cleanup', n): 0 for n in held}
        for i, (kind, _ctx, args) in enumerate(self.raw):
            if kind == 'symlink_safe' and len(args) > 1 and os.path.basename(str(args[1])) == container:
                mine[key(args[0])] = i + 1
        for i, (kind, ctx, args) in enumerate(self.raw):
            if kind == 'replace' and len(args) > 1 and key(args[1]) in mine and i >= mine[key(args[1])] \
                    and not os.path.basename(str(args[0])).startswith('.tmp'):
                return _ctx_name(ctx) or self.step
        return None

    def made(self, path):
        return self.by_link.get(('made', path))

    def moved(self, path):
        return self.by_link.get(('moved-from', path))


class Oracle:
    """Keeps the temporal part (taint) and evaluates one step at a time."""

    def __init__(self, node):
        self.node = node
        self.ident = {}
        self.tainted = {}      # container -> reason first seen
        self.origin = {}       # (dir kind, link name, target) -> who made it
        self.gone_finished = set()
        self.forgiven = set()  # ended without a record and then met a node start (see node_started)
        self.reach = {}
        self.prev = Snapshot(node, self.ident)
        self._note_taint(self.prev)

    def _count(self, name, n=1):
        self.reach[name] = self.reach.get(name, 0) + n

    def _note_taint(self, snap):
        # a container is the life time of its directory: once the cleanup
        # service removed it, a directory of the same name is a new container
        for c in [c for c in self.ident if c not in snap.apps]:
            del self.ident[c]
        for c in [c for c in self.tainted if c not in snap.apps]:
            if self.tainted.pop(c).startswith('finished'):
                self.gone_finished.add(c)
        for c in [c for c in self.node.down_recorded if c not in snap.apps]:
            del self.node.down_recorded[c]
        for c in snap.apps:
            if c in self.gone_finished:
                self.gone_finished.discard(c)
                self._count('obs_finished_generation_reconfigured_after_'
                            'its_cleanup_completed')
            if snap.flags[c] or c in self.node.down_recorded:
                # (down_recorded: the product's MonitorContainerDown action ran for the container and returned - the
                # container finished, whatever the action left on disk)
                self.tainted[c] = 'finished'
            elif c not in self.tainted and c in self.node.ended and c not in self.forgiven:
                # the container ended on its own (the environment knows: it ended it) without anything on disk saying so
                self.tainted[c] = 'ended-without-record'
            elif c not in self.tainted and any(
                    t == c for t in snap.cleanup.values()):
                self.tainted[c] = 'was-in-cleanup'

    def node_started(self):
        """A node start (run_real.sh) empties running/ and cleanup/: a container that was merely linked from
        cleanup/ and carries no record that it ended (exitinfo / aborted / oom) is, for everything the product can
        know, a configured container like any other - the statement's 'never started again' is about containers
        that finished, aborted or ran out of memory, and 'after a synchronisation the running links correspond to the
        cached manifests' asks for it to run.  Containers with such a record stay tainted."""
        for c in [c for c, why in self.tainted.items() if why in ('was-in-cleanup', 'ended-without-record')]:
            if self.tainted.pop(c) == 'ended-without-record':
                self._count('ended_without_record_taint_dropped_at_node_start')
            else:
                self._count('was_in_cleanup_taint_dropped_at_node_start')
        self.forgiven |= set(self.node.ended)

    def before(self):
        """Observe the state right before a handler / actor step (cache
        files may have changed since the last step)."""
        self.prev = Snapshot(self.node, self.ident)
        self._note_taint(self.prev)
        return self.prev

    # ------------------------------------------------------------------
    def step(self, kind, step_name, prov, event=None, sync=False,
             active=False, tombs=()):
        """Evaluate the step that led from self.prev to the current listing.

        kind: 'manager' (a handler returned), 'manager-crash' (the manager
        died inside a handler on an injected s6 failure), 'monitor' (the node
        monitor ran; tombs = what it executed) or 'env' (another actor).
        Returns a list of (mechanism, message, witness)."""
        prev = self.prev
        cur = Snapshot(self.node, self.ident)
        out = []
        self._note_origin(prev, cur, prov)
        out += self._i1(cur, prov)
        out += self._i3(prev, cur, prov)
        if kind in ('manager', 'manager-crash', 'monitor'):
            out += self._i4(prev, cur, prov, event, kind, tombs)
        if kind == 'manager':
            if (event is not None and event[0] == 'deleted'
                    and event[1] != '.ready' and active):
                out += self._i5(prev, cur, prov, event[1])
            if sync:
                out += self._i2(prev, cur, prov, tombs)
        self._note_taint(cur)
        self.prev = cur
        if out:
            witness = {'before': prev.describe(), 'after': cur.describe(),
                       'step': step_name, 'event': event,
                       'tombstones_executed': [list(t) for t in tombs],
                       'calls': [list(c) for c in prov.calls][:40]}
            out = [(m, msg, witness) for (m, msg) in out]
        return out

    def _note_origin(self, prev, cur, prov):
        for kind, before, after, base in (
                ('running', prev.running, cur.running, self.node.running_dir),
                ('cleanup', prev.cleanup, cur.cleanup, self.node.cleanup_dir)):
            for name, target in after.items():
                if before.get(name) == target:
                    continue
                who = prov.made(os.path.join(base, name)) or prov.step
                self.origin[(kind, name, target)] = who

    # -- I1 ---------------------------------------------------------------
    def _i1(self, cur, prov):
        out = []
        for c in sorted(cur.apps):
            links = cur.links_to(c)
            self._count('i1_container_evaluations')
            if len(links) > 1:
                parts = []
                for kind, name in links:
                    who = self.origin.get((kind, name, c), 'unknown')
                    parts.append('%s@%s' % (_scheme(cur, kind, name, c), who))
                mech = 'multi-link:' + '+'.join(sorted(parts))
                out.append((mech, 'container %s is the target of %d links: %r'
                            % (c, len(links), links)))
        for name, target in sorted(cur.running.items()):
            if target is None or target not in cur.apps:
                continue
            ident = cur.ident.get(target)
            if ident is not None and ident[0] != name:
                out.append(('running-link-of-other-instance:%s' % prov.step,
                            'running/%s -> %s which belongs to %s'
                            % (name, target, ident[0])))
        return out

    # -- I3 ---------------------------------------------------------------
    def _i3(self, prev, cur, prov):
        out = []
        for name, target in sorted(cur.running.items()):
            if target is None or target not in self.tainted:
                continue
            if prev.running.get(name) == target:
                continue                     # link untouched, not a start
            self._count('i3_new_link_to_tainted')
            who = prov.made(os.path.join(self.node.running_dir, name)) \
                or prov.step
            reason = self.tainted[target]
            out.append(('restarted-%s@%s' % (reason, who),
                        'container %s (%s) became the running target of %s '
                        'again' % (target, reason, name)))
        return out

    # -- I4 ---------------------------------------------------------------
    def _i4(self, prev, cur, prov, event, kind='manager', tombs=()):
        out = []
        for name, target in sorted(prev.running.items()):
            if target is None or target not in prev.apps:
                continue
            ident = prev.ident.get(target)
            if ident is None or ident[0] != name:
                continue
            if prev.flags.get(target):
                continue
            cached = prev.cache.get(name)
            if cached is None or cached[0] != ident[1]:
                continue
            if len(prev.links_to(target)) != 1:
                continue
            if kind == 'monitor' or tombs:
                # (tombs at a manager step: the node monitor ran inside the handler, between two of its looks at
                # the file system)
                if target in self.node.ended:
                    continue
                if kind == 'monitor':
                    self._count('i4_monitor_step_evaluations')
            self._count('i4_unchanged_running_evaluations')
            if cur.running.get(name) == target:
                continue
            who = prov.moved(os.path.join(self.node.running_dir, name)) \
                or prov.step
            others = [c for c in prev.generations_of(name) if c != target]
            ctx = 'other-generation-present' if others else 'single-generation'
            if event is not None and event[0] == 'deleted' \
                    and event[1] == name:
                ctx = 'stale-deleted-event'
            hits = [t for t in tombs if t[0] == name]
            if (kind == 'monitor' or tombs) and hits:
                ctx = 'stale-tombstone-%s(%s)' % (
                    're-executed' if max(t[2] for t in hits) > 1
                    else 'first-execution',
                    str(hits[0][6]))
            out.append(('unchanged-running-removed:%s:%s' % (who, ctx),
                        'running/%s -> %s removed although cache/%s is still '
                        'generation %d and the container has not finished'
                        % (name, target, name, ident[1])))
        return out

    # -- I5 ---------------------------------------------------------------
    def _i5(self, prev, cur, prov, inst):
        out = []
        if inst in prev.cache:
            return out
        target = prev.running.get(inst)
        if target is None or target not in prev.apps:
            return out
        self._count('i5_deleted_evaluations')
        if inst in cur.running:
            out.append(('deleted-still-running:%s' % prov.step,
                        'cache/%s is gone, the deleted event was handled, '
                        'running/%s still exists' % (inst, inst)))
        elif target in cur.apps and not any(
                t == target for t in cur.cleanup.values()):
            out.append(('deleted-not-handed-to-cleanup:%s' % prov.step,
                        'container %s lost its running link without getting '
                        'a cleanup link' % target))
        return out

    # -- I2 ---------------------------------------------------------------
    def _i2(self, prev, cur, prov, tombs=()):
        out = []
        # containers that had ended on their own before the synchronisation and whose tombstone the node monitor
        # executed while the synchronisation ran: ended containers, to be handed to cleanup, never to run again
        handed = {t[4] for t in tombs if t[4] is not None and t[4] in self.node.ended}
        terminated = {a for (h, a) in prov.calls if h == '_terminate'}
        configured = {a for (h, a) in prov.calls if h == '_configure'}

        def how(inst):
            bits = []
            if inst in terminated:
                bits.append('terminated-in-sync')
            bits.append('configure-called' if inst in configured
                        else 'configure-not-called')
            return ','.join(bits)

        for inst, (gen, bad) in sorted(prev.cache.items()):
            self._count('i2_cached_instance_evaluations')
            link = cur.running.get(inst)
            if bad:
                self._count('i2_unconfigurable_evaluations')
                if link is not None:
                    out.append(('sync:unconfigurable-running',
                                'cache/%s cannot be configured but running/%s '
                                '-> %s after the synchronisation'
                                % (inst, inst, link)))
                continue
            c = prev.container_of(inst, gen)
            others = [x for x in prev.generations_of(inst) if x != c]
            if others:
                old = 'old-generation-' + (
                    'running' if prev.running.get(inst) in others
                    else 'in-cleanup' if any(
                        t in others for t in prev.cleanup.values())
                    else 'idle')
            else:
                old = 'no-old-generation'
            if c is None:
                self._count('i2_new_generation_evaluations')
                ident = cur.ident.get(link) if link else None
                if link is None or link not in cur.apps or ident is None \
                        or ident[0] != inst or ident[1] != gen:
                    out.append((
                        'sync:cached-not-running:new-generation:%s' % old,
                        'cache/%s (generation %d, configurable, never '
                        'configured) has running link %r after the '
                        'synchronisation [%s]' % (inst, gen, link, how(inst))))
                continue
            finished = bool(prev.flags.get(c)) or c in self.tainted or c in handed
            in_cleanup = any(t == c for t in prev.cleanup.values())
            if not finished and not in_cleanup:
                self._count('i2_existing_generation_evaluations')
                if prev.running.get(inst) != c:
                    self._count('i2_idle_container_evaluations')
                if link != c:
                    state = 'existing-running' \
                        if prev.running.get(inst) == c else 'existing-idle'
                    out.append((
                        'sync:cached-not-running:%s:%s' % (state, old),
                        'cache/%s generation %d has container %s (not '
                        'finished, not in cleanup) but running/%s is %r '
                        'after the synchronisation [%s]'
                        % (inst, gen, c, inst, link, how(inst))))
            else:
                self._count('i2_finished_generation_evaluations')
                if not in_cleanup and prev.running.get(inst) != c:
                    self._count('i2_finished_unlinked_generation_evaluations')
                    if self.node.down_recorded.get(c) == 'exitinfo0':
                        self._count('i2_finished_unlinked_generation_evaluations_service_ran_to_completion')
                    self._count('i2_finished_unlinked_generation_evaluations_%s' % self.node.exit_kind.get(c, 'other'))
                if link is not None and not (
                        link == c and prev.running.get(inst) == c):
                    out.append((
                        'sync:finished-or-cleanup-generation-running',
                        'cache/%s generation %d has container %s that '
                        'finished or is in cleanup, but running/%s is %r '
                        'after the synchronisation [%s]'
                        % (inst, gen, c, inst, link, how(inst))))
        for name, target in sorted(cur.running.items()):
            cached = prev.cache.get(name)
            ident = cur.ident.get(target) if target else None
            if cached is None or cached[1]:
                if cached is None:
                    out.append((
                        'sync:running-without-cache-entry',
                        'running/%s -> %s after the synchronisation, no '
                        'cache/%s' % (name, target, name)))
                continue
            if ident is not None and ident[0] == name \
                    and ident[1] != cached[0]:
                out.append((
                    'sync:running-other-generation',
                    'running/%s -> %s of generation %d, cache/%s is '
                    'generation %d' % (name, target, ident[1], name,
                                       cached[0])))
        for c in sorted(cur.apps):
            ident = cur.ident.get(c)
            if ident is None:
                continue
            cached = prev.cache.get(ident[0])
            if cached is not None and cached[0] == ident[1]:
                continue
            self._count('i2_stale_container_evaluations')
            links = cur.links_to(c)
            if not any(k == 'cleanup' for k, _n in links):
                state = 'still-running' if links else 'no-link'
                held = [n for n, t in prev.cleanup.items() if t == c]
                if not links and prov.overwritten_link_to(c, held):
                    # it was in cleanup (before, or handed over by this synchronisation) under a link name that a
                    # rename of the same step then took for another container
                    state = 'no-link:cleanup-link-overwritten-by:%s' % prov.overwritten_link_to(c, held)
                out.append((
                    'sync:stale-container-not-in-cleanup:%s' % state,
                    'container %s (generation %d of %s) has no cache entry '
                    'of its generation and links %r after the '
                    'synchronisation' % (c, ident[1], ident[0], links)))
        return out
