"""Runtime-monitoring harness for Treadmill properties C01-C20 (see DESIGN.md)."""
