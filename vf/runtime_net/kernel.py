"""Kernel-state model behind treadmill.subproc for the tools the container
network start / finish path runs: `ipset` (named sets with the real command's
`-exist` semantics, typed entries), `conntrack -D`, and - logged only -
`iptables` and `ip`.  Nothing of the repository is used here."""
import collections
import ipaddress
import re


class Kill(BaseException):
    """The process driving the operation is killed at this boundary (the
    operation does not continue; `finally` blocks cannot talk to the kernel)."""


class HarnessError(Exception):
    """The model was asked something it does not know (never a verdict)."""


_IP_PORT_RE = re.compile(r'^(?P<ip>[^,]+),(?:(?P<proto>[a-z]+):)?(?P<port>\d{1,5})$')


def _canon_ip(text):
    try:
        return str(ipaddress.IPv4Address(text))
    except ValueError:
        return None


class Kernel:
    """ipset / conntrack state of one host."""

    def __init__(self, conntrack_rc=None):
        self.sets = {}                      # name -> dict(type=..., entries=set())
        self.log = []                       # (tool, argv tuple)
        self.calls = collections.Counter()  # 'ipset add', 'conntrack -D', ...
        self.conntrack_flushed = []         # selectors of every conntrack -D
        self.conntrack_rc = conntrack_rc or (lambda: 0)
        self.step = None                    # callable(label) -> None | 'fail'; may raise Kill
        self.dead = False

    # -- snapshot -----------------------------------------------------------
    def snapshot(self):
        return {name: frozenset(s['entries']) for name, s in self.sets.items()}

    # -- boundary -----------------------------------------------------------
    def dispatch(self, argv, cmd_input=None):
        """Run one command line; returns (rc, output)."""
        argv = [str(a) for a in argv]
        tool = argv[0].rsplit('/', 1)[-1]
        if self.dead:
            raise Kill('process already killed')
        if tool in ('s6_svok', 's6-svok'):
            return 1, ''            # the container's supervisor is gone by the time finish runs
        label = tool
        if tool == 'ipset':
            words = [a for a in argv[1:] if a not in ('-exist', '-!')]
            label = 'ipset ' + (words[0] if words else '')
        elif tool == 'conntrack':
            label = 'conntrack -D'
        self.calls[label] += 1
        self.log.append((tool, tuple(argv[1:])))
        if self.step is not None:
            verdict = self.step(label)
            if verdict == 'fail':
                return 2, '%s: Kernel error received: injected fault\n' % tool
        if tool == 'ipset':
            return self._ipset(argv[1:], cmd_input)
        if tool == 'conntrack':
            return self._conntrack(argv[1:])
        if tool in ('iptables', 'iptables-restore', 'ip', 'brctl'):
            return 0, ''
        raise HarnessError('kernel model: unknown tool %r' % (argv,))

    # -- conntrack ----------------------------------------------------------
    def _conntrack(self, args):
        if '-D' not in args:
            raise HarnessError('kernel model: conntrack %r' % (args,))
        self.conntrack_flushed.append(tuple(a for a in args if a != '-D'))
        rc = self.conntrack_rc()
        return rc, ('conntrack v1.4: %d flow entries have been deleted.\n' % (1 - rc))

    # -- ipset --------------------------------------------------------------
    def _ipset(self, args, cmd_input):
        exist = any(a in ('-exist', '-!') for a in args)
        words = [a for a in args if a not in ('-exist', '-!')]
        if not words:
            return 1, 'ipset: no command specified\n'
        cmd, rest = words[0], words[1:]
        if cmd == 'restore':
            out = []
            for n, line in enumerate((cmd_input or '').splitlines(), 1):
                line = line.strip()
                if not line or line.startswith('#'):
                    continue
                if line == 'COMMIT':
                    continue
                rc, msg = self._ipset_one(line.split(), exist)
                if rc != 0:
                    return 1, 'ipset: Error in line %d: %s' % (n, msg)
                out.append(msg)
            return 0, ''.join(out)
        return self._ipset_one(words, exist)

    def _entry(self, set_type, text):
        if set_type == 'hash:ip':
            return _canon_ip(text)
        if set_type == 'hash:ip,port':
            m = _IP_PORT_RE.match(text)
            if not m:
                return None
            ip = _canon_ip(m.group('ip'))
            proto = m.group('proto') or 'tcp'
            port = int(m.group('port'))
            if ip is None or proto not in ('tcp', 'udp', 'sctp', 'udplite') or port > 65535:
                return None
            return '%s,%s:%d' % (ip, proto, port)
        if set_type == 'list:set':
            return text if text in self.sets else None
        raise HarnessError('kernel model: set type %r' % set_type)

    def _ipset_one(self, words, exist):
        cmd, rest = words[0], words[1:]
        if cmd in ('create', '-N'):
            name, set_type = rest[0], rest[1]
            if name in self.sets:
                if exist and self.sets[name]['type'] == set_type:
                    return 0, ''
                return 1, 'ipset: Set cannot be created: set with the same name already exists\n'
            if len(name) > 31:
                return 1, 'ipset: setname too long\n'
            self.sets[name] = dict(type=set_type, entries=set(), options=tuple(rest[2:]))
            return 0, ''
        if cmd in ('add', 'del', 'test', '-A', '-D', '-T'):
            name, text = rest[0], rest[1]
            s = self.sets.get(name)
            if s is None:
                return 1, 'ipset: The set with the given name does not exist\n'
            entry = self._entry(s['type'], text)
            if entry is None:
                return 1, 'ipset: Syntax error: cannot parse %s\n' % text
            if cmd in ('add', '-A'):
                if entry in s['entries'] and not exist:
                    return 1, "ipset: Element cannot be added to the set: it's already added\n"
                s['entries'].add(entry)
                return 0, ''
            if cmd in ('del', '-D'):
                if entry not in s['entries']:
                    if exist:
                        return 0, ''
                    return 1, "ipset: Element cannot be deleted from the set: it's not added\n"
                s['entries'].discard(entry)
                return 0, ''
            if entry in s['entries']:
                return 0, '%s is in set %s.\n' % (text, name)
            return 1, '%s is NOT in set %s.\n' % (text, name)
        if cmd in ('flush', '-F'):
            if not rest:
                for s in self.sets.values():
                    s['entries'].clear()
                return 0, ''
            if rest[0] not in self.sets:
                return 1, 'ipset: The set with the given name does not exist\n'
            self.sets[rest[0]]['entries'].clear()
            return 0, ''
        if cmd in ('destroy', '-X'):
            if not rest:
                self.sets.clear()
                return 0, ''
            if rest[0] not in self.sets:
                return 1, 'ipset: The set with the given name does not exist\n'
            for s in self.sets.values():
                if s['type'] == 'list:set' and rest[0] in s['entries']:
                    return 1, 'ipset: Set cannot be destroyed: it is in use by a kernel component\n'
            del self.sets[rest[0]]
            return 0, ''
        if cmd in ('list', '-L'):
            if '-name' in rest or '-n' in rest:
                return 0, ''.join('%s\n' % n for n in self.sets)
            names = [r for r in rest if not r.startswith('-')] or list(self.sets)
            out = []
            for n in names:
                if n not in self.sets:
                    return 1, 'ipset: The set with the given name does not exist\n'
                out.append('Name: %s\nType: %s\nMembers:\n%s' % (
                    n, self.sets[n]['type'], ''.join('%s\n' % e for e in sorted(self.sets[n]['entries']))))
            return 0, ''.join(out)
        if cmd in ('swap', '-W'):
            a, b = rest[0], rest[1]
            if a not in self.sets or b not in self.sets:
                return 1, 'ipset: The set with the given name does not exist\n'
            if self.sets[a]['type'] != self.sets[b]['type']:
                return 1, 'ipset: The sets cannot be swapped: their type does not match\n'
            self.sets[a], self.sets[b] = self.sets[b], self.sets[a]
            return 0, ''
        raise HarnessError('kernel model: ipset %r' % (words,))
