"""One Treadmill node for C16: the real LinuxAppEnvironment (real RuleMgr,
EndpointsMgr, network ResourceService client side) on a temp root, with only the
external boundaries replaced:

* treadmill.subproc.invoke / check_call / check_output -> kernel model
  (vf.runtime_net.kernel), subproc.resolve -> fixed paths;
* treadmill.newnet.create_newnet (would unshare the network namespace) ->
  recorder;
* the network service *daemon* (the process that answers a request with
  vip / veth / gateway / external_ip) -> Host.serve_network(): a distinct VIP
  per live container, lowest free address first (so addresses are reused after
  a finish).  The client side (`tm_env.svc_network.make_client(..)`: put / wait /
  get / delete on request directories and the service's resources/ links) is the
  repository's code;
* treadmill.plugin_manager.load / load_all (no entry points are registered in
  this sandbox): ('treadmill.runtime', 'linux') -> LinuxRuntime; the firewall
  plugin is either absent (KeyError, which the code tolerates) or a recording
  no-op plugin; no app hooks;
* socket.gethostbyname -> deterministic table, stable between start and finish;
* rrdutils.flush_noexc (unix socket of the rrd cache daemon) -> no-op.

The start of a container follows treadmill.runtime.linux._run.run() line by
line for its network part (request, wait, manifest['network'], real
allocate_network_ports, real save_app, real _unshare_network); the finish is the
real _finish.finish() (state.json -> load_app_safe -> _cleanup ->
_cleanup_network -> _cleanup_ephemeral_ports) or, for some containers,
load_app_safe + _cleanup_network called directly.
"""
import errno
import json
import os
import shutil
import socket
import tempfile

import yaml

from .kernel import Kernel, Kill, HarnessError

GATEWAY = '192.168.254.254'


class InjectedIOError(OSError):
    """A transient I/O error injected by the harness."""


class Container:
    """Harness-side record of one container (never read by the repository)."""

    def __init__(self, idx, name, spec):
        self.idx = idx
        self.name = name              # instance name  proid.app#0000000001
        self.spec = spec              # generated manifest (what the event file holds)
        self.event = None
        self.manifest = None          # loaded + runtime-normalised manifest (dict)
        self.unique = None
        self.shared = bool(spec.get('shared_network', False))
        self.unresolvable = False
        self.stage = 'new'            # new | started | aborted | finished
        self.sockets = []
        self.vip = None
        self.delta = frozenset()
        self.state = None             # state.json as read back by the harness
        self.interrupted_finishes = 0
        self.vip_released_by_interrupted_finish = False

    def close_sockets(self):
        for s in self.sockets:
            try:
                s.close()
            except OSError:
                pass
        self.sockets = []


class _RecordingFirewallPlugin:
    """What a site firewall plugin looks like to _run / _finish."""

    def __init__(self, host):
        self._host = host

    def apply_exception_rules(self, tm_env, container_dir, app):
        self._host.plugin_calls.append(('apply', app.name))

    def cleanup_exception_rules(self, tm_env, container_dir, app):
        self._host.plugin_calls.append(('cleanup', app.name))


class Host:
    def __init__(self, ext_ip, resolver, vip_pool, conntrack_rc=None, firewall_plugin=False):
        self.ext_ip = ext_ip
        self.resolver = dict(resolver)      # host name -> ip (missing = does not resolve)
        self.vip_pool = list(vip_pool)
        self.vips = {}                      # unique name -> vip
        self.vip_history = []               # every (unique, vip) ever handed out
        self.firewall_plugin = firewall_plugin
        self.plugin_calls = []
        self.newnets = []
        self.kernel = Kernel(conntrack_rc)
        self.kernel.step = self._step
        self.root = tempfile.mkdtemp(prefix='vf-')
        self._saved = []
        self._installed = False
        # cut bookkeeping
        self.cut = None                     # None | ('kill', k) | ('error', k)
        self.steps = 0
        self.sub_steps = 0
        self.cut_fired = False
        self.io_faults_injected = {}
        self.finishing = None               # the container whose finish is running
        self.second_worker_fired = None     # service at whose delete the second cleanup worker got ahead
        self.tm_env = None
        self._inotifies = []

    def close_inotifies(self):
        for ino in self._inotifies:
            try:
                ino.close()
            except OSError:
                pass
        self._inotifies = []

    # ------------------------------------------------------------------ setup
    def install(self):
        from treadmill import appenv, context, endpoints, newnet, plugin_manager
        from treadmill import rrdutils, rulefile, subproc
        from treadmill.runtime.linux import runtime as linux_runtime

        def rebind(obj, attr, new):
            self._saved.append((obj, attr, getattr(obj, attr)))
            setattr(obj, attr, new)

        kernel = self.kernel

        def invoke(cmd, cmd_input=None, use_except=False, **environ):
            rc, out = kernel.dispatch(list(cmd), cmd_input)
            if rc != 0 and use_except:
                raise subproc.CalledProcessError(cmd=list(cmd), returncode=rc, output=out)
            return (rc, out)

        def check_call(cmdline, environ=(), runas=None, **kwargs):
            rc, out = kernel.dispatch(list(cmdline))
            if rc != 0:
                raise subproc.CalledProcessError(cmd=list(cmdline), returncode=rc, output=out)
            return rc

        def check_output(cmdline, environ=(), **kwargs):
            rc, out = kernel.dispatch(list(cmdline))
            if rc != 0:
                raise subproc.CalledProcessError(cmd=list(cmdline), returncode=rc, output=out)
            return out

        rebind(subproc, 'invoke', invoke)
        rebind(subproc, 'check_call', check_call)
        rebind(subproc, 'check_output', check_output)
        rebind(subproc, 'resolve', lambda exe: '/vf-fake/bin/' + exe)
        # LinuxRuntime reads runtime.cfg with configparser.SafeConfigParser().readfp, both removed in
        # Python 3.12 (the repository targets 3.6): the loaded result is supplied directly
        from treadmill import utils as tm_utils
        rebind(linux_runtime, '_load_config', lambda _f: tm_utils.to_obj({'host_mount_whitelist': ['']}))

        def create_newnet(veth, dev_ip, gateway_ip, service_ip=None):
            self._step('newnet')
            self.newnets.append((veth, dev_ip, gateway_ip, service_ip))

        rebind(newnet, 'create_newnet', create_newnet)

        def plugin_load(namespace, name):
            if namespace == 'treadmill.runtime' and name == 'linux':
                return linux_runtime.LinuxRuntime
            if namespace == 'treadmill.firewall.plugins' and name == 'firewall' and self.firewall_plugin:
                return _RecordingFirewallPlugin(self)
            raise KeyError('Entry point not found: %r:%r' % (namespace, name))

        rebind(plugin_manager, 'load', plugin_load)
        rebind(plugin_manager, 'load_all', lambda namespace: [])
        rebind(rrdutils, 'flush_noexc', lambda rrdfile, rrd_socket=None: None)

        def gethostbyname(host):
            # numeric input is not looked up but parsed the way inet_aton does (zero-padded octets are read as
            # octal, '10.001.002.003' -> '10.1.2.3') and returned in canonical dotted-quad form, as libc does
            try:
                packed = socket.inet_aton(host)
                if host.count('.') == 3:
                    return socket.inet_ntoa(packed)
            except OSError:
                pass
            if host in self.resolver:
                return self.resolver[host]
            raise socket.gaierror(-2, 'Name or service not known')

        rebind(socket, 'gethostbyname', gethostbyname)

        # cut points at the entry of every directory mutation (transparent wrappers)
        def observed(cls, attr):
            orig = getattr(cls, attr)
            host = self

            def wrapper(self_, *a, **kw):
                host._step(attr)
                return orig(self_, *a, **kw)
            wrapper.__name__ = attr
            rebind(cls, attr, wrapper)

        # ResourceServiceClient.wait() without a timeout builds a DirWatcher whose inotify
        # instance is never closed (in production the process execs right after); only 128
        # instances exist per user, so the harness closes them once the call has returned.
        from treadmill.syscall import inotify
        orig_inotify_init = inotify.Inotify.__init__
        host_ = self

        def inotify_init(self_, *a, **kw):
            orig_inotify_init(self_, *a, **kw)
            host_._inotifies.append(self_)
        rebind(inotify.Inotify, '__init__', inotify_init)

        # a cut point between the removal of the network request link (which lets the network
        # service free the VIP) and the renaming of the request directory
        from treadmill.services import _base_service
        orig_del = _base_service.ResourceService.clt_del_request

        def clt_del_request(self_, *a, **kw):
            res = orig_del(self_, *a, **kw)
            if getattr(self_, 'name', None) == 'network':
                host_._step('clt_del_request:done')
            host_._second_worker(getattr(self_, 'name', None))
            return res
        rebind(_base_service.ResourceService, 'clt_del_request', clt_del_request)

        for attr in ('create_rule', 'unlink_rule'):
            observed(rulefile.RuleMgr, attr)
        for attr in ('create_spec', 'unlink_spec', 'unlink_all'):
            observed(endpoints.EndpointsMgr, attr)

        context.GLOBAL.cell = 'vfcell'
        context.GLOBAL.zk.url = 'zookeeper://vf@zk.invalid:2181/treadmill/vfcell'
        self._installed = True

        self.tm_env = appenv.AppEnvironment(self.root)
        # (no archives/ and metrics/ directories: finish tolerates their absence, and every file
        # costs ~1 ms on this sandbox's /tmp)
        for d in (self.tm_env.apps_dir, self.tm_env.rules_dir,
                  os.path.join(self.tm_env.svc_network_dir, 'resources'),
                  os.path.join(self.tm_env.svc_cgroup_dir, 'resources'),
                  os.path.join(self.tm_env.svc_localdisk_dir, 'resources'),
                  os.path.join(self.tm_env.svc_presence_dir, 'resources')):
            os.makedirs(d, exist_ok=True)
        # the host's IP sets, created the way node initialisation creates them
        from treadmill import iptables
        iptables.ipsets_ensure_exist()
        return self

    def close(self):
        for obj, attr, old in reversed(self._saved):
            try:
                setattr(obj, attr, old)
            except Exception:   # context.GLOBAL.cell = None is refused by some versions
                pass
        self._saved = []
        self._installed = False
        self.close_inotifies()
        shutil.rmtree(self.root, ignore_errors=True)

    # ------------------------------------------------------------------- cuts
    def _step(self, label):
        self.steps += 1
        is_sub = label.startswith('ipset') or label.startswith('conntrack')
        if is_sub:
            self.sub_steps += 1
        cut = self.cut
        if cut is None or self.cut_fired:
            return None
        if (cut[0] == 'kill' and self.steps == cut[1]) or (cut[0] == 'kill_at' and label == cut[1]):
            self.cut_fired = True
            self.kernel.dead = True
            raise Kill(label)
        if cut[0] == 'error' and is_sub and self.sub_steps == cut[1]:
            self.cut_fired = True
            return 'fail'
        if cut[0] == 'error2' and is_sub and self.sub_steps in (cut[1], cut[1] + 1):
            # the same kind of command fails twice in a row (a retry meets the failure again)
            self.cut_fired_once = True
            if self.sub_steps == cut[1] + 1:
                self.cut_fired = True
            return 'fail'
        return None

    # request directory of a container at each resource service (as _run.run / _finish._cleanup name them)
    CLIENT_DIRS = {'cgroup': 'cgroups', 'localdisk': 'localdisk', 'network': 'network', 'presence': 'presence'}

    def _second_worker(self, svc_name):
        """cut ('other_worker', svc): a second cleanup worker is finishing the SAME container at the same moment (the
        previous instance of the cleanup service is still alive when the new one starts) and is one step ahead at the
        delete of this service's request: its own ResourceServiceClient.delete (the real one) runs to its end between
        this worker's removal of the request link and its renaming of the request directory; then it is killed."""
        cut = self.cut
        if cut is None or cut[0] != 'other_worker' or cut[1] != svc_name or self.cut_fired or self.finishing is None:
            return
        self.cut_fired = True
        self.second_worker_fired = svc_name
        c = self.finishing
        svc = getattr(self.tm_env, 'svc_' + svc_name)
        client = svc.make_client(os.path.join(self.tm_env.apps_dir, c.unique, 'data', 'resources',
                                              self.CLIENT_DIRS[svc_name]))
        client.delete(c.unique)

    def flag_aborted(self, container_dir, why, payload):
        """What `treadmill sproc run` does when the runtime's run() ends with an exception."""
        from treadmill.appcfg import abort as app_abort
        os.makedirs(self.tm_env.app_events_dir, exist_ok=True)
        app_abort.flag_aborted(container_dir, why=app_abort.AbortedReason(why), payload=payload)
        self.aborted_flags_written = getattr(self, 'aborted_flags_written', 0) + 1

    def arm(self, cut):
        self.cut = cut
        self.steps = 0
        self.sub_steps = 0
        self.cut_fired = False

    def disarm(self):
        fired = self.cut_fired or getattr(self, 'cut_fired_once', False)
        self.cut_fired_once = False
        self.cut = None
        self.cut_fired = False
        self.kernel.dead = False
        return fired

    # --------------------------------------------------------------- snapshot
    def snapshot(self):
        """Everything the statement names: rule directory, endpoint directory, IP sets."""
        items = set()
        for kind, path in (('rule', self.tm_env.rules_dir), ('spec', self.tm_env.endpoints_dir)):
            for fn in os.listdir(path):
                full = os.path.join(path, fn)
                items.add((kind, fn, os.readlink(full) if os.path.islink(full) else '<file>'))
        for name, entries in self.kernel.snapshot().items():
            items.add(('ipset-exists', name, self.kernel.sets[name]['type']))
            for e in entries:
                items.add(('ipset', name, e))
        return frozenset(items)

    # ------------------------------------------------------- foreign entries
    def seed_foreign(self, items):
        """Entries of other containers that were on the host before the case
        (created by the harness directly, not through the repository)."""
        for kind, name, value in items:
            if kind == 'rule':
                os.symlink(value, os.path.join(self.tm_env.rules_dir, name))
            elif kind == 'spec':
                os.symlink(value, os.path.join(self.tm_env.endpoints_dir, name))
            elif kind == 'ipset':
                self.kernel.sets[name]['entries'].add(value)
            elif kind == 'appdir':
                os.makedirs(os.path.join(self.tm_env.apps_dir, name), exist_ok=True)
            else:
                raise HarnessError('seed_foreign %r' % kind)

    # ------------------------------------------------- network service daemon
    def serve_network(self):
        rsrc = os.path.join(self.tm_env.svc_network_dir, 'resources')
        for req_id in sorted(os.listdir(rsrc)):
            if req_id.startswith('.'):
                continue
            req_dir = os.path.join(rsrc, req_id)
            reply = os.path.join(req_dir, 'reply.yml')
            if os.path.exists(reply):
                continue
            if not os.path.isdir(req_dir):
                # the request directory went away with its container (a start that was aborted before state.json
                # existed is finished without any clean-up): the service sweeps such a link (_check_requests)
                os.unlink(req_dir)
                self.vips.pop(req_id, None)
                continue
            if req_id not in self.vips:
                free = [ip for ip in self.vip_pool if ip not in self.vips.values()]
                if not free:
                    raise HarnessError('vip pool exhausted')
                self.vips[req_id] = free[0]
                self.vip_history.append((req_id, free[0]))
            veth = 'x%s.1' % req_id.rsplit('-', 1)[-1][-12:]
            with open(reply, 'w') as f:
                yaml.safe_dump({'vip': self.vips[req_id], 'veth': veth, 'gateway': GATEWAY,
                                'external_ip': self.ext_ip}, f, explicit_start=True,
                               explicit_end=True, default_flow_style=False)

    def replay_network_requests(self, during=None):
        """The network service restarts and re-processes every request it finds (what ResourceService._run does at
        start): the REAL ResourceService._on_created, with the daemon stand-in as the implementation behind it.
        `during` = (container, fn): fn() runs while the service is inside on_create_request for that container's
        request - another node service acting at that very instant."""
        from treadmill.services import network_service
        svc = self.tm_env.svc_network
        rsrc = os.path.join(self.tm_env.svc_network_dir, 'resources')
        host = self
        out = dict(replayed=0, died=None)

        class _Impl:
            PAYLOAD_SCHEMA = network_service.NetworkResourceService.PAYLOAD_SCHEMA

            def on_create_request(self, req_id, _req_data):
                if req_id not in host.vips:
                    free = [ip for ip in host.vip_pool if ip not in host.vips.values()]
                    if not free:
                        raise HarnessError('vip pool exhausted')
                    host.vips[req_id] = free[0]
                    host.vip_history.append((req_id, free[0]))
                reply = {'vip': host.vips[req_id], 'veth': 'x%s.1' % req_id.rsplit('-', 1)[-1][-12:],
                         'gateway': GATEWAY, 'external_ip': host.ext_ip}
                if during is not None and req_id == during[0].unique:
                    out['during'] = during[1]()
                return reply
        for req_id in sorted(os.listdir(rsrc)):
            if req_id.startswith('.'):
                continue
            try:
                svc._on_created(_Impl(), os.path.join(rsrc, req_id))          # pylint: disable=protected-access
                out['replayed'] += 1
            except OSError as err:
                # the request (or its container) vanished under the service while it was answering: the service dies on
                # it and is restarted; nothing of the property depends on that answer
                out['died'] = '%s: %s' % (type(err).__name__, err)
        return out

    def reap_network(self):
        """on_delete_request of the daemon: a request whose link is gone frees its VIP."""
        rsrc = os.path.join(self.tm_env.svc_network_dir, 'resources')
        live = set(r for r in os.listdir(rsrc) if os.path.isdir(os.path.join(rsrc, r)))
        for req_id in list(self.vips):
            if req_id not in live:
                del self.vips[req_id]

    # ------------------------------------------------------------------ start
    def load(self, c):
        """Event file -> manifest, by the real loading code."""
        from treadmill.appcfg import configure as app_configure
        cache = os.path.join(self.root, 'cache%d' % c.idx)
        os.makedirs(cache, exist_ok=True)
        c.event = os.path.join(cache, c.name)
        with open(c.event, 'w') as f:
            yaml.safe_dump(c.spec, f, default_flow_style=False)
        c.manifest = app_configure.load_runtime_manifest(self.tm_env, c.event, 'linux')
        if getattr(c, 'strip_linux_services', False):
            c.manifest['endpoints'] = [e for e in c.manifest['endpoints'] if e.get('name') != 'ssh']
            c.manifest['services'] = [sv for sv in c.manifest['services'] if sv.get('name') != 'sshd']
        from treadmill import appcfg
        c.unique = appcfg.manifest_unique_name(c.manifest)
        c.unresolvable = any(self._unresolvable(h) for h in c.manifest.get('passthrough', []))
        return c

    def _unresolvable(self, host):
        try:
            socket.gethostbyname(host)
            return False
        except socket.gaierror:
            return True

    def start(self, c, cut=None):
        """treadmill.runtime.linux._run.run(), network part.  Returns 'complete'
        or 'interrupted' (injected cut fired)."""
        from treadmill import runtime
        from treadmill.runtime.linux import _run
        manifest = c.manifest
        unique_name = c.unique
        container_dir = os.path.join(self.tm_env.apps_dir, unique_name, 'data')
        os.makedirs(container_dir, exist_ok=True)
        with open(os.path.join(self.tm_env.apps_dir, unique_name, 'type'), 'w') as f:
            f.write('longrun')      # what supervisor.create_service leaves: the container is a service directory
        if not manifest['shared_network'] and (getattr(c, 'via_run', False) or (cut and cut[0] == 'timeout')):
            return self._start_via_run(c, cut, container_dir)
        if getattr(c, 'real_requests', False):
            # the requests to the cgroup and local-disk services (real client side; nobody needs their replies here)
            self.tm_env.svc_cgroup.make_client(os.path.join(container_dir, 'resources', 'cgroups')).put(
                unique_name, {'memory': manifest['memory'], 'cpu': manifest['cpu']})
            self.tm_env.svc_localdisk.make_client(os.path.join(container_dir, 'resources', 'localdisk')).put(
                unique_name, {'size': manifest['disk']})
        network_client = self.tm_env.svc_network.make_client(
            os.path.join(container_dir, 'resources', 'network'))
        if not manifest['shared_network']:
            network_client.put(unique_name, {'environment': manifest['environment']})
            self.serve_network()
            # run() calls wait(unique_name): with the default timeout that builds an inotify watcher
            # even though the reply is already there; only 128 inotify instances exist per user and
            # other processes of the sandbox use them, so the harness asks with timeout=0 (same
            # reply, no watcher)
            app_network = network_client.wait(unique_name, timeout=0)
            self.close_inotifies()
            c.vip = app_network['vip']
        else:
            # run() would wait for a reply nobody writes; the harness supplies the host's own address
            app_network = {'vip': self.ext_ip, 'veth': None, 'gateway': self.ext_ip,
                           'external_ip': self.ext_ip}
        manifest['network'] = app_network
        manifest['vip'] = {'ip0': app_network['gateway'], 'ip1': app_network['vip']}
        manifest['boot_commands'] = []
        manifest['finish_commands'] = []
        c.sockets = runtime.allocate_network_ports(app_network['external_ip'], manifest)
        app = runtime.save_app(manifest, container_dir)
        with open(os.path.join(container_dir, 'state.json')) as f:
            c.state = json.load(f)
        def presence_request():
            if not getattr(c, 'real_requests', False):
                return
            req = {'endpoints': manifest['endpoints'], 'vip': manifest['vip']}
            if manifest.get('identity_group'):
                req['identity_group'] = manifest['identity_group']
            if manifest.get('identity') is not None:
                req['identity'] = manifest['identity']
            self.tm_env.svc_presence.make_client(os.path.join(container_dir, 'resources', 'presence')).put(
                unique_name, req)
        if app.shared_network:
            presence_request()
            c.close_sockets()
            c.stage = 'started'
            return 'complete'
        from treadmill import subproc
        import traceback
        self.arm(cut)
        interrupted = False
        try:
            _run._unshare_network(self.tm_env, container_dir, app)
        except FileExistsError:
            # the kernel handed out a host port that an unfinished container of the same instance had before (its
            # endpoint spec is still there): the start fails, the container is aborted and finished like any other
            self.start_failed_on_reused_port = getattr(self, 'start_failed_on_reused_port', 0) + 1
            self.flag_aborted(container_dir, 'unknown', traceback.format_exc())
            interrupted = True
        except Kill:
            if not self.cut_fired:
                raise
            interrupted = True
        except subproc.CalledProcessError:
            if not ((self.cut_fired or getattr(self, 'cut_fired_once', False)) and self.cut and self.cut[0] in ('error', 'error2')):
                raise
            self.flag_aborted(container_dir, 'unknown', traceback.format_exc())
            interrupted = True
        except socket.gaierror:
            self.flag_aborted(container_dir, 'unknown', traceback.format_exc())
            raise
        finally:
            self.disarm()
        if interrupted:
            c.close_sockets()       # the process died, its sockets with it
            c.stage = 'aborted'
            return 'interrupted'
        presence_request()
        c.stage = 'started'
        return 'complete'

    def _start_via_run(self, c, cut, container_dir):
        """The whole treadmill.runtime.linux._run.run() with the boundaries that need a real node stubbed: the
        cgroup / localdisk / presence resource services (answer at once), cgroups.join, the image, the root volume,
        mount clean-up, app hooks and the final exec (which ends the call).  The order of its steps - request
        the network, allocate ports, save state.json, register rules / specs / set entries - is the code's own."""
        from treadmill import runtime, subproc
        from treadmill.runtime.linux import _run
        host = self
        manifest = c.manifest
        unique_name = c.unique

        class _Exec(BaseException):
            pass

        from treadmill import services as tm_services
        import types
        # cut ('timeout', svc): that resource service does not answer in time
        silent = cut[1] if cut and cut[0] == 'timeout' else None

        class _Client:
            """The request is made by the real client; the daemon's reply is supplied at once - or never."""
            def __init__(self, real, reply, on_wait=None):
                self.real, self.reply, self.on_wait = real, reply, on_wait

            def put(self, name, req):
                if getattr(c, 'real_requests', False):
                    return self.real.put(name, req)
                return None

            def wait(self, name, timeout=None):      # pylint: disable=unused-argument
                if self.on_wait:
                    self.on_wait()
                if silent == self.real._serviceinst.name:      # pylint: disable=protected-access
                    host.timeout_fired = True
                    raise tm_services.ResourceServiceTimeoutError('Resource %r not available in time' % name)
                return self.reply

        class _Svc:
            def __init__(self, real, reply, on_wait=None):
                self.real, self.reply, self.on_wait = real, reply, on_wait

            def make_client(self, path):
                # (ResourceServiceClient() creates its directory: only for containers that make real requests)
                if getattr(c, 'real_requests', False):
                    return _Client(self.real.make_client(path), self.reply, self.on_wait)
                return _Client(types.SimpleNamespace(_serviceinst=types.SimpleNamespace(name=self.real.name)), self.reply, self.on_wait)

        class _Image:
            def unpack(self, *_a, **_kw):
                pass

        real_net = self.tm_env.svc_network
        real_make = real_net.make_client

        def make_net_client(path):
            client = real_make(path)

            class _NetClient:
                def __getattr__(self, attr):
                    return getattr(client, attr)

                def wait(self, name, timeout=None):      # pylint: disable=unused-argument
                    if silent == 'network':
                        host.timeout_fired = True
                        os.unlink(os.path.join(path, 'req-network-' + name, 'reply.yml'))   # the daemon never wrote it
                    # the default timeout builds an inotify watcher although the reply is already there (128 per user)
                    return client.wait(name, timeout=0)
            return _NetClient()

        captured = {}
        real_alloc = runtime.allocate_network_ports

        def alloc(ext_ip, man):
            captured['sockets'] = real_alloc(ext_ip, man)
            return captured['sockets']

        def exec_pid1(*_a, **_kw):
            raise _Exec()

        saved = []

        def rebind(obj, attr, new):
            saved.append((obj, attr, getattr(obj, attr)))
            setattr(obj, attr, new)
        # the network daemon answers while the container waits for its cgroups
        rebind(self.tm_env, 'svc_cgroup', _Svc(self.tm_env.svc_cgroup, {}, on_wait=self.serve_network))
        rebind(self.tm_env, 'svc_localdisk', _Svc(self.tm_env.svc_localdisk, {'block_dev': '/dev/null'}))
        rebind(self.tm_env, 'svc_presence', _Svc(self.tm_env.svc_presence, {}))
        class _NetSvc:
            def __getattr__(self, attr):
                return getattr(real_net, attr)

            def make_client(self, path):
                return make_net_client(path)
        rebind(self.tm_env, 'svc_network', _NetSvc())
        rebind(_run, '_apply_cgroup_limits', lambda _c: None)
        rebind(_run.image, 'get_image', lambda _env, _man: _Image())
        rebind(_run, '_create_root_dir', lambda cdir, _ld: os.path.join(cdir, 'root'))
        rebind(_run.fs_linux, 'cleanup_mounts', lambda *_a, **_kw: None)
        rebind(_run.apphook, 'configure', lambda *_a, **_kw: None)
        rebind(runtime, 'allocate_network_ports', alloc)
        rebind(subproc, 'exec_pid1', exec_pid1)
        import traceback
        self.arm(cut)
        self.timeout_fired = False
        interrupted = False
        try:
            try:
                from treadmill import utils as tm_utils
                _run.run(self.tm_env, tm_utils.to_obj({'host_mount_whitelist': []}), container_dir, manifest)
                raise HarnessError('_run.run returned without exec')
            except _Exec:
                pass
            except FileExistsError:
                self.start_failed_on_reused_port = getattr(self, 'start_failed_on_reused_port', 0) + 1
                self.flag_aborted(container_dir, 'unknown', traceback.format_exc())
                interrupted = True
            except Kill:
                if not self.cut_fired:
                    raise
                interrupted = True
            except subproc.CalledProcessError:
                if not ((self.cut_fired or getattr(self, 'cut_fired_once', False)) and self.cut and self.cut[0] in ('error', 'error2')):
                    raise
                self.flag_aborted(container_dir, 'unknown', traceback.format_exc())
                interrupted = True
            except tm_services.ResourceServiceTimeoutError:
                # LinuxRuntime._run turns it into ContainerSetupError(reason=TIMEOUT); `treadmill sproc run` flags that
                if not self.timeout_fired:
                    raise
                self.flag_aborted(container_dir, 'timeout', traceback.format_exc())
                self.start_timeouts = getattr(self, 'start_timeouts', {})
                self.start_timeouts[silent] = self.start_timeouts.get(silent, 0) + 1
                interrupted = True
            except socket.gaierror:
                self.flag_aborted(container_dir, 'unknown', traceback.format_exc())
                raise
        finally:
            self.disarm()
            for obj, attr, old in reversed(saved):
                setattr(obj, attr, old)
            self.close_inotifies()
            # (also when the start ends with an exception the caller expects, e.g. a host that does not resolve)
            c.sockets = captured.get('sockets', [])
            c.vip = (manifest.get('network') or {}).get('vip') or self.vips.get(unique_name)
        self.started_via_run = getattr(self, 'started_via_run', 0) + 1
        state = os.path.join(container_dir, 'state.json')
        if os.path.exists(state):
            with open(state) as f:
                c.state = json.load(f)
        else:
            # the start died before state.json was written: what it had allocated so far is in the manifest
            c.state = json.loads(json.dumps(manifest, default=str))
            self.no_state_json_after_start = getattr(self, 'no_state_json_after_start', 0) + 1
        if interrupted:
            c.close_sockets()
            c.stage = 'aborted'
            return 'interrupted'
        c.stage = 'started'
        return 'complete'

    # ----------------------------------------------------------------- finish
    def finish(self, c, via='finish', cut=None):
        """Returns 'complete' or 'interrupted'.  Exceptions that were not
        injected propagate."""
        from treadmill import runtime
        from treadmill import subproc
        from treadmill.runtime.linux import _finish
        c.close_sockets()           # the container's processes are gone before finish runs
        container = os.path.join(self.tm_env.apps_dir, c.unique)
        if not os.path.isdir(container):
            # an earlier finish through the runtime removed the directory: the cleanup service drops the
            # link of such a container without finishing it again
            self.finish_without_directory = getattr(self, 'finish_without_directory', 0) + 1
            self.reap_network()
            return 'complete'
        self.arm(cut)
        self.finishing = c
        self.second_worker_fired = None
        status = 'complete'
        io_restore = None
        if cut is not None and cut[0] in ('ioerror', 'ioerror_reply'):
            # one open(2) of the finish fails once with a transient error (ENFILE: the system file table is
            # momentarily full; EIO); everything after it works.  'ioerror': the container's state.json;
            # 'ioerror_reply': the reply.yml of a resource service request (the finish reads the network reply)
            if cut[0] == 'ioerror':
                from treadmill.appcfg import manifest as _module
                suffix, err = 'state.json', (errno.ENFILE, 'Too many open files in system (injected)')
            else:
                from treadmill.services import _base_service as _module
                suffix = 'reply.yml'
                err = ((errno.ENFILE, 'Too many open files in system (injected)') if cut[1] < 0.5
                       else (errno.EIO, 'Input/output error (injected)'))
            real_io = _module.io
            host = self

            class _Io:
                def __getattr__(self, attr):
                    return getattr(real_io, attr)

                @staticmethod
                def open(path, *a, **kw):
                    if not host.cut_fired and str(path).endswith(suffix):
                        host.cut_fired = True
                        host.io_faults_injected[suffix] = host.io_faults_injected.get(suffix, 0) + 1
                        raise InjectedIOError(err[0], err[1], str(path))
                    return real_io.open(path, *a, **kw)
            _module.io = _Io()
            io_restore = (_module, real_io)
        try:
            if via == 'finish':
                _finish.finish(self.tm_env, container)
            elif via == 'runtime':
                # the way the cleanup service finishes a container: Cleanup.invoke drops the link when the
                # directory is gone, else LinuxRuntime.finish() = RuntimeBase.finish (not supervised any
                # more -> _finish.finish -> remove the container directory)
                from treadmill.runtime.linux import runtime as linux_runtime
                linux_runtime.LinuxRuntime(self.tm_env, container).finish()
            else:
                data_dir = os.path.join(container, 'data')
                app = runtime.load_app_safe(c.unique, data_dir)
                client = self.tm_env.svc_network.make_client(
                    os.path.join(data_dir, 'resources', 'network'))
                if app is not None and hasattr(app, 'shared_network') and not app.shared_network:
                    _finish._cleanup_network(self.tm_env, data_dir, app, client)
        except Kill:
            if not self.cut_fired:
                raise
            status = 'interrupted'
        except subproc.CalledProcessError:
            if not ((self.cut_fired or getattr(self, 'cut_fired_once', False)) and self.cut and self.cut[0] in ('error', 'error2')):
                raise
            status = 'interrupted'
        except InjectedIOError:
            status = 'interrupted'          # the finish fails and is retried
        except FileNotFoundError:
            # the second worker took the request directory away under this one: an attempt that ends with that error
            # has failed and is run again (an attempt that RETURNS is judged as a completed finish)
            if not self.second_worker_fired:
                raise
            status = 'interrupted'
        except Exception:       # noqa
            # a finish that ends with whatever exception after the injected transient read error has failed: the
            # cleanup supervisor starts it again.  (A finish that RETURNS is judged as a completed finish.)
            if not (cut is not None and cut[0] == 'ioerror_reply' and self.cut_fired):
                raise
            status = 'interrupted'
        finally:
            if io_restore is not None:
                io_restore[0].io = io_restore[1]
            self.finishing = None
            fired = self.disarm()
        if fired and status == 'complete':
            # the injected error was absorbed by the code under test: the operation still ended
            status = 'complete-absorbed'
        self.reap_network()
        return status
