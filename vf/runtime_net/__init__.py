"""C16 helpers: a host (real LinuxAppEnvironment on a temp root) on which the
real container network start (`_run._unshare_network`) and finish
(`_finish.finish` / `_finish._cleanup_network`) are driven, a kernel-state model
behind the subprocess boundary (ipset / conntrack / iptables / ip), a manifest
and history generator, and the snapshot arithmetic of the oracle."""
