"""Snapshot arithmetic and labelling for C16.  Written from the property
statement only: a snapshot is a set of (kind, name, value) items; what a start
registered is `after - before`; a finish must remove exactly that and nothing
else.  The labelling (which part of the manifest an item belongs to) parses the
item names with its own patterns and is used for mechanism keys only."""
import re

VRING_SET = 'tm:vring-containers'
INFRA_SET = 'tm:container-infra-services'

_NAT_RE = re.compile(r'^(?P<chain>\w+):(?P<kind>dnat|snat):(?P<proto>tcp|udp):'
                     r'(?P<src_ip>[^:]+):(?P<src_port>[^:]+):(?P<dst_ip>[^:]+):(?P<dst_port>[^:-]+)'
                     r'-(?P<new_ip>[^:]+):(?P<new_port>\d+)$')
_PT_RE = re.compile(r'^(?P<chain>\w+):passthrough:(?P<src_ip>[^-]+)-(?P<dst_ip>.+)$')
_INFRA_RE = re.compile(r'^(?P<ip>[^,]+),(?P<proto>\w+):(?P<port>\d+)$')


def _ephemeral(state, proto):
    v = (state or {}).get('ephemeral_ports', {}).get(proto, [])
    return set(v) if isinstance(v, list) else set()


def label(item, state):
    """Which registration of the container an item is (state = its state.json)."""
    kind, name, value = item
    if kind == 'rule':
        m = _NAT_RE.match(name)
        if m:
            proto = m.group('proto')
            if m.group('kind') == 'dnat':
                port = m.group('dst_port')
                if port.isdigit() and int(port) in _ephemeral(state, proto):
                    return 'rule-dnat:ephemeral-%s' % proto
                return 'rule-dnat:endpoint-%s' % proto
            return 'rule-snat:endpoint-%s' % proto
        if _PT_RE.match(name):
            return 'rule-passthrough'
        return 'rule-other'
    if kind == 'spec':
        return 'endpoint-spec'
    if kind == 'ipset':
        if name == VRING_SET:
            return 'ipset-vring'
        if name == INFRA_SET:
            m = _INFRA_RE.match(value)
            if m and int(m.group('port')) in _ephemeral(state, m.group('proto')):
                return 'ipset-infra:ephemeral-%s' % m.group('proto')
            if m:
                return 'ipset-infra:endpoint-%s' % m.group('proto')
            return 'ipset-infra'
        return 'ipset-other'
    if kind == 'ipset-exists':
        return 'ipset-set'
    return kind


def reach_key(item, state):
    return 'delta_' + label(item, state).replace(':', '_').replace('-', '_')


def evaluate_finish(before, after, delta, complete):
    """Returns (added, foreign_removed, leaked).  `complete` = the finish ran
    to its end (for an interrupted attempt only the first two are meaningful)."""
    added = after - before
    removed = before - after
    foreign = removed - delta
    leaked = (delta & after) if complete else frozenset()
    return added, foreign, leaked
