"""Generators for C16: application manifests over the space the property
quantifies over (inside what etc/schema/app.json admits), host names and their
resolver table, foreign entries already on the host, and start/finish histories
of 2-4 containers.  Everything is drawn from the rng that is passed in."""

PROIDS = ['treadmld', 'ab', 'x_y-z', 'proid-20-chars-long0']
APPS = ['web', 'db.master', 'svc-1.blue_2', 'a.b.c']
ENDPOINT_NAMES = ['http', 'https', 'grpc', 'data', 'ep-1', 'a_b', 'x' * 20, 'ssh', 'http']
CELLS = ['cell2', 'ny-000']
ENVIRONMENTS = ['dev', 'qa', 'uat', 'prod']

# host name -> address.  Two names share an address (the code de-duplicates);
# literals are not looked up: the resolver parses them as inet_aton does and
# answers in canonical dotted-quad form (zero-padded octets are octal).
RESOLVER = {
    'gw1.example.com': '10.20.0.1',
    'gw2.example.com': '10.20.0.2',
    'gw1-alias.example.com': '10.20.0.1',
    'monitor': '172.16.5.9',
}
PASSTHROUGH_HOSTS = sorted(RESOLVER) + ['10.20.0.2', '203.0.113.77']
# IPv4 literals as people write them in manifests (zero-padded octets); the schema's item is a string
PADDED_LITERALS = ['10.20.0.002', '203.000.113.077', '010.1.2.3', '172.016.005.009']
UNRESOLVABLE = 'gone.example.com'

FOREIGN_VIPS = ['192.168.200.%d' % i for i in range(1, 6)]


def vip_pool(rng):
    pool = ['192.168.%d.%d' % (rng.randint(0, 3), i) for i in rng.sample(range(1, 250), 4)]
    return pool


def gen_port(rng, previous):
    r = rng.random()
    if r < 0.25:
        return 0                                  # same number inside and outside
    if r < 0.40 and previous:
        return rng.choice(previous)               # two endpoints on one container port
    if r < 0.60:
        return rng.choice([1, 22, 80, 8000, 8080, 65535, 32768, 40960, 49151])
    return rng.randint(1024, 65535)


def gen_spec(rng, proid, task, tier='quick', p_unresolvable=0.0):
    """One application manifest as the event manager puts it into the cache
    (manifest + placement data + task)."""
    spec = {
        'task': task,
        'proid': proid,
        'environment': rng.choice(ENVIRONMENTS),
        'cpu': '%d%%' % rng.choice([5, 10, 100]),
        'memory': rng.choice(['100M', '1G']),
        'disk': rng.choice(['100M', '2G']),
        'services': [{'name': 'main', 'command': '/bin/sleep 5',
                      'restart': {'limit': rng.randint(0, 5), 'interval': 60}}],
    }
    max_ep = 5 if tier == 'quick' else 8
    n_ep = rng.choice([0, 1, 1, 2, 2, 3, 4, max_ep])
    endpoints = []
    ports = []
    for _ in range(n_ep):
        ep = {'name': rng.choice(ENDPOINT_NAMES), 'port': gen_port(rng, ports)}
        if ep['port']:
            ports.append(ep['port'])
        r = rng.random()
        if r < 0.35:
            ep['proto'] = 'udp'
        elif r < 0.6:
            ep['proto'] = 'tcp'
        if rng.random() < 0.35:
            ep['type'] = 'infra'
        endpoints.append(ep)
    if endpoints or rng.random() < 0.5:
        spec['endpoints'] = endpoints
    if rng.random() < 0.65:
        eph = {}
        big = tier == 'thorough' and rng.random() < 0.1
        for proto in ('tcp', 'udp'):
            if rng.random() < 0.7:
                eph[proto] = rng.randint(10, 40) if big else rng.randint(0, 4)
        spec['ephemeral_ports'] = eph
    if rng.random() < 0.55:
        hosts = [rng.choice(PASSTHROUGH_HOSTS) for _ in range(rng.randint(0, 3))]
        if rng.random() < 0.3:
            hosts.insert(rng.randint(0, len(hosts)), rng.choice(PADDED_LITERALS))
        if rng.random() < p_unresolvable:
            hosts.insert(rng.randint(0, len(hosts)), UNRESOLVABLE)
        spec['passthrough'] = hosts
    if rng.random() < 0.5:
        names = sorted({e['name'] for e in endpoints}) or ['http']
        spec['vring'] = {
            'cells': rng.sample(CELLS, rng.randint(0, len(CELLS))),
            'rules': [{'endpoints': [rng.choice(names)], 'pattern': '%s.*' % proid}],
        }
    r = rng.random()
    if r < 0.12:
        spec['shared_network'] = True
    elif r < 0.35:
        spec['shared_network'] = False
    if rng.random() < 0.3:
        spec['identity_group'] = '%s.ig' % proid
        spec['identity'] = rng.randint(0, 9)
    if rng.random() < 0.5:
        spec['expires'] = 1700000000.0 + rng.randint(0, 10 ** 6)
    r = rng.random()
    if r < 0.2:
        spec['shared_ip'] = True
    elif r < 0.35:
        spec['shared_ip'] = False
    return spec


def _via(rng):
    r = rng.random()
    return 'finish' if r < 0.45 else ('runtime' if r < 0.8 else 'cleanup_network')


def estimate_steps(manifest, resolver_ips):
    """Upper estimate of the boundary steps of one start or finish (used only to
    place an injected cut somewhere inside the operation)."""
    n_ep = len(manifest.get('endpoints', []))
    eph = manifest.get('ephemeral_ports', {})
    n_eph = 0
    for proto in ('tcp', 'udp'):
        v = eph.get(proto, 0)
        n_eph += len(v) if isinstance(v, list) else int(v)
    return 5 * n_ep + 2 * n_eph + resolver_ips + 4


def gen_history(rng, tier='quick', p_unresolvable=0.0):
    """containers (name, spec), foreign entries flag set, operation list."""
    n = rng.choice([2, 2, 3, 3, 4])
    names = []
    specs = []
    twin = rng.random() < 0.6           # two containers of the SAME instance name
    for i in range(n):
        if twin and i == 1:
            name = names[0]
        else:
            while True:
                name = '%s.%s#%010d' % (rng.choice(PROIDS), rng.choice(APPS), rng.choice([1, 7, 12345, 9999999999]))
                if name not in names:
                    break
        names.append(name)
        specs.append(gen_spec(rng, name.split('.', 1)[0], name.split('#')[1], tier, p_unresolvable))
    if twin and rng.random() < 0.5:
        # the second generation of an instance usually runs the same manifest
        keep_env = specs[1]['environment']
        specs[1] = dict(specs[0])
        if rng.random() < 0.5:
            specs[1]['environment'] = keep_env

    # operations.  A finish is zero to two interrupted attempts (a kill at some boundary step, a
    # failing ipset / conntrack call, or a kill right after the network request link has been
    # removed) followed by a complete run; other containers start and finish in between.
    ops = []
    stage = ['new'] * n
    attempts = [0] * n
    guard = 0
    prefer_start = False
    while any(s != 'finished' for s in stage):
        guard += 1
        assert guard < 300
        new = [i for i in range(n) if stage[i] == 'new']
        live = [i for i in range(n) if stage[i] in ('started', 'finishing')]
        done = [i for i in range(n) if stage[i] == 'finished']
        r = rng.random()
        if new and (r < 0.5 or not live or (prefer_start and r < 0.9)):
            prefer_start = False
            i = rng.choice(new)
            op = {'op': 'start', 'c': i, 'cut': None}
            if rng.random() < 0.15:
                op['cut'] = [rng.choice(['kill', 'kill', 'error', 'error2', 'timeout', 'timeout']), round(rng.random(), 3)]
                if op['cut'][0] == 'timeout':
                    # one of the four resource services does not answer the container's request in time (the presence
                    # service is asked last, when the private network is set up already)
                    op['cut'][1] = rng.choice(['presence', 'presence', 'network', 'cgroup', 'localdisk'])
            ops.append(op)
            stage[i] = 'started'
        elif live and (r < 0.92 or not done):
            prefer_start = False
            i = rng.choice(live)
            if stage[i] == 'started':
                attempts[i] = rng.choice([0, 0, 0, 0, 0, 1, 1, 1, 2])
                stage[i] = 'finishing'
            op = {'op': 'finish', 'c': i, 'via': _via(rng),
                  'cut': None, 'repeat': 0}
            if attempts[i] > 0:
                attempts[i] -= 1
                r2 = rng.random()
                if r2 < 0.25:
                    op['cut'] = ['kill_at', 'clt_del_request:done']
                    prefer_start = True
                else:
                    op['cut'] = [rng.choice(['kill', 'kill', 'error', 'error2', 'ioerror', 'ioerror_reply',
                                             'other_worker', 'other_worker']),
                                 round(rng.random(), 3)]
                    if op['cut'][0] == 'other_worker':
                        # a second cleanup worker finishes the same container at the same moment and gets ahead of this
                        # one at the delete of one resource service request
                        op['cut'][1] = rng.choice(['localdisk', 'cgroup', 'presence', 'network'])
            else:
                op['repeat'] = rng.choice([0, 0, 1, 1, 2])
                stage[i] = 'finished'
                if rng.random() < 0.15:
                    # the network service is restarted and is re-processing this container's request at the very
                    # moment the cleanup service finishes the container
                    op['during_replay'] = True
            ops.append(op)
        elif done:
            ops.append({'op': 'refinish', 'c': rng.choice(done),
                        'via': _via(rng)})
    for i in range(n):
        if rng.random() < 0.35:
            ops.append({'op': 'refinish', 'c': i,
                        'via': _via(rng)})
    return names, specs, ops


def gen_foreign(rng, ext_ip, names):
    """Entries of containers that are not part of the history (another node
    agent generation, an older generation of the same instance, ...).  Real
    ports lie outside both allocation ranges and VIPs outside the pool, so the
    containers of the history never collide with them."""
    items = []
    owners = []
    for k in range(rng.randint(1, 3)):
        if k == 0 and rng.random() < 0.7:
            inst = rng.choice(names)                 # an older generation of an instance of the history
        else:
            inst = 'other.app%d#%010d' % (k, rng.randint(1, 99))
        uid = ''.join(rng.choice('0123456789abcdefghijklmnopqrstuvwxyz') for _ in range(13))
        owner = '%s-%s' % (inst.replace('#', '-'), uid)
        owners.append(owner)
        vip = FOREIGN_VIPS[k]
        if rng.random() < 0.7:
            items.append(('appdir', owner, None))
        for _ in range(rng.randint(1, 3)):
            proto = rng.choice(['tcp', 'udp'])
            real = rng.randint(20000, 30000)
            port = rng.choice([22, 8000, real])
            items.append(('rule', 'TM_PREROUTING_DNAT:dnat:%s:*:*:%s:%d-%s:%d' % (proto, ext_ip, real, vip, port),
                          '../apps/' + owner))
            items.append(('rule', 'TM_POSTROUTING_SNAT:snat:%s:%s:%d:*:*-%s:%d' % (proto, vip, port, ext_ip, real),
                          '../apps/' + owner))
            items.append(('spec', '~'.join([inst, proto, rng.choice(ENDPOINT_NAMES), str(real),
                                            str(rng.randint(300, 30000)), str(port)]),
                          '/treadmill/apps/' + owner))
            if rng.random() < 0.6:
                items.append(('ipset', 'tm:container-infra-services', '%s,%s:%d' % (vip, proto, port)))
        if rng.random() < 0.7:
            items.append(('ipset', 'tm:vring-containers', vip))
        if rng.random() < 0.5:
            items.append(('rule', 'TM_PASSTHROUGH:passthrough:%s-%s' % (rng.choice(sorted(set(RESOLVER.values()))), vip),
                          '../apps/' + owner))
    # de-duplicate (same file name twice cannot exist)
    seen = set()
    out = []
    for it in items:
        key = it[:2] if it[0] != 'ipset' else it
        if key in seen:
            continue
        seen.add(key)
        out.append(it)
    return out
